#!/usr/bin/env python3
"""Verify a seeded breaking change and run the checks against it.

usage: tools/seed_verify.py <seed-id> <property> <out-dir-of-the-seeding-agent> [--checks C01,C02] [--tier quick]

Steps (all in a fresh scratch worktree of /repo HEAD under /tmp/seedverify, removed afterwards):
  1. `git apply patch.diff`
  2. the repository's test-suite must still pass (same pass count as the unchanged tree)
  3. demo.py must fail (exit != 0) with the change and pass (exit 0) without it
  4. `VERIF_REPO=<scratch> ./check <prop> --tier quick` for the requested checks; exit 1 = caught
Writes /verif/seeded/<seed-id>/{patch.diff, demo.py, notes.md, meta.json}.
"""

import argparse
import json
import os
import shutil
import subprocess
import sys
import time

VERIF = os.path.dirname(os.path.dirname(os.path.abspath(__file__)))
SO = ["field/summator", "krige/krigesum", "variogram/estimator"]


def sh(cmd, cwd=None, env=None, timeout=3600):
    p = subprocess.run(cmd, cwd=cwd, env=env, shell=isinstance(cmd, str), capture_output=True, text=True, timeout=timeout)
    return p.returncode, p.stdout, p.stderr


def run_checks(a, wt, meta):
    checks = (a.checks or a.prop).split(",")
    for c in checks:
        env2 = dict(os.environ, VERIF_REPO=wt, VERIF_SEED=os.environ.get("VERIF_SEED", "1"))
        t0 = time.time()
        cmd = [os.path.join(VERIF, "check"), c, "--tier", a.tier, "--no-evidence"] + (["--only", a.only] if a.only else [])
        rc, out, err = sh(cmd, cwd=VERIF, env=env2)
        lines = [ln.strip() for ln in out.splitlines() if ln.startswith("  [")]
        for ln in out.splitlines():
            if ln.startswith("VIOLATION") and "replay=" in ln:
                rp = ln.split("replay=")[1].strip()
                if os.path.basename(rp).startswith("found_") and os.path.exists(rp):
                    os.remove(rp)
        if not a.only:
            meta["checks"][c] = {
                "exit": rc,
                "caught": rc == 1,
                "first_report": lines[0][:300] if lines else "",
                "wall_s": round(time.time() - t0, 1),
                "tier": a.tier,
            }
            meta["ran"].append(f"VERIF_REPO=<scratch with change> ./check {c} --tier {a.tier} -> exit {rc}")
        print(c, "exit", rc, lines[0][:300] if lines else (err.strip().splitlines() or [""])[-1][:300])


def recheck(a, wt):
    mp = os.path.join(VERIF, "seeded", a.seed_id, "meta.json")
    meta = json.load(open(mp))
    meta.setdefault("checks", {})
    meta.setdefault("ran", [])
    run_checks(a, wt, meta)
    if not a.only:
        json.dump(meta, open(mp, "w"), indent=1)
    return 0


def main():
    ap = argparse.ArgumentParser()
    ap.add_argument("seed_id")
    ap.add_argument("prop")
    ap.add_argument("outdir")
    ap.add_argument("--checks", default=None)
    ap.add_argument("--tier", default="quick")
    ap.add_argument("--needs", default="")
    ap.add_argument("--recheck", action="store_true", help="skip suite and demo (already confirmed): only run the checks and merge the result into meta.json")
    ap.add_argument("--only", default=None, help="pass --only <sub> to the check (not recorded in meta.json)")
    a = ap.parse_args()
    wt = f"/tmp/seedverify/{a.seed_id}"
    os.makedirs("/tmp/seedverify", exist_ok=True)
    sh(f"git -C /repo worktree remove --force {wt}")
    shutil.rmtree(wt, ignore_errors=True)
    rc, out, err = sh(f"git -C /repo worktree add -f --detach {wt} HEAD")
    if rc:
        print(err)
        return 2
    meta = {"seed_id": a.seed_id, "property": a.prop, "needs": a.needs, "ran": []}
    try:
        for f in SO:
            d = os.path.dirname(f)
            for ext in (".cpython-312-x86_64-linux-gnu.so", ".c", ".cpp"):
                src = f"/repo/src/gstools/{f}{ext}"
                if os.path.exists(src):
                    shutil.copy(src, f"{wt}/src/gstools/{d}/")
        if os.path.exists("/repo/src/gstools/_version.py"):
            shutil.copy("/repo/src/gstools/_version.py", f"{wt}/src/gstools/")
        patch = os.path.join(a.outdir, "patch.diff")
        demo = os.path.join(a.outdir, "demo.py")
        env = dict(os.environ, PYTHONPATH=f"{wt}/src", PYTHONHASHSEED="0")
        # demo on the unchanged tree
        if not a.recheck:
            rc0, o0, e0 = sh(["/venv/bin/python", "-W", "ignore", demo], cwd=wt, env=env)
            meta["demo_without_change_rc"] = rc0
            meta["ran"].append("demo.py on unchanged worktree -> rc %d" % rc0)
        rc, out, err = sh(f"git apply {patch}", cwd=wt)
        if rc:
            print("patch does not apply:", err)
            meta["error"] = "patch does not apply: " + err[-300:]
            return 2
        # a change of a compiled kernel comes with the edited generated source and the rebuilt extension (both untracked in git)
        for fn, sub in (("estimator.cpp", "variogram"), ("estimator.cpython-312-x86_64-linux-gnu.so", "variogram"),
                        ("summator.c", "field"), ("summator.cpython-312-x86_64-linux-gnu.so", "field"),
                        ("krigesum.c", "krige"), ("krigesum.cpython-312-x86_64-linux-gnu.so", "krige")):
            extra = os.path.join(a.outdir, fn)
            if os.path.exists(extra):
                shutil.copy(extra, f"{wt}/src/gstools/{sub}/{fn}")
                meta.setdefault("extra_files", []).append(fn)
        if a.recheck:
            return recheck(a, wt)
        rc, out, err = sh(["/venv/bin/python", "-m", "pytest", "-q", "-p", "no:cacheprovider", "--timeout=900", "-n", "8", "tests"], cwd=wt, env=env)
        tail = (out.strip().splitlines() or ["?"])[-1]
        meta["suite_with_change"] = tail
        meta["ran"].append("pytest tests (with change) -> " + tail)
        rc1, o1, e1 = sh(["/venv/bin/python", "-W", "ignore", demo], cwd=wt, env=env)
        meta["demo_with_change_rc"] = rc1
        meta["ran"].append("demo.py with change -> rc %d: %s" % (rc1, (e1.strip().splitlines() or o1.strip().splitlines() or [""])[-1][:200]))
        ok = rc0 == 0 and rc1 != 0 and " failed" not in tail and "error" not in tail.lower() and "passed" in tail
        meta["confirmed"] = bool(ok)
        meta["checks"] = {}
        run_checks(a, wt, meta)
        dst = os.path.join(VERIF, "seeded", a.seed_id)
        os.makedirs(dst, exist_ok=True)
        for fn in ("patch.diff", "demo.py", "notes.md", "estimator.cpp", "estimator.cpython-312-x86_64-linux-gnu.so", "estimator_cpp.diff"):
            p = os.path.join(a.outdir, fn)
            if os.path.exists(p):
                shutil.copy(p, dst)
        old = {}
        mp = os.path.join(dst, "meta.json")
        if os.path.exists(mp):
            old = json.load(open(mp))
            for k, v in old.get("checks", {}).items():
                meta["checks"].setdefault(k, v)
        json.dump(meta, open(mp, "w"), indent=1)
        print("confirmed" if ok else "NOT CONFIRMED", meta.get("suite_with_change"), "demo rc without/with:", rc0, rc1)
        return 0
    finally:
        sh(f"git -C /repo worktree remove --force {wt}")
        shutil.rmtree(wt, ignore_errors=True)


if __name__ == "__main__":
    sys.exit(main())

#!/bin/bash
# quick tier of every property at the given VERIF_SEED values; prints only runs that are not clean
cd "$(dirname "$0")/.."
for s in "$@"; do
  for i in $(seq -w 1 20); do
    out=$(VERIF_SEED=$s ./check C$i --no-evidence 2>&1); rc=$?
    echo "seed=$s C$i rc=$rc $(echo "$out" | tail -1)"
    if [ $rc -ne 0 ]; then echo "$out" | grep -v "^KNOWN-FINDING" | grep "^  \[\|^VIOLATION\|HARNESS" | cut -c1-400 | head -8; fi
  done
done

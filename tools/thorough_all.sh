#!/bin/bash
# run the thorough tier of the given properties one after another (each uses all cores); summary lines at the end
cd "$(dirname "$0")/.."
for p in "$@"; do
  ./check "$p" --tier thorough --no-evidence > "thorough_$p.log" 2>&1
  echo "rc=$? $(tail -1 thorough_$p.log)"
  grep -h "^VIOLATION\|^HARNESS-ERROR\|^  \[" "thorough_$p.log" | cut -c1-400 | head -20
done

#!/usr/bin/env python3
"""Regenerate MANIFEST.json from the table below and the props/ modules present."""

import json
import os
import sys

HERE = os.path.dirname(os.path.abspath(__file__))
VERIF = os.path.dirname(HERE)

SETUP = (
    "/venv/bin/pip install --no-index --find-links /opt/veriftools/wheels hypothesis "
    ">/dev/null 2>&1; /venv/bin/python -c 'import hypothesis, numpy, scipy, mpmath, gstools'"
)

BASELINE = (
    "cd /repo && /venv/bin/python -m pytest -ra -q -p no:cacheprovider --timeout=900 "
    "--continue-on-collection-errors"
)

# property -> (technique, level text, level note, design ref)
TABLE = {}


# sub-checks and generator regions added after the seeded-change rounds (DESIGN.md 6.5), appended to the level text
ADDED = {
    "C01": "element volumes with the default upscaling; incompressible fields with nugget and mean velocities 0.25 ... 3; ensembles on stored positions after an in-place re-orientation / rescale; the unit of length over 24 decades; Fourier generators whose period is assigned after construction; sampling by numerical inversion of the shipped radial cdf (3-D) and the cdf against closed forms; the quantile function at every probability the uniform generator can produce (ppf_law); lat-lon (+time) fields against their generator at hand-computed positions; variable units over 20 decades; wave-vector law in internal dimension 4 and 5.",
    "C02": "out-of-range construction through var= and var_raw= must be refused; rescale drawn on both sides of 1 together with non-default optional arguments; exponential-integral orders next to integers (magnitude-bounded known window); shape parameters assigned on already evaluated models.",
    "C03": "the reported integral scale prescribed again after a length change; hole-effect percentiles with rescale far from one; closed forms also for spatio-temporal / lat-lon models of the same dimension; integral scale re-read after in-place shape-parameter changes and in units of 1e-9 ... 1e9; Matern orders next to half-integers; per-axis scales / anis / angles assigned on evaluated models before the spatial variants are compared again.",
    "C04": "refused dimension changes before the spectral functions are used; lat-lon models in the radial sub-check; radial pdf and mass in internal dimension 4 / 5 (radial_high_dim); a second model with its own Hankel settings present in the process; integer / list / scalar wave numbers (all classes incl. JBessel); densities after in-place rescale vs a fresh model; tiny relative cut-off scales.",
    "C05": "requests of ~1e5 pairs far from the origin; the unit of length over 19 decades; plain simple kriging in units of 1e-16 ... 1e6 incl. per-point measurement errors; repeated measurements at one location; estimate-only calls before / after a re-assigned mean with and without the refresh; calls on the targets kept from the previous call after anis / angles changes; chunked structured meshes.",
    "C06": "stored targets after re-orientation; structured grids with Fortran-ordered external drift; one conditioning location per call; estimate-only calls around a new mean at the conditioning points; re-conditioning on translated points; variable units 1e-20 ... 1e8; one call for > 1e5 condition-target pairs in map-like coordinates.",
    "C07": "kriging with drift functions and an external drift together (regional_ext); conditioning arrays overwritten by the caller afterwards; structured grids kriged in chunks; mesh-type switches on the same coordinate arrays, direct calls of the kriging object, results stored under other names, store=False and partial store lists, single-axis moves of the targets.",
    "C08": "coordinate trend with a mean function; structured grids with a repeated coordinate; integer rasters with a sentinel; lat-lon default bins in several geographic units; directions through the angles keyword, tolerances beyond a right angle up to infinity, no_data with a constant mean, estimator names in any letter case.",
    "C09": "class-form normalizers after a fitted run; grid-shaped Fortran-ordered point lists; values exactly on the normalizer's domain end; Fortran-ordered / transposed structured masks; fitted normalizers with missing values; the caller's masked array / field objects kept and estimated on twice (with and without the no_data marker).",
    "C10": "integer-typed bin centres (int_bins); documented default start of the optimisation; rescale factors 0.05 ... 25; input arrays as transposed views, Fortran order and read-only; directional fits of temporal models; Matern start orders on half-integers.",
    "C11": "period arrays re-used by the caller; model dimension assigned in place; reference generators from directly constructed models; meshio meshes with 1-4 cell blocks; the isclose window of known finding K7 is evaluated by the check itself, not by the library's ==; calls without positions; edits through the user's own reference to the model object handed over last; dimensions 4-5 (high_dim).",
    "C12": "metric space-time models; objects evaluated, re-oriented in place and evaluated again on their stored positions; length-scale lists assigned to used models; ratios / angles as arrays the caller re-uses; Fourier generator pipelines (pipe_fourier).",
    "C13": "per-axis length scales on used space-time models; a second fit on the same arrays; a second request on one object for points inside the allclose window; kriging objects whose model is exchanged / changed in place; r2 of lat-lon fits recomputed in the great-circle geometry; structured lat-lon default bins; dim setter on temporal models; exact kriging at data locations written with other longitude labels.",
    "C14": "fixed values handed to fit_variogram in any keyword order (fit_fixed); constructor keywords vs setters (ctor sub-check); list parameters also as float arrays overwritten by the caller; isometrize and integral scale compared after every step / at the end; one set_arg_bounds call for var and another argument in either keyword order; lower cut-offs of 1e-8 ... 1e-10.",
    "C15": "dispatching wrappers with vanishing / cancelling right-hand-side columns; SRF requests above 2^26 point-mode pairs; estimate-only vs estimate-and-variance kriging path around a new mean; obtuse / reversed direction pairs; wrapper amplitudes over 120 decades; tolerances / bandwidths / lattice points and sparse masked axis data handed unchanged to the kernels; directional counts vs the enumeration for tolerances up to infinity; kriging requests of ~1e7 right-hand-side entries vs a direct solve.",
    "C16": "vector fields made isotropic in place (anis, equal length list) on stored / passed positions; one request per stencil offset far from the origin; settings handed through set_generator; vector fields stored on meshio points / cell blocks (mesh_vectors); requests up to 140000 points; SRFs reused after in-place dim / len_scale / mode_no changes.",
    "C17": "internal dimension 4; calls on stored positions when a request repeats; period arrays re-used by the caller; length units of 1e-6.",
    "C18": "error budget of the limit formula inside the lmbda switch, lmbda down to 1e-300; trend assigned through the property; identity applied as processed transformation to scalar and vector fields; shift-only fits of BoxCoxShift; anisotropic rotated models in the pipeline sub-check; per-object default normalizer instances; SRF variance upscaling with point volumes.",
    "C19": "target intervals in small units / narrow far from zero; a single given moment (mean or variance); process=False with keep_mean=False as a fourth processing mode; the source field stays unchanged; for thresholds='equal' field values on either side of every documented class boundary.",
    "C20": "masked conditioning values of kriging; lat-lon lags beyond half the circumference in the fitting entry; model parameter arrays (constructor / setters), unsorted ndarray class values and thresholds, out-of-domain normalizer data, CondSRF store variants with and without nugget, the public get_scaling helper.",
}


def entry(pid, technique, text, note, ref):
    if pid in ADDED:
        text = text.rstrip() + " Added after seeded changes (DESIGN.md 6.5): " + ADDED[pid]
    TABLE[pid] = (technique, text, note, ref)


entry(
    "C12",
    "Hypothesis property-based testing against an independent rotation/stretch oracle + metamorphic pipeline relations",
    "Generated search (dims 1-4, angle/ratio vectors incl. padding forms, point sets, all model classes in SRF / Krige / "
    "CondSRF / vector-field pipelines) against explicit rotation matrices written from the documented convention and "
    "against the isotropic model evaluated at independently transformed positions (kriging objects also reached by re-orienting the model in place + "
    "documented refresh); one-datum kriging extracts the covariance "
    "a pipeline really uses. Evidence of absence of violations on the explored cases only.",
    "Trusted: numpy/scipy linear algebra, the documented convention R=Rx(roll)Ry(pitch)Rz(yaw) as pinned by tests/test_srf.py.",
    "DESIGN.md section 2, C12",
)

entry(
    "C14",
    "Hypothesis model-based history testing: generated setter sequences applied to the real CovModel and to a pure-Python reference model",
    "Generated operation sequences (all setters incl. dim, integral_scale, set_arg_bounds, hankel_kw; scalar/list, in/on/out of bounds; "
    "plain/temporal/lat-lon/lat-lon+temporal; 17 classes) are executed on the real model and on a reference model of the documented "
    "semantics; every public attribute is compared after each step, rejected assignments must leave the model untouched, and the final "
    "model must equal a directly constructed one (==, variogram, spectral density); constructor keywords must give the model the same values assigned by "
    "setters give, with the requested values as final values. Exploration of bounded histories, not a proof.",
    "Trusted: the reference model encodes the documented rules (docstrings of CovModel, set_len_anis, set_anis, set_angles, "
    "set_model_angles); scipy quad as integral-scale oracle where its own error estimate is small.",
    "DESIGN.md section 2, C14",
)

entry(
    "C20",
    "Hypothesis property-based testing with bitwise before/after snapshots over a registry of public entry points and generated store/transform histories",
    "Every registered public entry point (vario_estimate in 5 modes, vario_estimate_axis, standard_bins, Krige ctor/call/set_condition, "
    "SRF, CondSRF, Field.__call__, fit_variogram, 6 normalizers x 7 methods, apply/remove mean-norm-trend, 11 array transforms, 3 generators, "
    "geometry helpers, CovModel constructor / setters with parameter arrays) is called with aliasing-prone arrays (float64, C / Fortran / read-only, already of the internal shape) under generated "
    "option sets; caller arrays, earlier returned arrays and stored fields that are not the named target must be bitwise unchanged. "
    "Exploration over the registry and option space; entry points outside the registry are not covered.",
    "Trusted: the registry lists the public array-taking entry points; numpy tobytes comparison.",
    "DESIGN.md section 2, C20",
)

entry(
    "C11",
    "Hypothesis property-based and history testing against freshly constructed generators (metamorphic) and twin runs with distinct seed objects",
    "Generated inputs (3 generators x 8 model classes x dim 1-3 x seeds up to 2^32 x evaluation variants: permutation, subset, batches, "
    "structured vs list, meshio points/centroids, store names) are compared point by point with fresh single-point evaluations; generated "
    "histories of calls, in-place parameter changes/restorations, moved request points (tiny moves, large-coordinate offsets), setter and update() calls are followed by a comparison with a freshly built "
    "SRF and by a consistency check of the generator's arrays; the same history with equal seeds as distinct objects must give identical "
    "output incl. nugget noise. Exploration of bounded histories.",
    "Trusted: a fresh SRF with copied model, same generator kwargs and seed defines the expected value; changes inside numpy.isclose's "
    "window are excluded (known finding K7, probed on every run).",
    "DESIGN.md section 2, C11",
)

entry(
    "C08",
    "Hypothesis property-based testing against a pure-Python brute-force pair enumeration (same IEEE operation order as the kernel)",
    "Generated point clouds (dyadic lattices with exact ties on bin edges / band limits, float clouds, duplicates, lat-lon incl. poles and "
    "wrap-arounds), 1-4 fields with missing values (as NaN, stacked masked array, list of masked arrays, no_data marker), bin edges, both estimators, 0-3 directions (separated / overlapping), tolerances, bandwidths and masked "
    "grids are fed to the compiled estimators directly and to vario_estimate / vario_estimate_axis; counts must equal the enumeration exactly, "
    "values to 1e-11. Float ties within 1e-12 of a threshold are discarded and counted.",
    "Trusted: libm sqrt/sin/cos/atan2/acos identical between CPython's math module and the kernel; the documented formulas as encoded in oracles/variogram.py.",
    "DESIGN.md section 2, C08",
)
entry(
    "C09",
    "Hypothesis metamorphic testing: relations between two or three runs of vario_estimate / vario_estimate_axis on transformed inputs",
    "Eleven generated relation families (permutation, rigid motion incl. reflections and sphere rotations, field shift/scale, four encodings of "
    "missing data, structured vs point list, seeded sampling vs explicit subset, angles vs direction vectors, direction scaling, geo_scale unit "
    "conversion and standard_bins, preprocessing inside vs beforehand, multi-field pooling, axis estimator symmetries); counts exact, values 1e-12.",
    "Trusted: the relation itself is the oracle; numpy QR for orthogonal matrices; the preprocessing oracle written from the documented formula.",
    "DESIGN.md section 2, C09",
)
entry(
    "C13",
    "Hypothesis property-based testing against independent spherical geometry (atan2 great circle on unit vectors) and metamorphic sphere rotations",
    "Generated lat-lon(-time) point sets incl. poles, date line, wrap-arounds and antipodes, four kinds of geo_scale, all classes valid in 3(+1)-D: "
    "coordinate conversion and round trips, model structure, the covariance actually used by Krige (distance matrices, one-datum extraction), SRF / "
    "CondSRF vs plain 3-D model at oracle sphere points, estimator pair counts vs brute force on oracle great-circle distances, standard_bins rule, "
    "Yadrenko fitting recovery for every unit, rotation invariance of kriging.",
    "Trusted: oracles/geometry.py; radial covariance functions themselves (C03); libm accuracy of a few ulp.",
    "DESIGN.md section 2, C13",
)
entry(
    "C18",
    "Hypothesis property-based testing against mpmath closed forms, Richardson differences, an independent profile likelihood and pipeline identities",
    "Six normalizers x lmbda of both signs incl. the special values and their isclose windows x data over the valid range incl. ends, NaN, inf, "
    "out-of-range, all container shapes: round trips both ways with the output range derived from the documented formula, strict monotonicity, "
    "derivative, log-likelihoods, fit optimality (grid + golden section, scipy.stats cross-check), and trend + denormalize(mean + raw) for Field / SRF "
    "/ Krige / CondSRF and the two tool functions (scalar/vector, structured/unstructured, stacked).",
    "Trusted: mpmath at 30 digits; scipy.stats normmax as a second opinion; rounding-error budgets derived from the formulas (K = 8 ulp units).",
    "DESIGN.md section 2, C18",
)
entry(
    "C19",
    "Hypothesis property-based testing against deterministic quantile push-forward oracles (mpmath) plus seeded z-tests on real SRF ensembles",
    "All array transforms and the Field.transform / gstools.transform wrappers: push-forward of the normal law on quantile grids and extreme z, "
    "closed-form moments of the targets (default bounds preserve mean/variance), Zinn-Harvey formula / evenness / monotonicity / preserved law, exact "
    "forced moments, Box-Cox inversion and cut-off warning, discrete/binary class boundaries with inputs planted on thresholds (list, tuple, ndarray), "
    "wrapper == own pre/post-processing around the array function for process / keep_mean / store variants; |z| <= 7 tests with confirmation runs on ensembles.",
    "Trusted: mpmath normal cdf/quantile and target ppfs (self-tested at import); statistical sub-check gives evidence proportional to its sample size.",
    "DESIGN.md section 2, C19",
)

entry(
    "C07",
    "Hypothesis property-based and history testing against a direct kriging solve + independent unconditional field, and against freshly built objects",
    "Generated configurations (5 kriging variants x 8 classes x dim 1-3 x anisotropy/rotation x mean/trend/normalizer x layouts x seeds x meshes) are "
    "compared with krige_est + sqrt(krige_var/var)*raw(seed) where the kriging part comes from solving the kriging system directly and raw from an "
    "independent SRF; data honouring and the far-field limit are asserted. Generated call histories (new seeds, set_pos, set_condition with new values / "
    "positions, in-place model change + documented refresh, re-assignment of model/mean/trend/normalizer, in-place edits of the caller's position "
    "array, results stored under other names, direct calls of the kriging object) must after every generation equal a freshly built Krige+CondSRF; with a "
    "nugget the coefficients of the smooth field and of the nugget noise are solved per target over the seeds (a^2 var + b^2 nugget = kriging variance, a = b = 1 "
    "in the far field). Exploration of bounded histories.",
    "Trusted: model.covariance (C03), oracles/geometry.py, numpy.linalg; nugget-free models for the formula; shifts inside numpy.allclose's window are "
    "a known finding (K8) probed on every run.",
    "DESIGN.md section 2, C07",
)

entry(
    "C05",
    "Hypothesis property-based testing against a direct assembly and solve of the kriging system, plus metamorphic relations on the real object",
    "Generated kriging problems (6 variants incl. base Krige with unbiased x drift combinations, all 17 classes, dim 1-3 / lat-lon / space-time, "
    "anisotropy/rotation, NaN data, mean/trend/normalizer, exact, nugget, scalar / per-point measurement error, pinv/pinvh/inv, chunks, meshes, only_mean) "
    "are compared with estimate z'A^-1 b and variance sill - b'A^-1 b from an independently assembled system with independent geometry; get_mean vs the "
    "generalised least squares mean; linearity, reproduction of constants and drift functions, invariance under chunk size / mesh type (incl. structured meshes "
    "evaluated chunk by chunk) / permutations; call histories on one object (in-place model changes + refresh, new values / positions, variogram fits).",
    "Trusted: model.covariance (C03), oracles/geometry.py, numpy.linalg; systems with cond(A) > 1e10 are discarded and counted.",
    "DESIGN.md section 2, C05",
)
entry(
    "C06",
    "Hypothesis property-based testing: interpolation at the data, variance bounds, and coincident points vs an independently solved merged system",
    "The C05 problem space restricted to zero measurement error is evaluated at its own conditioning locations (values reproduced through the "
    "mean/trend/normalizer round trip, variance 0, tolerance scaled by the condition number of the independent system); for arbitrary targets and all "
    "error settings the variance is finite, >= 0 and <= sill for simple kriging; 2-4 coincident points with different values under the pseudo-inverse "
    "must equal the direct solve with the duplicates merged into their mean.",
    "Trusted: as C05; cov_nugget's documented isclose window defines 'at a datum'.",
    "DESIGN.md section 2, C06",
)

entry(
    "C15",
    "Hypothesis differential testing of five implementations: installed .so, serial and OpenMP rebuilds of the generated C, interpreted .pyx, numpy references",
    "For generated shapes (0/1/2/3/7/16/64 and, for thread tests, up to 1000 x 300), magnitudes (normal/huge/tiny/mixed, +-0, NaN in fields), layouts "
    "(C/Fortran/strided/read-only) and integer lattices with pairs exactly on bin edges, every kernel entry point must give bit-identical results for the "
    "installed artefact, a serial rebuild and an OpenMP rebuild with num_threads in {None,1,2,3,4,8,16} (repeated), agree within 4 ulp with a plain "
    "interpretation of its .pyx (harness/pyx2py.py) and within 8e-12 sum|terms| (+ phase conditioning) with numpy references of the defining sums; public "
    "wrappers must not depend on config.NUM_THREADS and SRF output must equal the defining mode sum of the generator's own arrays for amplitudes over 120 decades.",
    "Trusted: gcc/g++ -O2 reproduces the shipped arithmetic (no FMA contraction); libm shared by CPython math and the kernels; schedules are sampled by "
    "repetition, not enumerated (a hand-made race - barrier removed / accumulator shared in the generated C - did not manifest in ~3000 runs, so rare "
    "interleavings can be missed).",
    "DESIGN.md section 2, C15",
)

entry(
    "C04",
    "Hypothesis property-based testing against the Gaussian-weighted Parseval identity, QUADPACK Fourier-weight transforms and Richardson differences",
    "All 17 classes x dim 1-3 x length scale, rescale and shape parameters: for 12 window widths a the integral of S(k) exp(-a k^2) over k must equal "
    "(4 pi a)^(-d/2) times the integral of rho(r) exp(-r^2/4a) over r (smooth, absolutely convergent radial integrals with fixed Gauss-Legendre panels; also with "
    "spectrum / covariance for the factor var); pointwise transforms in d = 1, 3 (QUADPACK sin/cos weights) and d = 2 (between zeros of J0 with Wynn "
    "acceleration); spectral_rad_pdf = surface factor x |S| with unit mass; cdf' = pdf, cdf(ppf(u)) = u, ppf(cdf(r)) = r, monotonicity, dist_func / has_cdf / "
    "has_ppf consistency; S >= 0 for analytic classes. Accuracy budgets are stated per class (analytic 1e-9 x conditioning, numerical Hankel 5e-2 of the window mass).",
    "Trusted: model.correlation (C03), scipy QUADPACK, Gauss-Legendre / Gauss-Jacobi nodes; eight known accuracy findings are probed on every run.",
    "DESIGN.md section 2, C04",
)
entry(
    "C10",
    "Hypothesis property-based testing: noise-free variograms of the same family are fitted from near the truth; an oracle reading the documented rules decides what must hold",
    "All 17 classes x dim 1-3 (isotropic, directional via main axes, lat-lon great-circle lags with four geo_scale kinds) x selections (fitted / deselected / "
    "fixed) x sill (None / False / value) x anis x weights x init_guess modes x method/loss x custom bounds: returned dict == model state, prescribed values "
    "bit-identical, values inside open/closed bounds, |var + nugget - sill| <= 1e-12 sill, documented ValueErrors raised, cost(result) <= cost(start); recovery "
    "of curve (1e-4 sill), r2 and parameters (1e-3) is demanded only where an oracle-side identifiability analysis (Jacobian singular values, kinks, bounds) says it must hold.",
    "Trusted: scipy.optimize.curve_fit converges from a start within 30% of an identifiable truth; the oracle's own variogram evaluation (model functions, C03).",
    "DESIGN.md section 2, C10",
)
entry(
    "C17",
    "Hypothesis property-based and history testing of exact periodicity along independently computed main axes, plus a mode-table grid invariant",
    "dim 1-3, ten classes, anisotropy, rotation, scalar / short-list / full-list periods and even mode counts, off-grid points within +-3 periods: "
    "f(x) == f(x + m L_i a_i) for m in {1,-1,2,-2,5} with a_i from oracles/geometry.py; every wave number is an integer multiple of 2 pi anis_i / L_i on the full "
    "product grid {-n/2..n/2-1}; odd mode counts raise. Histories of period / mode_no setters, update() with all 39 argument combinations, in-place model "
    "changes, re-assignment and seed changes: after every op the arrays are mutually consistent and periodicity holds for the current settings.",
    "Trusted: oracles/geometry.py (C12); tolerance 1e-9 scale (1 + |k|max |x| 1e-6) with scale = max(sqrt(var), l2 norm of the amplitudes).",
    "DESIGN.md section 2, C17",
)

entry(
    "C01",
    "Hypothesis-driven statistical property testing: layered z-tests (|z| <= 7 with confirmation run) on pooled generator samples and seeded SRF ensembles against model functions",
    "Layered so that most Monte-Carlo noise disappears: iid N(0,1) amplitudes; pooled wave vectors (uniform directions, radial law vs an independently "
    "integrated cdf, characteristic-function identity mean cos(k.h) = rho(h) at generated lags, for inversion and MCMC sampling with a declared bias "
    "allowance); non-growth of the error from N to 16N modes; black-box SRF ensembles (120-6000 seeds, <= 6 points / small grids, anisotropic rotated "
    "models with nugget) vs cov_spatial + nugget with independent geometry; Fourier generator with randomness removed (documented grid and weights vs the "
    "generator's table, exact ensemble covariance vs a seeded ensemble, convergence under refinement); vector-field component covariances vs the projected "
    "spectrum; the inversion sampler's quantile function at every probability the uniform generator can return (k 2^-53, both tails) against closed-form "
    "cdfs; a quarter of the sampled models reach their dimension by assignment. Evidence is statistical and proportional to the sample sizes stated in the evidence file.",
    "Trusted: model.correlation / spectral_density (C03/C04); the field value equals the defining mode sum (C15 wrappers sub-check); z thresholds and the MCMC "
    "bias allowance 0.25 sqrt(100/N) as declared; two known sampler findings (K1 numerical-Hankel spectra in dim >= 2, K24 heavy tails) are excluded from "
    "the main search and probed on every run.",
    "DESIGN.md section 2, C01",
)
entry(
    "C16",
    "Hypothesis property-based testing: exact divergence through the kernel itself, Richardson finite differences through SRF, independent projector algebra, seeded moment z-tests",
    "For 16 classes in dim 2/3: SRF(generator='VectorField') output equals mean_u e1 + mean_u sqrt(var/N) x kernel on the generator's own arrays; the "
    "analytic divergence (mode sum with amplitudes (z2 k_i, -z1 k_i)) vanishes at 1e-12 sum|terms| + rounding floor; central differences with Richardson "
    "extrapolation through SRF (points and structured stencils; also SRFs reused after an in-place change of the model's dim / len_scale) give zero divergence at 1e-6 |grad u|; k.p(k) = 0 and own numpy mode sum; mean (u,0[,0]) and "
    "component variances u^2 var (3/8,1/8) / (8/15,1/15,1/15) over 300-600 seeds at |z| <= 7 with confirmation.",
    "Trusted: derivation of the variance fractions (in the module), numpy; classes whose spectral law is not verified (K1) are used only in the deterministic sub-checks.",
    "DESIGN.md section 2, C16",
)

entry(
    "C02",
    "Hypothesis property-based testing with two independent oracles: eigenvalues of generated covariance matrices and an own radial Fourier transform of the correlation",
    "Every (class, dim 1-4, plain / space-time / lat-lon / lat-lon-time) the library accepts without its invalid-dimension warning, optional arguments over "
    "their whole dimension-dependent bounds with the lower edges over-sampled, anisotropy / rotation: lambda_min >= -n var 1e-12 on lattices (up to 400 points "
    "per axis in 1-D, 5^4 in 4-D), clusters with near-duplicates down to the last bit, sphere point sets (Yadrenko) and space x time products; |corr| <= 1, "
    "corr(0) = 1; radial spectrum S_d(k) >= -1e-9 int r^(d-1)|rho| by composite Gauss-Legendre (exact for the seven compact classes, Gaussian-damped for the "
    "others); dimension / bounds table vs check_dim and default_opt_arg_bounds. Configurations the library itself flags (Linear 2-D, Circular 3-D, "
    "Spherical 4-D ...) serve as positive controls of search power.",
    "Trusted: numpy eigvalsh; the quadrature self-test against closed-form transforms (1e-11) run on every run; model functions as evaluated (C03).",
    "DESIGN.md section 2, C02",
)
entry(
    "C03",
    "Hypothesis property-based testing against independent mpmath (30 digit) closed forms, tanh-sinh / quadosc integral scales and a bisection first-crossing oracle",
    "17 classes + 4 user subclasses x dim 1-3 (20% lat-lon) x parameters over their bounds x lags from 0 over denormals, 1e-12..1e-6 len, a log grid to 1e3 len "
    "and values within 4 ulp of every piecewise boundary: variogram/covariance/correlation/cor identities, *_nugget / *_axis / *_spatial / *_yadrenko variants "
    "(independent rotation and chord), evenness and input types at 1e-12 sill; documented closed forms at 1e-9 (+ conditioning of the TPL superposition and "
    "near-integer exp_int orders); integral scale (get / prescribe scalar / prescribe list; a model built with integral_scale= keeps the requested var / nugget and "
    "equals the model built with the resulting len_scale) and percentile scale (residual, positivity, first crossing).",
    "Trusted: mpmath special functions; documented formulas as transcribed in oracles/closed_forms.py; four low-severity accuracy findings are excluded and probed.",
    "DESIGN.md section 2, C03",
)


def main():
    props = [json.loads(l) for l in open(os.path.join(VERIF, "properties.jsonl"))]
    checks = []
    na = []
    reasons = {}
    rfile = os.path.join(HERE, "not_applicable.json")
    if os.path.exists(rfile):
        reasons = json.load(open(rfile))
    for p in props:
        pid = p["id"]
        if pid in TABLE and os.path.exists(os.path.join(VERIF, "harness", "props", f"{pid}.py")):
            tech, text, note, ref = TABLE[pid]
            checks.append(
                {
                    "property_id": pid,
                    "quick_cmd": f"./check {pid} --tier quick",
                    "thorough_cmd": f"./check {pid} --tier thorough",
                    "evidence_file": f"evidence/{pid}.json",
                    "replay_cmd_template": f"./check {pid} --replay {{path}}",
                    "engine": "hypothesis-pbt",
                    "level_claimed": {"category": "exploration", "text": text, "design_ref": ref},
                    "level_note": note,
                    "technique": tech,
                }
            )
        else:
            na.append(
                {
                    "property_id": pid,
                    "reason": reasons.get(
                        pid,
                        "check designed (DESIGN.md section 2) but not yet built in this revision; not claimed until it runs",
                    ),
                }
            )
    man = {
        "version": 1,
        "setup_cmd": SETUP,
        "hooks": {
            "guard": "GSTOOLS_VERIF",
            "enable": "no source hooks are needed: all observables are public API or attributes named in properties.jsonl; "
            "checks import gstools from $VERIF_REPO/src (default /repo/src) via PYTHONPATH",
            "baseline_off_cmd": BASELINE,
            "source_commits": [],
            "add_only": True,
        },
        "engines": [
            {
                "name": "hypothesis-pbt",
                "path": "harness/run.py",
                "serves_properties": [c["property_id"] for c in checks],
                "kind_free_text": "Hypothesis 6.168 generated-input / generated-history search against explicit oracles; "
                "16-way sharded; shrunk failures become replay files under replays/<id>/",
            }
        ],
        "checks": checks,
        "notes": "Exit 0 = held on everything explored (KNOWN-FINDING lines for entries of known_findings.json), 1 = VIOLATION, "
        "2 = harness error. VERIF_SEED selects the Hypothesis seeds; VERIF_REPO points the checks at another source tree "
        "(used by mutants/run.py).",
        "not_applicable": na,
    }
    with open(os.path.join(VERIF, "MANIFEST.json"), "w") as f:
        json.dump(man, f, indent=1)
    print(f"{len(checks)} checks claimed, {len(na)} not claimed")


if __name__ == "__main__":
    sys.exit(main())

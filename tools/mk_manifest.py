#!/usr/bin/env python3
"""Regenerate MANIFEST.json from the table below and the props/ modules present."""

import json
import os
import sys

HERE = os.path.dirname(os.path.abspath(__file__))
VERIF = os.path.dirname(HERE)

SETUP = (
    "/venv/bin/pip install --no-index --find-links /opt/veriftools/wheels hypothesis "
    ">/dev/null 2>&1; /venv/bin/python -c 'import hypothesis, numpy, scipy, mpmath, gstools'"
)

BASELINE = (
    "cd /repo && /venv/bin/python -m pytest -ra -q -p no:cacheprovider --timeout=900 "
    "--continue-on-collection-errors"
)

# property -> (technique, level text, level note, design ref)
TABLE = {}


def entry(pid, technique, text, note, ref):
    TABLE[pid] = (technique, text, note, ref)


entry(
    "C12",
    "Hypothesis property-based testing against an independent rotation/stretch oracle + metamorphic pipeline relations",
    "Generated search (dims 1-4, angle/ratio vectors incl. padding forms, point sets, all model classes in SRF / Krige / "
    "CondSRF / vector-field pipelines) against explicit rotation matrices written from the documented convention and "
    "against the isotropic model evaluated at independently transformed positions; one-datum kriging extracts the covariance "
    "a pipeline really uses. Evidence of absence of violations on the explored cases only.",
    "Trusted: numpy/scipy linear algebra, the documented convention R=Rx(roll)Ry(pitch)Rz(yaw) as pinned by tests/test_srf.py.",
    "DESIGN.md section 2, C12",
)

entry(
    "C14",
    "Hypothesis model-based history testing: generated setter sequences applied to the real CovModel and to a pure-Python reference model",
    "Generated operation sequences (all setters incl. dim, integral_scale, set_arg_bounds, hankel_kw; scalar/list, in/on/out of bounds; "
    "plain/temporal/lat-lon/lat-lon+temporal; 17 classes) are executed on the real model and on a reference model of the documented "
    "semantics; every public attribute is compared after each step, rejected assignments must leave the model untouched, and the final "
    "model must equal a directly constructed one (==, variogram, spectral density). Exploration of bounded histories, not a proof.",
    "Trusted: the reference model encodes the documented rules (docstrings of CovModel, set_len_anis, set_anis, set_angles, "
    "set_model_angles); scipy quad as integral-scale oracle where its own error estimate is small.",
    "DESIGN.md section 2, C14",
)

entry(
    "C20",
    "Hypothesis property-based testing with bitwise before/after snapshots over a registry of public entry points and generated store/transform histories",
    "Every registered public entry point (vario_estimate in 5 modes, vario_estimate_axis, standard_bins, Krige ctor/call/set_condition, "
    "SRF, CondSRF, Field.__call__, fit_variogram, 6 normalizers x 7 methods, apply/remove mean-norm-trend, 11 array transforms, 3 generators, "
    "geometry helpers) is called with aliasing-prone arrays (float64, C / Fortran / read-only, already of the internal shape) under generated "
    "option sets; caller arrays, earlier returned arrays and stored fields that are not the named target must be bitwise unchanged. "
    "Exploration over the registry and option space; entry points outside the registry are not covered.",
    "Trusted: the registry lists the public array-taking entry points; numpy tobytes comparison.",
    "DESIGN.md section 2, C20",
)

entry(
    "C11",
    "Hypothesis property-based and history testing against freshly constructed generators (metamorphic) and twin runs with distinct seed objects",
    "Generated inputs (3 generators x 8 model classes x dim 1-3 x seeds up to 2^32 x evaluation variants: permutation, subset, batches, "
    "structured vs list, meshio points/centroids, store names) are compared point by point with fresh single-point evaluations; generated "
    "histories of calls, in-place parameter changes/restorations, setter and update() calls are followed by a comparison with a freshly built "
    "SRF and by a consistency check of the generator's arrays; the same history with equal seeds as distinct objects must give identical "
    "output incl. nugget noise. Exploration of bounded histories.",
    "Trusted: a fresh SRF with copied model, same generator kwargs and seed defines the expected value; changes inside numpy.isclose's "
    "window are excluded (known finding K7, probed on every run).",
    "DESIGN.md section 2, C11",
)


def main():
    props = [json.loads(l) for l in open(os.path.join(VERIF, "properties.jsonl"))]
    checks = []
    na = []
    reasons = {}
    rfile = os.path.join(HERE, "not_applicable.json")
    if os.path.exists(rfile):
        reasons = json.load(open(rfile))
    for p in props:
        pid = p["id"]
        if pid in TABLE and os.path.exists(os.path.join(VERIF, "harness", "props", f"{pid}.py")):
            tech, text, note, ref = TABLE[pid]
            checks.append(
                {
                    "property_id": pid,
                    "quick_cmd": f"./check {pid} --tier quick",
                    "thorough_cmd": f"./check {pid} --tier thorough",
                    "evidence_file": f"evidence/{pid}.json",
                    "replay_cmd_template": f"./check {pid} --replay {{path}}",
                    "engine": "hypothesis-pbt",
                    "level_claimed": {"category": "exploration", "text": text, "design_ref": ref},
                    "level_note": note,
                    "technique": tech,
                }
            )
        else:
            na.append(
                {
                    "property_id": pid,
                    "reason": reasons.get(
                        pid,
                        "check designed (DESIGN.md section 2) but not yet built in this revision; not claimed until it runs",
                    ),
                }
            )
    man = {
        "version": 1,
        "setup_cmd": SETUP,
        "hooks": {
            "guard": "GSTOOLS_VERIF",
            "enable": "no source hooks are needed: all observables are public API or attributes named in properties.jsonl; "
            "checks import gstools from $VERIF_REPO/src (default /repo/src) via PYTHONPATH",
            "baseline_off_cmd": BASELINE,
            "source_commits": [],
            "add_only": True,
        },
        "engines": [
            {
                "name": "hypothesis-pbt",
                "path": "harness/run.py",
                "serves_properties": [c["property_id"] for c in checks],
                "kind_free_text": "Hypothesis 6.168 generated-input / generated-history search against explicit oracles; "
                "16-way sharded; shrunk failures become replay files under replays/<id>/",
            }
        ],
        "checks": checks,
        "notes": "Exit 0 = held on everything explored (KNOWN-FINDING lines for entries of known_findings.json), 1 = VIOLATION, "
        "2 = harness error. VERIF_SEED selects the Hypothesis seeds; VERIF_REPO points the checks at another source tree "
        "(used by mutants/run.py).",
        "not_applicable": na,
    }
    with open(os.path.join(VERIF, "MANIFEST.json"), "w") as f:
        json.dump(man, f, indent=1)
    print(f"{len(checks)} checks claimed, {len(na)} not claimed")


if __name__ == "__main__":
    sys.exit(main())

"""Shared kriging configuration: strategy, library object builder and direct-solve oracle.

A configuration dict describes one kriging problem completely (JSON serialisable);
`build_krige` instantiates the gstools object, `oracle` computes estimate and
variance by assembling and solving the kriging system from scratch
(oracles/kriging.py) with independent geometry (oracles/geometry.py).
"""

import math

import numpy as np
from hypothesis import strategies as st

import common  # noqa: F401
import gens
from gens import build_model, logfloat
from oracles import geometry as geo
from oracles import kriging as okr

import gstools as gs

VARIANTS = ["simple", "ordinary", "universal", "extdrift", "detrended", "base"]
KCLASSES = [c for c in gens.CLASSES]

DRIFT_FUNCS = {
    "x": lambda *p: p[0],
    "y": lambda *p: p[1] if len(p) > 1 else p[0] ** 2,
    "xy": lambda *p: p[0] * (p[1] if len(p) > 1 else p[0]),
    "sinx": lambda *p: np.sin(p[0]),
    "last": lambda *p: p[-1],
}


def ext_drift_fn(i, pos):
    pos = np.asarray(pos, dtype=float)
    if i == 0:
        return 1.0 + 0.3 * np.sin(1.3 * pos[0]) + 0.1 * pos[-1]
    return np.cos(0.7 * pos[0]) - 0.2 * pos[-1] ** 2 / (1 + np.abs(pos[-1]))


def trend_fn(kind, dim):
    if kind == "const":
        return 0.7
    if kind == "call":
        return lambda *x: 0.4 + 0.15 * x[0] - (0.1 * x[1] if dim > 1 else 0.0)
    return None


def mean_fn(kind, val, dim):
    if kind == "const":
        return val
    if kind == "call":
        return lambda *x: val + 0.05 * x[0]
    return None


def normalizer(cfg):
    n = cfg.get("norm", "None")
    lam = cfg.get("lmbda", 0.5)
    if n == "LogNormal":
        return gs.normalizer.LogNormal()
    if n == "BoxCox":
        return gs.normalizer.BoxCox(lmbda=lam)
    if n == "YeoJohnson":
        return gs.normalizer.YeoJohnson(lmbda=lam)
    return None


def poly_drifts(dim, order):
    """Monomials up to `order` in the documented order (combinations with replacement)."""
    from itertools import combinations_with_replacement

    out = []
    for d in range(order):
        for sel in combinations_with_replacement(range(dim), d + 1):
            out.append(sel)
    return out


def drift_rows(cfg, dim, pos):
    """Functional + external drift values at positions (field coordinates)."""
    pos = np.asarray(pos, dtype=float).reshape(dim, -1)
    rows = []
    d = cfg.get("drift")
    if isinstance(d, int) and d > 0:
        for sel in poly_drifts(dim, d):
            r = np.ones(pos.shape[1])
            for i in sel:
                r = r * pos[i]
            rows.append(r)
    elif isinstance(d, list):
        for nm in d:
            rows.append(np.asarray(DRIFT_FUNCS[nm](*pos), dtype=float) * np.ones(pos.shape[1]))
    for i in range(cfg.get("n_ext", 0)):
        rows.append(ext_drift_fn(i, pos))
    return np.array(rows) if rows else None


def n_drift(cfg, dim):
    d = cfg.get("drift")
    k = 0
    if isinstance(d, int) and d > 0:
        k = len(poly_drifts(dim, d))
    elif isinstance(d, list):
        k = len(d)
    return k + cfg.get("n_ext", 0)


def is_unbiased(cfg):
    v = cfg["variant"]
    if v in ("ordinary", "universal", "extdrift"):
        return True
    if v == "base":
        return bool(cfg.get("unbiased", True))
    return False


@st.composite
def configs(draw, tier="quick", variants=VARIANTS, classes=KCLASSES, geo_kinds=("euclid", "euclid", "euclid", "latlon", "temporal"),
            allow_nugget=True, max_cond=12, zero_error_only=False):
    kind = draw(st.sampled_from(list(geo_kinds)))
    variant = draw(st.sampled_from(list(variants)))
    if kind == "latlon":
        cls = draw(st.sampled_from([c for c in classes if gens.max_valid_dim(c) >= 3]))
        g = draw(st.sampled_from([1.0, gs.DEGREE_SCALE, gs.KM_SCALE]))
        spec = {
            "cls": cls, "dim": 3, "latlon": True, "geo_scale": g,
            "var": draw(logfloat(0.2, 5.0)), "len_scale": g * draw(logfloat(0.1, 1.0)),
            "nugget": 0.0, "rescale": None, "anis": [1.0, 1.0], "angles": [0.0, 0.0, 0.0],
            "opt": draw(gens.opt_args(cls, 3, mode="accuracy")),
        }
        fdim = 2
    else:
        dims = (1, 2, 3)
        spec = draw(gens.model_specs(classes=classes, dims=dims, mode="accuracy", nugget=False,
                                     scale_range=(0.3, 4.0), var_range=(0.2, 5.0)))
        if kind == "temporal":
            # metric space-time model: last axis is time, its ratio is the last anis entry
            if gens.max_valid_dim(spec["cls"]) < spec["dim"] + 1:
                kind = "euclid"
            else:
                spec = dict(spec)
                sd = spec["dim"]
                spec["temporal"] = True
                spec["dim"] = sd + 1
                spec["anis"] = list(spec["anis"]) + [draw(logfloat(0.2, 5.0))]
                nang = (sd + 1) * sd // 2
                spec["angles"] = list(spec["angles"]) + [0.0] * (nang - len(spec["angles"]))
                spec["opt"] = draw(gens.opt_args(spec["cls"], sd + 1, mode="accuracy"))
        fdim = spec["dim"]
    if allow_nugget:
        spec["nugget"] = draw(st.one_of(st.just(0.0), st.just(0.0), logfloat(1e-3, 1.0)))
    cfg = {"variant": variant, "geo": kind}
    dimf = fdim
    if variant == "universal":
        # functionally distinct drift functions only ('last' equals 'y' in 2-D, 'xy' equals 'y' = x^2 in 1-D)
        names = ["x", "y", "sinx"] if dimf == 1 else (["x", "y", "xy", "sinx"] if dimf == 2 else ["x", "y", "xy", "sinx", "last"])
        cfg["drift"] = draw(st.one_of(st.sampled_from([1, 1, 2] if dimf < 3 else [1]), st.lists(st.sampled_from(names), min_size=1, max_size=2, unique=True)))
    elif variant == "extdrift":
        cfg["n_ext"] = draw(st.sampled_from([1, 1, 2]))
    elif variant == "base":
        cfg["unbiased"] = draw(st.booleans())
        cfg["drift"] = draw(st.sampled_from([0, 0, 1]))
        cfg["n_ext"] = draw(st.sampled_from([0, 0, 1]))
    if isinstance(cfg.get("drift"), list) and "y" in cfg["drift"] and "xy" in cfg["drift"] and dimf == 1:
        cfg["drift"] = ["x"]
    if kind == "latlon" and cfg.get("drift") == 2:
        cfg["drift"] = 1
    # mean only where the library takes one
    if variant == "simple" or (variant == "base" and not cfg.get("unbiased")):
        cfg["mean"] = draw(st.sampled_from(["const", "const", "call", "none"]))
        cfg["mean_val"] = draw(st.floats(-1.0, 2.0))
    if variant != "detrended":
        cfg["norm"] = draw(st.sampled_from(["None", "None", "None", "LogNormal", "BoxCox", "YeoJohnson"]))
        cfg["lmbda"] = draw(st.sampled_from([0.5, 0.0, 1.5, -0.5]))
        cfg["trend"] = draw(st.sampled_from(["none", "none", "const", "call"]))
    else:
        cfg["trend"] = "call"
    cfg["exact"] = draw(st.booleans()) if not zero_error_only else draw(st.booleans())
    if not cfg["exact"] and not zero_error_only:
        ce = draw(st.sampled_from(["nugget", "nugget", "scalar", "vector"]))
        cfg["cond_err"] = ce
    else:
        cfg["cond_err"] = "nugget"
    if zero_error_only and not cfg["exact"]:
        spec["nugget"] = 0.0
    cfg["pseudo_inv"] = draw(st.sampled_from([True, True, False]))
    cfg["pinv_type"] = draw(st.sampled_from(["pinv", "pinvh"]))
    # conditioning layout: separated points so that the system is well conditioned
    nd = n_drift(cfg, dimf) + int(is_unbiased(cfg))
    nmin = max(2, nd + 2)
    n = draw(st.integers(nmin, max(nmin, max_cond)))
    if kind == "latlon":
        cells = draw(st.lists(st.tuples(st.integers(0, 11), st.integers(0, 17)), min_size=n, max_size=n, unique=True))
        jit = draw(st.lists(st.tuples(st.floats(-4, 4), st.floats(-6, 6)), min_size=n, max_size=n))
        lat = [-82.5 + 15 * c[0] + j[0] for c, j in zip(cells, jit)]
        lon = [-170 + 20 * c[1] + j[1] + draw(st.sampled_from([0, 0, 360, -360])) for c, j in zip(cells, jit)]
        cond_pos = [lat, lon]
    else:
        ls = spec["len_scale"] / (spec.get("rescale") or 1.0)
        cond_pos = draw(gens.separated_points(fdim, n_min=n, n_max=n, box=2.0 * max(1.0, ls), min_sep=min(0.4 * ls, 0.8)))
    lo, hi = (1.2, 4.0) if cfg.get("norm") in ("LogNormal", "BoxCox") else (-2.0, 3.0)
    vals = draw(st.lists(st.floats(lo, hi), min_size=n, max_size=n))
    if draw(st.floats(0, 1)) < 0.15 and n > nmin and cfg.get("n_ext", 0) == 0 and cfg["cond_err"] != "vector":
        vals[draw(st.integers(0, n - 1))] = float("nan")
    case = {"spec": spec, "cfg": cfg, "cond_pos": cond_pos, "cond_val": vals}
    if cfg["cond_err"] == "scalar":
        cfg["err_val"] = draw(logfloat(1e-3, 0.5))
    elif cfg["cond_err"] == "vector":
        cfg["err_val"] = draw(st.lists(logfloat(1e-3, 0.5), min_size=n, max_size=n))
    return case


def field_dim(spec):
    if spec.get("latlon"):
        return 2 + int(bool(spec.get("temporal")))
    return spec["dim"]


def build_krige(case, cond_pos=None, cond_val=None, model=None):
    spec, cfg = case["spec"], case["cfg"]
    fdim = field_dim(spec)
    model = model if model is not None else build_model(spec)
    cond_pos = np.array(case["cond_pos"] if cond_pos is None else cond_pos, dtype=float).reshape(fdim, -1)
    cond_val = common.farr(case["cond_val"]) if cond_val is None else np.asarray(cond_val, dtype=float)
    kw = dict(
        normalizer=normalizer(cfg) if cfg["variant"] != "detrended" else None,
        trend=trend_fn(cfg.get("trend", "none"), fdim),
        exact=cfg["exact"],
        pseudo_inv=cfg["pseudo_inv"],
        pseudo_inv_type=cfg["pinv_type"],
    )
    ce = cfg.get("cond_err", "nugget")
    if ce != "nugget":
        kw["cond_err"] = cfg["err_val"]
    v = cfg["variant"]
    ext = None
    if cfg.get("n_ext", 0):
        ext = np.array([ext_drift_fn(i, cond_pos) for i in range(cfg["n_ext"])])
    d = cfg.get("drift")
    dfun = None
    if isinstance(d, int) and d > 0:
        dfun = d
    elif isinstance(d, list):
        dfun = [DRIFT_FUNCS[nm] for nm in d]
    if v == "simple":
        return gs.krige.Simple(model, cond_pos, cond_val, mean=mean_fn(cfg.get("mean", "none"), cfg.get("mean_val", 0.0), fdim) or 0.0 if cfg.get("mean") != "none" else 0.0, **kw)
    if v == "ordinary":
        return gs.krige.Ordinary(model, cond_pos, cond_val, **kw)
    if v == "universal":
        return gs.krige.Universal(model, cond_pos, cond_val, dfun, **kw)
    if v == "extdrift":
        return gs.krige.ExtDrift(model, cond_pos, cond_val, ext, **kw)
    if v == "detrended":
        kw.pop("normalizer")
        tr = kw.pop("trend")
        return gs.krige.Detrended(model, cond_pos, cond_val, tr, **{k: kw[k] for k in ("exact", "pseudo_inv", "pseudo_inv_type")}, **({"cond_err": kw["cond_err"]} if "cond_err" in kw else {}))
    mean = None
    if not cfg.get("unbiased", True) and cfg.get("mean", "none") != "none":
        mean = mean_fn(cfg["mean"], cfg.get("mean_val", 0.0), fdim)
    return gs.Krige(model, cond_pos, cond_val, drift_functions=dfun, ext_drift=ext, mean=mean, unbiased=cfg.get("unbiased", True), **kw)


def target_kwargs(cfg, pos):
    if cfg.get("n_ext", 0):
        pos = np.asarray(pos, dtype=float)
        return {"ext_drift": np.array([ext_drift_fn(i, pos) for i in range(cfg["n_ext"])])}
    return {}


def iso(spec, pos):
    """Independent isotropic coordinates for Euclidean, temporal and lat-lon(-time) models."""
    pos = np.asarray(pos, dtype=float)
    if spec.get("latlon"):
        g = spec.get("geo_scale", 1.0)
        u = geo.latlon_to_unit(pos[0], pos[1]) * g
        if spec.get("temporal"):
            return np.vstack([u, pos[2:3] / spec["anis"][-1]])
        return u
    return geo.isometrize(spec["dim"], spec.get("angles", [0.0]), spec.get("anis", [1.0]), pos)


def prepared(case, cond_pos, cond_val):
    """(z, mask, mean at cond, trend at cond): detrended, normalised, mean-free data."""
    spec, cfg = case["spec"], case["cfg"]
    fdim = field_dim(spec)
    mask = np.isfinite(cond_val)
    cp = cond_pos[:, mask]
    tr = trend_fn(cfg.get("trend", "none"), fdim)
    trc = tr(*cp) if callable(tr) else (tr or 0.0)
    z = cond_val[mask] - trc
    nm = normalizer(cfg) if cfg["variant"] != "detrended" else None
    if nm is not None:
        with common.quiet():
            z = nm.normalize(z)
    mu = 0.0
    if cfg.get("mean", "none") != "none" and not is_unbiased(cfg):
        m = mean_fn(cfg["mean"], cfg.get("mean_val", 0.0), fdim)
        mu = m(*cp) if callable(m) else m
    return z - mu, mask


def oracle(case, pos, model, only_mean=False, cond_pos=None, cond_val=None):
    """Direct solve. Returns dict(field, var, cond, est_raw)."""
    spec, cfg = case["spec"], case["cfg"]
    fdim = field_dim(spec)
    cond_pos = np.array(case["cond_pos"] if cond_pos is None else cond_pos, dtype=float).reshape(fdim, -1)
    cond_val = common.farr(case["cond_val"]) if cond_val is None else np.asarray(cond_val, dtype=float)
    pos = np.asarray(pos, dtype=float).reshape(fdim, -1)
    z, mask = prepared(case, cond_pos, cond_val)
    cp = cond_pos[:, mask]
    ce = cfg.get("cond_err", "nugget")
    if ce == "nugget":
        err = spec["nugget"]
    elif ce == "scalar":
        err = cfg["err_val"]
    else:
        err = np.asarray(cfg["err_val"], dtype=float)[mask]
    dc = drift_rows(cfg, fdim, cp)
    dt = drift_rows(cfg, fdim, pos)
    cov = model.covariance if not only_mean else (lambda r: np.zeros_like(np.asarray(r, dtype=float)))
    sill = spec["var"] + spec["nugget"]
    if only_mean:
        # right hand side without covariances: kriging the mean
        est, _v, cnd, _ = okr.krige(model.covariance, sill, spec["var"], iso(spec, cp), iso(spec, pos), z, err=err,
                                    unbiased=is_unbiased(cfg), drift_cond=dc, drift_tgt=dt, exact=False)
        est = _mean_only(model, spec, cfg, cp, pos, z, err, dc, dt)
        var = None
    else:
        est, var, cnd, rawv = okr.krige(model.covariance, sill, spec["var"], iso(spec, cp), iso(spec, pos), z, err=err,
                                        unbiased=is_unbiased(cfg), drift_cond=dc, drift_tgt=dt, exact=cfg["exact"],
                                        zero_tol=1e-8 * min(1.0, float(spec["len_scale"]) / float(spec.get("rescale") or getattr(model, "rescale", 1.0))))
    tr = trend_fn(cfg.get("trend", "none"), fdim)
    trt = tr(*pos) if callable(tr) else (tr or 0.0)
    mu = 0.0
    if cfg.get("mean", "none") != "none" and not is_unbiased(cfg):
        m = mean_fn(cfg["mean"], cfg.get("mean_val", 0.0), fdim)
        mu = m(*pos) if callable(m) else m
    out = est + mu
    nm = normalizer(cfg) if cfg["variant"] != "detrended" else None
    if nm is not None:
        with common.quiet():
            out = nm.denormalize(out)
    return {"field": out + trt, "var": var, "cond": cnd, "est": est, "n_used": int(mask.sum())}


def _mean_only(model, spec, cfg, cp, pos, z, err, dc, dt):
    n = cp.shape[1]
    m = pos.shape[1]
    C = np.asarray(model.covariance(okr.pairwise(iso(spec, cp), iso(spec, cp))), dtype=float)
    C = C + np.diag(np.broadcast_to(np.asarray(err, dtype=float), (n,)))
    rows, rows_t = [], []
    if is_unbiased(cfg):
        rows.append(np.ones(n))
        rows_t.append(np.ones(m))
    if dc is not None:
        for a, b in zip(dc, dt):
            rows.append(a)
            rows_t.append(b)
    k = len(rows)
    A = np.zeros((n + k, n + k))
    A[:n, :n] = C
    B = np.zeros((n + k, m))
    for i, (a, b) in enumerate(zip(rows, rows_t)):
        A[n + i, :n] = a
        A[:n, n + i] = a
        B[n + i] = b
    X, _ = okr.solve_system(A, B)
    return np.concatenate([z, np.zeros(k)]) @ X


def zero_lag_ambiguous(case, pos):
    """A target within (0.5e-8, 2e-8) of a datum: cov_nugget's documented isclose window edge."""
    spec = case["spec"]
    fdim = field_dim(spec)
    cp = np.array(case["cond_pos"], dtype=float).reshape(fdim, -1)
    d = okr.pairwise(iso(spec, cp), iso(spec, np.asarray(pos, dtype=float).reshape(fdim, -1)))
    # the zero-lag window is 1e-8 * min(1, correlation length) (repo fixes 63aabb8 / follow-up); the edge of the former absolute window
    # counts as ambiguous as well
    w = 1e-8 * min(1.0, float(spec["len_scale"]) / float(spec.get("rescale") or 1.0))
    return bool(np.any((d > 0.5e-8) & (d < 2e-8)) or np.any((d > 0.3 * w) & (d < 3.0 * w)))


def has_functional_drift(cfg):
    d = cfg.get("drift")
    return (isinstance(d, int) and d > 0) or isinstance(d, list)


def lon_wrapped(pos):
    lon = np.asarray(pos, dtype=float)[1]
    return bool(np.any((lon <= -180.0) | (lon > 180.0)))


def spec_from_model(spec, m):
    """Spec describing the model as it is now (after in-place changes or a variogram fit)."""
    s2 = dict(spec)
    s2["var"] = float(m.var)
    s2["len_scale"] = float(m.len_scale)
    s2["nugget"] = float(m.nugget)
    s2["anis"] = [float(a) for a in m.anis]
    s2["angles"] = [float(a) for a in m.angles]
    s2["rescale"] = float(m.rescale)
    s2["opt"] = {k: float(getattr(m, k)) for k in m.opt_arg}
    return s2


def tol(case, cnd, scale):
    return max(1e-8, 50 * np.finfo(float).eps * cnd) * scale

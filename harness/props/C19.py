"""C19 - Field transformations produce their documented target distributions."""

import math
import warnings

import mpmath
import numpy as np
from hypothesis import strategies as st
from scipy.special import ndtr, ndtri

import common
from common import HarnessError, Sub, Violation, lib, require
import gens
from gens import logfloat

import gstools as gs
from gstools import transform as tf
from gstools.field.base import Field

ID = "C19"
LEVEL = "exploration"
RULE = (
    "Hypothesis draws (transformation, input mean/variance, explicit or sample moments, default/explicit/one-sided "
    "bounds, values and thresholds as list/tuple/ndarray/'arithmetic'/'equal', inputs = midpoint quantile grid of N(mean,var) "
    "plus drawn extreme z values and values planted exactly on / one ulp around thresholds). Wrapper cases draw "
    "(transformation + keywords, mesh type, constant and position-dependent mean, trend, Normalizer/LogNormal, store name, "
    "source field name, method alias) and are each executed with process off / process+keep_mean / process without keep_mean "
    "through rotating entry points (Field.transform, transform.apply, transform.<fn>). Sampled cases draw an SRF model (class, "
    "var, nugget, len_scale, mean, trend, process mode, seeds) and apply every transformation to each of 160/320 seeded "
    "realisations. Oracles: mpmath push-forward ppf(Phi((x-mean)/sd)), Gauss quadrature of the moments, mpmath Zinn-Harvey "
    "formula, exact sample moments, threshold-counting class model, own pre/post-processing, z-tests (|z|<=7 + confirmation) "
    "of bounded statistics. Non-trivial: (mean,var) != (0,1) or non-default bounds/values for array transforms, >=3 classes "
    "for discrete, explicit divide/upper/lower or process with non-zero mean for binary, non-zero mean under process / named "
    "store / explicit keywords for wrappers, non-unit law or nugget for sampled cases; distinct by hash of the rounded case."
)
ASSUMPTIONS = [
    "mpmath ncdf/erfinv/exp/sin/cbrt at 30 digits are exact for the purpose; scipy.special.ndtri/ndtr only build inputs and the KS statistic",
    "the quantile transform is the increasing one (T = ppf_target o Phi_{mean,var})",
    "documented defaults: sample mean / population variance (np.mean, np.var) when mean/var are None; uniform on [0,1]",
    "RandMeth fields have an exactly normal N(mean, sill) marginal over seeds at a fixed point (z1 cos + z2 sin with iid normal z)",
]

# Exclusions for confirmed findings (see final report).  Set a switch to False
# to turn the exclusion into a (soft) violation again.
KNOWN = {
    # array_discrete / transform.discrete: ndarray thresholds with >= 2 entries
    # raise ValueError (ndarray == "arithmetic" under numpy 2)
    # (fixed in /repo by cfb8beb: switch off, the assertion is live)
    "F10_ndarray_thresholds": False,
    # array_boxcox: for lmbda < 0 the "values will be cut off" warning is
    # raised exactly when nothing is cut and not raised when values are cut
    # (fixed in /repo by 850198e: switch off, the assertion is live)
    "boxcox_warn_neg_lmbda": False,
}

EPS = float(np.finfo(float).eps)
DPS = 30


def mpf(x):
    return mpmath.mpf(float(x))


# ---------------------------------------------------------------------------
# oracle: target laws (written from the Wikipedia definitions the docs link to)


def ppf_uniform(u, lo, hi):
    return lo + (hi - lo) * u


def ppf_arcsin(u, a, b):
    # cdf F(x) = 2/pi asin(sqrt((x-a)/(b-a)))
    return a + (b - a) * mpmath.sin(mpmath.pi * u / 2) ** 2


def cdf_arcsin(x, a, b):
    return 2 / mpmath.pi * mpmath.asin(mpmath.sqrt((x - a) / (b - a)))


def cdf_uquad(x, a, b):
    al = 12 / (b - a) ** 3
    be = (a + b) / 2
    return al / 3 * ((x - be) ** 3 + (be - a) ** 3)


def ppf_uquad(u, a, b):
    # solve al/3 ((x-be)^3 + (be-a)^3) = u  ->  x = be + (b-a)/2 cbrt(2u-1)
    c = 2 * u - 1
    return (a + b) / 2 + (b - a) / 2 * mpmath.sign(c) * mpmath.cbrt(abs(c))


def target_moments(kind, lo, hi, mean=None, var=None):
    """Closed-form mean and variance of the target law (floats)."""
    if kind == "uniform":
        return (lo + hi) / 2, (hi - lo) ** 2 / 12
    if kind == "arcsin":
        return (lo + hi) / 2, (hi - lo) ** 2 / 8
    if kind == "uquad":
        return (lo + hi) / 2, 3 * (hi - lo) ** 2 / 20
    if kind == "lognormal":
        return math.exp(mean + var / 2), math.expm1(var) * math.exp(2 * mean + var)
    raise HarnessError(kind)


def default_halfwidth(kind, var):
    """Half width h such that the target on [mean-h, mean+h] has variance var."""
    if kind == "arcsin":  # (2h)^2/8 = var
        return mpmath.sqrt(8 * var) / 2
    if kind == "uquad":  # 3 (2h)^2 / 20 = var
        return mpmath.sqrt(20 * var / 3) / 2
    raise HarnessError(kind)


def _oracle_selftest():
    with mpmath.workdps(DPS):
        a, b = mpmath.mpf("-1.3"), mpmath.mpf("2.9")
        for u in ("0.01", "0.3", "0.5", "0.77", "0.999"):
            u = mpmath.mpf(u)
            if abs(cdf_arcsin(ppf_arcsin(u, a, b), a, b) - u) > 1e-20:
                raise HarnessError("arcsine oracle inconsistent")
            if abs(cdf_uquad(ppf_uquad(u, a, b), a, b) - u) > 1e-20:
                raise HarnessError("u-quadratic oracle inconsistent")
        for kind, ppf in (("arcsin", ppf_arcsin), ("uquad", ppf_uquad), ("uniform", ppf_uniform)):
            m1 = mpmath.quad(lambda u: ppf(u, a, b), [0, 0.5, 1])
            m2 = mpmath.quad(lambda u: (ppf(u, a, b) - m1) ** 2, [0, 0.5, 1])
            tm, tv = target_moments(kind, float(a), float(b))
            if abs(m1 - tm) > 1e-9 or abs(m2 - tv) > 1e-9:
                raise HarnessError(f"closed-form moments of {kind} wrong")
            if kind != "uniform":
                h = default_halfwidth(kind, tv)
                if abs(2 * h - (b - a)) > 1e-12:
                    raise HarnessError(f"default half width of {kind} wrong")


_oracle_selftest()


def sample_moments(x):
    """Exact sample mean and population variance (mpmath) of float data."""
    xs = [mpf(t) for t in np.ravel(x)]
    n = len(xs)
    m = mpmath.fsum(xs) / n
    v = mpmath.fsum([(t - m) ** 2 for t in xs]) / n
    return m, v


# ---------------------------------------------------------------------------
# shared strategies


def _pick(options):
    """Near-uniform choice among configurations.

    Hypothesis' own sampled_from left whole (transformation, process) cells empty in
    600 examples (it re-uses earlier choices); scrambling a wide integer draw
    spreads the examples over all cells.  Still a pure function of the draw.
    """
    opts = list(options)
    return st.integers(0, 2**31 - 1).map(lambda u: opts[((u * 2654435761) >> 11) % len(opts)])


Z_SPECIAL = [0.0, 1e-8, -1e-8, 1.0, -1.0, 3.0, -3.0, 6.0, -6.0, 8.3, -8.3]


def _zx(max_size=8, lim=8.5):
    return st.lists(
        st.one_of(st.floats(-lim, lim), st.floats(-3, 3), st.sampled_from([z for z in Z_SPECIAL if abs(z) <= lim])),
        min_size=0,
        max_size=max_size,
    )


def _mean_var(wide=True):
    if wide:
        mean = st.one_of(st.just(0.0), st.floats(-100, 100), st.sampled_from([1.0, -3.5, 100.0, 1000.0]))
        var = st.one_of(st.just(1.0), logfloat(2.5e-3, 1e4), st.sampled_from([1e-6, 1e-9]))
    else:
        mean = st.one_of(st.just(0.0), st.floats(-20, 20))
        var = st.one_of(st.just(1.0), logfloat(1e-4, 25.0))
    return mean, var


@st.composite
def _bounds(draw, kind, mean, var):
    """Return (mode, lo, hi) with None for 'use the default'."""
    sd = math.sqrt(var)
    mode = draw(st.sampled_from(["default", "both", "both", "lo_only", "hi_only", "both_narrow"]))
    if mode == "default":
        return mode, None, None
    if mode == "both_narrow":
        # target intervals in small units, or narrow ones far from zero (width << |bounds|)
        lo_, hi_ = draw(st.sampled_from([(2e-12, 9e-11), (-3e-13, 4e-13), (101325.0, 101325.5), (-7.0e6, -7.0e6 + 20.0), (1e-9, 1.5e-9)]))
        return "both", float(lo_), float(hi_)
    if mode == "both":
        c = draw(st.one_of(st.floats(-100, 100), st.just(0.0)))
        w = draw(logfloat(1e-3, 1e3))
        return mode, float(c - w / 2), float(c + w / 2)
    if kind == "uniform":  # other bound keeps the documented default 0 / 1
        if mode == "lo_only":
            return mode, float(1.0 - draw(logfloat(1e-3, 1e2))), None
        return mode, None, float(draw(logfloat(1e-3, 1e2)))
    k = draw(st.floats(0.5, 5.0))
    if mode == "lo_only":
        return mode, float(mean - k * sd), None
    return mode, None, float(mean + k * sd)


def _grid_inputs(case):
    """mean + sd * Phi^-1(q) on the midpoint grid plus the drawn extra z."""
    nq = case["nq"]
    q = (np.arange(nq) + 0.5) / nq
    z = np.concatenate([ndtri(q), np.array(case["zx"], dtype=float)])
    x = case["mean"] + math.sqrt(case["var"]) * z
    if case.get("shape2d") and x.size % 2 == 0:
        x = x.reshape(2, -1)
    return x


PUSH_FN = {
    "lognormal": "array_to_lognormal",
    "uniform": "array_to_uniform",
    "arcsin": "array_to_arcsin",
    "uquad": "array_to_uquad",
}


def _bound_kw(kind, lo, hi):
    names = ("low", "high") if kind == "uniform" else ("a", "b")
    kw = {}
    if lo is not None:
        kw[names[0]] = lo
    if hi is not None:
        kw[names[1]] = hi
    return kw


# ---------------------------------------------------------------------------
# 1. push-forward on a quantile grid


@st.composite
def gen_push(draw, tier="quick"):
    kind = draw(st.sampled_from(["lognormal", "uniform", "arcsin", "uquad", "arcsin", "uquad"]))
    ms, vs = _mean_var(wide=kind != "lognormal")
    mean, var = float(draw(ms)), float(draw(vs))
    case = {"kind": kind, "mean": mean, "var": var}
    if kind == "lognormal":
        case["moments"] = "na"
        case["bmode"], case["lo"], case["hi"] = "na", None, None
    else:
        # each moment is documented on its own: given, or calculated from the data when left out
        case["moments"] = draw(st.sampled_from(["explicit", "explicit", "sample", "mean_only", "var_only"]))
        case["bmode"], case["lo"], case["hi"] = draw(_bounds(kind, mean, var))
    case["nq"] = draw(st.integers(4, 40))
    case["zx"] = draw(_zx())
    case["shape2d"] = draw(st.booleans())
    return case


def _push_nontrivial(case):
    return bool((case["mean"], case["var"]) != (0.0, 1.0) or case["bmode"] not in ("default", "na"))


def check_push(case, rec):
    kind = case["kind"]
    tags = {"transform": kind, "kind": "pushforward", "moments": case["moments"], "bounds": case["bmode"]}
    rec.label(f"push:{kind}", f"push:moments={case['moments']}", f"push:bounds={case['bmode']}")
    rec.nontrivial(_push_nontrivial(case))
    x = _grid_inputs(case)
    kw = {}
    if case["moments"] == "explicit":
        kw.update(mean=case["mean"], var=case["var"])
    elif case["moments"] == "mean_only":
        kw.update(mean=case["mean"])
    elif case["moments"] == "var_only":
        kw.update(var=case["var"])
    kw.update(_bound_kw(kind, case["lo"], case["hi"]))
    out = lib(getattr(tf, PUSH_FN[kind]), x.copy(), _tags=tags, **kw)
    out = np.asarray(out)
    require(out.shape == x.shape, f"{kind}: output shape {out.shape} != input shape {x.shape}", tags)
    xf, of = x.ravel(), out.ravel().astype(float)
    with mpmath.workdps(DPS):
        if kind == "lognormal":
            for xi, oi in zip(xf, of):
                want = mpmath.exp(mpf(xi))
                tol = 4 * EPS * float(want)
                err = float(abs(mpf(oi) - want))
                rec.discrepancy("lognormal", err, tol)
                require(err <= tol, f"lognormal: exp({xi!r}) -> {oi!r}, want {float(want)!r}", tags)
            return
        if case["moments"] == "explicit":
            m, v = mpf(case["mean"]), mpf(case["var"])
            cond = 0.0
        else:
            m, v = sample_moments(xf)
            if v == 0:
                rec.exclude("constant_sample")
                return
            # np.mean / np.var carry rounding ~ eps * max|x|, seen relative to sd
            cond = float(np.max(np.abs(xf))) / float(mpmath.sqrt(v))
            if case["moments"] == "mean_only":
                m = mpf(case["mean"])
            elif case["moments"] == "var_only":
                v = mpf(case["var"])
                cond = float(np.max(np.abs(xf))) / float(mpmath.sqrt(v))
        s = mpmath.sqrt(v)
        if kind == "uniform":
            lo = mpf(0.0 if case["lo"] is None else case["lo"])
            hi = mpf(1.0 if case["hi"] is None else case["hi"])
        else:
            h = default_halfwidth(kind, v)
            lo = m - h if case["lo"] is None else mpf(case["lo"])
            hi = m + h if case["hi"] is None else mpf(case["hi"])
        if not lo < hi and case["moments"] != "explicit":
            # a one-sided bound drawn around the nominal moments, the other one derived from the sample moments: can come out reversed
            rec.exclude("bounds_not_ordered_for_sample_moments")
            return
        require(lo < hi, "generator: bounds not ordered", tags)
        width = float(hi - lo)
        scale = abs(float(lo)) + abs(float(hi)) + width
        # rounding level: |delta u| <= 8 eps (erf, scaling), amplified by the
        # Lipschitz constant of the ppf (<= pi/2 * width), plus rounding of the
        # bounds/affine map; sample moments add eps * max|x|/sd.
        base_tol = 32 * EPS * (1 + cond) * scale * (math.pi / 2)
        ppf = {"uniform": ppf_uniform, "arcsin": ppf_arcsin, "uquad": ppf_uquad}[kind]
        for xi, oi in zip(xf, of):
            u = mpmath.ncdf((mpf(xi) - m) / s)
            want = ppf(u, lo, hi)
            tol = base_tol
            if kind == "uquad":
                # cube root: y = (b-a)^3 (2u-1)/8 carries |dy| <= 1e-15 (1+cond) width^3;
                # |cbrt(y+dy)-cbrt(y)| <= min(dy / (3 |y|^(2/3)), 2^(2/3) dy^(1/3))
                y = abs(float((hi - lo) ** 3 * (2 * u - 1) / 8))
                dy = 1e-15 * (1 + cond) * width**3
                hold = 2 ** (2 / 3) * dy ** (1 / 3)
                lin = dy / (3 * y ** (2 / 3)) if y > 0 else math.inf
                tol = base_tol + min(lin, hold)
            err = float(abs(mpf(oi) - want))
            rec.discrepancy(kind, err, tol)
            require(
                err <= tol,
                f"{kind}: T({xi!r}) = {oi!r}, documented quantile map gives {float(want)!r} "
                f"(u={float(u):.6g}, [{float(lo):.6g},{float(hi):.6g}], err {err:.3g} > tol {tol:.3g})",
                tags,
            )


# ---------------------------------------------------------------------------
# 2. moments of the pushed-forward law by quadrature

_GL_S, _GL_W = np.polynomial.legendre.leggauss(48)
_GH_Z, _GH_W = np.polynomial.hermite_e.hermegauss(80)


@st.composite
def gen_moments(draw, tier="quick"):
    kind = draw(st.sampled_from(["lognormal", "uniform", "arcsin", "uquad", "arcsin", "uquad"]))
    if kind == "lognormal":
        mean = float(draw(st.one_of(st.just(0.0), st.floats(-5, 5))))
        var = float(draw(st.one_of(st.just(1.0), logfloat(1e-3, 4.0))))
        return {"kind": kind, "mean": mean, "var": var, "bmode": "na", "lo": None, "hi": None}
    ms, vs = _mean_var()
    mean, var = float(draw(ms)), float(draw(vs))
    bmode, lo, hi = draw(_bounds(kind, mean, var))
    return {"kind": kind, "mean": mean, "var": var, "bmode": bmode, "lo": lo, "hi": hi}


def check_moments(case, rec):
    kind, mean, var = case["kind"], case["mean"], case["var"]
    sd = math.sqrt(var)
    tags = {"transform": kind, "kind": "moments", "bounds": case["bmode"]}
    rec.label(f"mom:{kind}", f"mom:bounds={case['bmode']}")
    rec.nontrivial(_push_nontrivial(case))
    fn = getattr(tf, PUSH_FN[kind])
    if kind == "lognormal":
        # Gauss-Hermite (80 nodes, exact to degree 159; sd <= 2 -> truncation < 1e-40)
        x = mean + sd * _GH_Z
        w = _GH_W / math.sqrt(2 * math.pi)
        out = np.asarray(lib(fn, x, _tags=tags), dtype=float)
        tm, tv = target_moments(kind, None, None, mean, var)
        e1 = float(np.sum(w * out))
        e2 = float(np.sum(w * (out - tm) ** 2))
        tol1 = 1e-11 * tm
        tol2 = (1e-10 + 1e-13 / math.expm1(var)) * tv
    else:
        # E g(T(X)) = int_0^1 g(T(x_q)) dq with q = 1/2 + s^3/2 (removes the cube
        # root of the U-quadratic ppf; Gauss-Legendre in s, 48 nodes)
        q = 0.5 + _GL_S**3 / 2
        w = _GL_W * 1.5 * _GL_S**2
        x = mean + sd * ndtri(q)
        kw = dict(mean=mean, var=var, **_bound_kw(kind, case["lo"], case["hi"]))
        out = np.asarray(lib(fn, x, _tags=tags, **kw), dtype=float)
        if kind == "uniform":
            lo = 0.0 if case["lo"] is None else case["lo"]
            hi = 1.0 if case["hi"] is None else case["hi"]
        else:
            h = float(default_halfwidth(kind, var))
            lo = mean - h if case["lo"] is None else case["lo"]
            hi = mean + h if case["hi"] is None else case["hi"]
        tm, tv = target_moments(kind, lo, hi)
        if case["bmode"] == "default" and kind != "uniform":
            # documented: default bounds keep mean and variance
            tm, tv = mean, var
        e1 = float(np.sum(w * out))
        e2 = float(np.sum(w * (out - tm) ** 2))
        cond = abs(mean) / sd  # rounding of x_q relative to sd
        # quadrature exact to ~1e-12 relative to the width; outputs and the weight sum
        # (= 1 up to 48 eps) carry rounding relative to max(|lo|, |hi|)
        mag = abs(lo) + abs(hi)
        tol1 = 1e-10 * (hi - lo) * (1 + cond) + 1e-13 * mag
        tol2 = 1e-10 * (hi - lo) ** 2 * (1 + cond) + 1e-13 * mag * (hi - lo)
    rec.discrepancy("mean", abs(e1 - tm), tol1)
    rec.discrepancy("var", abs(e2 - tv), tol2)
    require(
        abs(e1 - tm) <= tol1,
        f"{kind}: mean of the transformed N({mean},{var}) law is {e1!r}, documented {tm!r} (bounds {case['bmode']})",
        dict(tags, moment="mean"),
    )
    require(
        abs(e2 - tv) <= tol2,
        f"{kind}: variance of the transformed N({mean},{var}) law is {e2!r}, documented {tv!r} (bounds {case['bmode']})",
        dict(tags, moment="var"),
    )


# ---------------------------------------------------------------------------
# 3. Zinn-Harvey


def _zh_oracle(absz):
    """w = Phi^-1(2 Phi(|z|) - 1) in mpmath (|z| given as mpf)."""
    p = mpmath.erf(absz / mpmath.sqrt(2))  # = 2 Phi(|z|) - 1
    return mpmath.sqrt(2) * mpmath.erfinv(2 * p - 1)


@st.composite
def gen_zh(draw, tier="quick"):
    ms, vs = _mean_var()
    case = {
        "conn": draw(st.sampled_from(["high", "low"])),
        "conn_default": draw(st.sampled_from([False, False, True])),
        "mean": float(draw(ms)),
        "var": float(draw(vs)),
        "moments": draw(st.sampled_from(["explicit", "explicit", "sample"])),
        "nq": draw(st.integers(4, 24)),
        "zx": draw(_zx(max_size=6, lim=7.0)),
        "shape2d": draw(st.booleans()),
        # exactly representable mean and offsets for the evenness check
        "ev_mean": draw(st.integers(-6400, 6400)) / 64.0,
        "ev_var": float(draw(logfloat(1e-2, 1e2))),
        "ev_d": [k / 1024.0 for k in draw(st.lists(st.integers(1, 8192), min_size=1, max_size=6))],
        "ks_n": 2 * draw(st.integers(100, 1000)),
    }
    if case["conn_default"]:
        case["conn"] = "high"  # documented default
    return case


def check_zh(case, rec):
    conn, mean, var = case["conn"], case["mean"], case["var"]
    sd = math.sqrt(var)
    sign = -1.0 if conn == "high" else 1.0
    tags = {"transform": "zinnharvey", "conn": conn, "moments": case["moments"]}
    rec.label(f"zh:{conn}", f"zh:moments={case['moments']}")
    rec.nontrivial((mean, var) != (0.0, 1.0))
    ckw = {} if case["conn_default"] else {"conn": conn}
    x = _grid_inputs(case)
    kw = dict(ckw)
    if case["moments"] == "explicit":
        kw.update(mean=mean, var=var)
    out = np.asarray(lib(tf.array_zinnharvey, x.copy(), _tags=dict(tags, kind="formula"), **kw))
    require(out.shape == x.shape, "zinnharvey: shape changed", tags)
    xf, of = x.ravel(), out.ravel().astype(float)
    rows = []
    with mpmath.workdps(DPS):
        if case["moments"] == "explicit":
            m, v, cond = mpf(mean), mpf(var), 0.0
        else:
            m, v = sample_moments(xf)
            cond = float(np.max(np.abs(xf))) / float(mpmath.sqrt(v))
        s = mpmath.sqrt(v)
        for xi, oi in zip(xf, of):
            az = abs((mpf(xi) - m) / s)
            w = _zh_oracle(az)
            want = m + sign * s * w
            if mpmath.isinf(w) and case["moments"] == "sample":
                # x equals the exact sample mean; np.mean may differ by an ulp, which
                # moves the value off the singularity: a float tie, not comparable
                rec.label("zh:illconditioned_point_skipped")
                continue
            if mpmath.isinf(w):
                require(oi == float(want), f"zinnharvey: T({xi!r}) = {oi!r}, want {float(want)}", dict(tags, kind="formula"))
                continue
            wf = float(w)
            # u = 2 erf(|z|/sqrt2) - 1 is formed in doubles with |du| <= 4 eps (more with
            # sample moments); Phi^-1 amplifies by 1/phi(w).  Rounding-level elsewhere.
            phi = math.exp(-0.5 * wf * wf) / math.sqrt(2 * math.pi)
            tol = float(s) * ((1e-13 + 8 * EPS * cond) * (1 + abs(wf)) + 4 * EPS * (1 + cond) / phi) + 4 * EPS * abs(float(m))
            if tol > 1e-3 * float(s):
                rec.label("zh:illconditioned_point_skipped")
                continue
            err = float(abs(mpf(oi) - want)) if math.isfinite(oi) else math.inf
            rec.discrepancy("zh_formula", err, tol)
            require(
                err <= tol,
                f"zinnharvey({conn}): T({xi!r}) = {oi!r}, documented mean {'-' if sign < 0 else '+'} sd*Phi^-1(2Phi(|z|)-1) "
                f"= {float(want)!r} (|z|={float(az):.6g}, err {err:.3g} > tol {tol:.3g})",
                dict(tags, kind="formula"),
            )
            rows.append((float(az), oi, tol))
    # monotone in |z| (decreasing for "high": extremes become the low values)
    rows.sort()
    for (z0, o0, t0), (z1, o1, t1) in zip(rows[:-1], rows[1:]):
        d = sign * (o1 - o0)
        require(
            d >= -(t0 + t1),
            f"zinnharvey({conn}): not monotone in |z|: |z|={z0:.6g}->{o0!r}, |z|={z1:.6g}->{o1!r}",
            dict(tags, kind="monotone"),
        )
    # even in z (exact arithmetic by construction: dyadic mean and offsets)
    em, ev = case["ev_mean"], case["ev_var"]
    d = np.array(case["ev_d"], dtype=float)
    op = np.asarray(lib(tf.array_zinnharvey, em + d, mean=em, var=ev, _tags=tags, **ckw))
    om = np.asarray(lib(tf.array_zinnharvey, em - d, mean=em, var=ev, _tags=tags, **ckw))
    require(
        np.array_equal(op, om),
        f"zinnharvey({conn}): T(mean+d) != T(mean-d) for mean={em}, d={d.tolist()}: {op.tolist()} vs {om.tolist()}",
        dict(tags, kind="even"),
    )
    # the N(mean, var) marginal is kept: inputs on the midpoint grid of N points; the set
    # {T <= t} is two tails, each resolved to 1/(2N) by the grid -> KS distance <= 1/N
    # (+1/N for rounding at the two boundaries, +1/N slack)
    n = case["ks_n"]
    xg = mean + sd * ndtri((np.arange(n) + 0.5) / n)
    og = np.sort(np.asarray(lib(tf.array_zinnharvey, xg, mean=mean, var=var, _tags=tags, **ckw), dtype=float))
    f_true = ndtr((og - mean) / sd)
    i = np.arange(n)
    ks = float(max(np.max(np.abs(f_true - i / n)), np.max(np.abs(f_true - (i + 1) / n))))
    rec.discrepancy("zh_ks", ks, 3.0 / n)
    require(
        ks <= 3.0 / n,
        f"zinnharvey({conn}): output law differs from N({mean},{var}): KS distance {ks:.4g} on a {n}-point quantile grid (bound {3.0 / n:.4g})",
        dict(tags, kind="law"),
    )


# ---------------------------------------------------------------------------
# 4. force moments


@st.composite
def gen_force(draw, tier="quick"):
    src = draw(st.sampled_from(["list", "normal", "normal"]))
    case = {"src": src}
    if src == "list":
        case["x"] = draw(st.lists(st.floats(-1e3, 1e3), min_size=2, max_size=40).filter(lambda v: max(v) - min(v) > 1e-3))
    else:
        case["n"] = draw(st.integers(2, 300))
        case["seed"] = draw(st.integers(0, 2**31 - 1))
        case["in_mean"] = float(draw(st.one_of(st.just(0.0), st.floats(-1e3, 1e3))))
        case["in_sd"] = float(draw(logfloat(1e-2, 1e2)))
    case["defaults"] = draw(st.sampled_from([False, False, False, True]))
    case["mean"] = 0.0 if case["defaults"] else float(draw(st.one_of(st.just(0.0), st.floats(-1e3, 1e3))))
    case["var"] = 1.0 if case["defaults"] else float(draw(st.one_of(st.just(1.0), logfloat(1e-4, 1e4))))
    case["shape2d"] = draw(st.booleans())
    return case


def check_force(case, rec):
    tags = {"transform": "force_moments", "src": case["src"]}
    if case["src"] == "list":
        x = np.array(case["x"], dtype=float)
    else:
        x = case["in_mean"] + case["in_sd"] * np.random.RandomState(case["seed"]).standard_normal(case["n"])
    if case["shape2d"] and x.size % 2 == 0:
        x = x.reshape(-1, 2)
    mean, var = case["mean"], case["var"]
    rec.label(f"force:{case['src']}", "force:defaults" if case["defaults"] else "force:explicit")
    rec.nontrivial(not case["defaults"])
    kw = {} if case["defaults"] else {"mean": mean, "var": var}
    out = np.asarray(lib(tf.array_force_moments, x.copy(), _tags=tags, **kw), dtype=float)
    require(out.shape == x.shape, "force_moments: shape changed", tags)
    with mpmath.workdps(DPS):
        mi, vi = sample_moments(x)
        mo, vo = sample_moments(out)
        si = mpmath.sqrt(vi)
        if float(si) <= 1e-9 * (1 + float(np.max(np.abs(x)))):
            rec.exclude("force:degenerate_sample")
            return
        # deviations x - mean_in carry eps*max|x| -> relative eps*max|x|/sd_in in the
        # output deviations (twice that in the variance); 1e-12 is the design budget
        # ... and the outputs are rounded relative to |mean| + sd, seen relative to sd
        cond = float(np.max(np.abs(x))) / float(si)
        sd_t = math.sqrt(var)
        cond_out = (abs(mean) + sd_t) / sd_t
        tol_m = 1e-12 * (abs(mean) + sd_t) + 8 * EPS * cond * sd_t
        tol_v = (1e-12 + 16 * EPS * (cond + cond_out)) * var
        em, ev = float(abs(mo - mean)), float(abs(vo - var))
        rec.discrepancy("force_mean", em, tol_m)
        rec.discrepancy("force_var", ev, tol_v)
        require(em <= tol_m, f"force_moments: sample mean {float(mo)!r} != requested {mean!r} (err {em:.3g} > {tol_m:.3g})", dict(tags, moment="mean"))
        require(ev <= tol_v, f"force_moments: sample variance {float(vo)!r} != requested {var!r} (err {ev:.3g} > {tol_v:.3g})", dict(tags, moment="var"))
        # the map is the increasing affine one (keeps normality and the ordering)
        zi = np.array([float((mpf(t) - mi) / si) for t in x.ravel()])
    zo = (out.ravel() - mean) / sd_t
    tol_z = 1e-12 * (1 + abs(mean) / sd_t) + 16 * EPS * cond
    ez = float(np.max(np.abs(zi - zo)))
    rec.discrepancy("force_affine", ez, tol_z)
    require(ez <= tol_z, f"force_moments: standardised output differs from standardised input by {ez:.3g} (tol {tol_z:.3g})", dict(tags, moment="affine"))


# ---------------------------------------------------------------------------
# 5. Box-Cox

BC_LAMBDAS = [1.0, 0.5, 2.0, -1.0, -0.5, 0.25, 3.0]


@st.composite
def gen_boxcox(draw, tier="quick"):
    lam = draw(
        st.one_of(
            st.just(0.0),
            st.sampled_from(BC_LAMBDAS),
            logfloat(0.02, 3.0),
            logfloat(0.02, 3.0).map(lambda v: -v),
        )
    )
    case = {
        "lmbda": float(lam),
        "shift": float(draw(st.one_of(st.just(0.0), st.floats(-3, 3)))),
        "use_defaults": draw(st.sampled_from([False, False, False, True])),
    }
    if case["use_defaults"]:
        case["lmbda"], case["shift"] = 1.0, 0.0
    n = draw(st.integers(1, 12))
    if case["lmbda"] == 0.0:
        case["y"] = draw(st.lists(st.floats(-20, 20), min_size=n, max_size=n))
        case["clip"] = []
    else:
        # bases b = lmbda*(x+shift)+1 > 0 (valid range of the normalizer), clipped ones b < 0
        case["base"] = draw(st.lists(st.one_of(logfloat(1e-3, 1e2), st.floats(0.2, 3.0)), min_size=n, max_size=n))
        case["clip"] = draw(st.lists(logfloat(1e-3, 10.0), min_size=0, max_size=2)) if draw(st.booleans()) else []
    return case


def check_boxcox(case, rec):
    lam, shift = case["lmbda"], case["shift"]
    tags = {"transform": "boxcox", "lmbda": lam, "shift": shift}
    if lam == 0.0:
        x = np.array(case["y"], dtype=float) - shift
        nvalid = x.size
    else:
        b = np.array(list(case["base"]) + [-c for c in case["clip"]], dtype=float)
        x = (b - 1.0) / lam - shift
        nvalid = len(case["base"])
    rec.label("boxcox:lmbda=0" if lam == 0 else ("boxcox:lmbda>0" if lam > 0 else "boxcox:lmbda<0"))
    rec.label("boxcox:with_clipped" if case["clip"] else "boxcox:all_valid")
    rec.nontrivial(not case["use_defaults"])
    kw = {} if case["use_defaults"] else {"lmbda": lam, "shift": shift}

    def call():
        with warnings.catch_warnings(record=True) as wl:
            warnings.simplefilter("always")
            res = tf.array_boxcox(x.copy(), **kw)
        return res, [str(w.message) for w in wl]

    out, msgs = lib(call, _what="array_boxcox", _tags=tags)
    out = np.asarray(out, dtype=float)
    require(out.shape == x.shape, "boxcox: shape changed", tags)
    announced = any("cut off" in m for m in msgs)
    with mpmath.workdps(DPS):
        bases = [mpf(lam) * (mpf(t) + mpf(shift)) + 1 for t in x] if lam != 0 else None
        clipped = [bool(bb < 0) for bb in bases] if lam != 0 else [False] * x.size
        # announcement of clipping
        if lam < 0 and KNOWN["boxcox_warn_neg_lmbda"]:
            rec.exclude("boxcox_warn_neg_lmbda")
        elif lam != 0:
            margin_ok = all(abs(float(bb)) > 1e-9 for bb in bases)
            if margin_ok and announced != any(clipped):
                msg = (
                    f"boxcox(lmbda={lam}, shift={shift}): 'values will be cut off' warning "
                    f"{'raised' if announced else 'not raised'} although {sum(clipped)} of {x.size} values are cut off"
                )
                t2 = dict(tags, kind="boxcox_warning", lmbda_sign=-1 if lam < 0 else 1)
                if lam < 0:
                    rec.soft(msg, t2)
                else:
                    raise Violation(msg, tags=t2)
        # independent value + inversion of the normalizer where nothing is clipped
        idx = [i for i in range(x.size) if not clipped[i]]
        for i in idx:
            arg = mpf(x[i]) + mpf(shift)
            if lam == 0:
                want = mpmath.exp(arg)
                rel = 4 * EPS * (1 + abs(float(arg)))
            else:
                want = bases[i] ** (1 / mpf(lam))
                # base formed in doubles: |db| <= 2 eps (|lmbda (x+s)| + 1); power amplifies by 1/(|lmbda| b)
                rel = 4 * EPS * (1 + (abs(lam * float(arg)) + 1) / (float(bases[i]) * abs(lam)))
            err = float(abs(mpf(out[i]) - want) / want)
            rec.discrepancy("boxcox_value", err, rel)
            require(err <= rel, f"boxcox(lmbda={lam}, shift={shift}): T({x[i]!r}) = {out[i]!r}, want {float(want)!r}", dict(tags, kind="value"))
    if idx:
        norm = lib(gs.normalizer.BoxCox, lmbda=lam, _tags=tags)
        back = np.asarray(lib(norm.normalize, out[idx], _tags=tags), dtype=float)
        ref = x[idx] + shift
        # y^lmbda = b (1 + lmbda*delta), delta ~ relative error of y  ->  |err| <= eps (|b|/|lmbda| + |b| + ...)
        if lam == 0:
            tolv = 16 * EPS * (1 + np.abs(ref))
        else:
            tolv = 16 * EPS * (1 + np.abs(lam * ref)) * (1 + 1 / abs(lam)) + 16 * EPS * (np.abs(lam * ref) + 1) / abs(lam)
        errv = np.abs(back - ref)
        k = int(np.argmax(errv / tolv))
        rec.discrepancy("boxcox_roundtrip", float(errv[k]), float(tolv[k]))
        require(
            bool(np.all(errv <= tolv)),
            f"BoxCox(lmbda={lam}).normalize(array_boxcox(x, {lam}, {shift})) != x + shift at x={x[idx][k]!r}: got {back[k]!r}, want {ref[k]!r}",
            dict(tags, kind="roundtrip"),
        )
    if lam > 0:
        for i in range(nvalid, x.size):
            require(out[i] == 0.0, f"boxcox: cut-off value {x[i]!r} -> {out[i]!r}, expected 0", dict(tags, kind="clip"))


# ---------------------------------------------------------------------------
# 6. discrete (array level)


@st.composite
def _distinct(draw, n, lo=-50.0, hi=50.0, sorted_=False):
    """n floats with pairwise gaps >= 1e-2 (constructed, not filtered)."""
    start = draw(st.one_of(st.floats(lo, hi), st.integers(-5, 5).map(float)))
    gaps = draw(st.lists(st.one_of(logfloat(1e-2, 10.0), st.sampled_from([1.0, 0.5])), min_size=n - 1, max_size=n - 1))
    vals = [float(start)]
    for g in gaps:
        vals.append(float(vals[-1] + g))
    if not sorted_:
        vals = list(draw(st.permutations(vals)))
    return vals


def _pts(n_thr):
    """Inputs in 'threshold coordinates': exact hits (with ulp nudges) and in-between positions."""
    on = st.tuples(st.just("on"), st.integers(0, n_thr - 1), st.sampled_from([-1, 0, 0, 1]))
    between = st.tuples(st.just("at"), st.floats(-1.5, n_thr + 0.5), st.just(0))
    return st.lists(st.one_of(on, between).map(list), min_size=1, max_size=20)


@st.composite
def gen_discrete(draw, tier="quick"):
    mode = draw(st.sampled_from(["arithmetic", "equal", "explicit", "explicit"]))
    n = draw(st.sampled_from([2, 3, 3, 4, 5, 6]))
    case = {
        "mode": mode,
        "values": draw(_distinct(n)),
        "values_as": draw(st.sampled_from(["list", "ndarray"])),
        "mode_default": False,
        "shape2d": draw(st.booleans()),
    }
    if mode == "arithmetic":
        case["mode_default"] = draw(st.booleans())  # rely on the documented default
        case["pts"] = draw(_pts(n - 1))
    elif mode == "explicit":
        case["thr"] = draw(_distinct(n - 1, sorted_=True))
        case["thr_as"] = draw(st.sampled_from(["list", "ndarray", "ndarray", "tuple"]))
        case["pts"] = draw(_pts(n - 1))
    else:
        ms, vs = _mean_var()
        case["mean"], case["var"] = float(draw(ms)), float(draw(vs))
        case["moments"] = draw(st.sampled_from(["explicit", "explicit", "sample"]))
        case["nq"] = n * draw(st.integers(2, 12))
        case["zx"] = draw(_zx(max_size=5))
    return case


def _count_class(t, thr):
    """Documented right-closed classes: x <= t0 | t_{i} < x <= t_{i+1} | x > t_last."""
    c = 0
    for th in thr:
        if th < t:
            c += 1
    return c


def _discrete_inputs(case, thr):
    xs = []
    span = (thr[-1] - thr[0]) if len(thr) > 1 else 1.0
    for kind, pos, nudge in case["pts"]:
        if kind == "on":
            t = thr[int(pos)]
            if nudge:
                t = float(np.nextafter(t, math.inf if nudge > 0 else -math.inf))
            xs.append(t)
        else:
            k = math.floor(pos)
            f = pos - k
            if k < 0:
                xs.append(thr[0] - (1 - f + (-1 - k)) * span - 1e-3)
            elif k >= len(thr) - 1:
                xs.append(thr[-1] + (f + (k - len(thr) + 1)) * span + 1e-3)
            else:
                xs.append(thr[k] + f * (thr[k + 1] - thr[k]))
    return np.array(xs, dtype=float)


def _as(container, kind):
    if kind == "ndarray":
        return np.array(container, dtype=float)
    if kind == "tuple":
        return tuple(container)
    return list(container)


def _f10(rec, exc_violation, tags):
    """ndarray thresholds of size >= 2 raise (finding F10)."""
    t2 = dict(tags, kind="ndarray_thresholds_raise", thresholds_type="ndarray")
    msg = f"explicit ndarray thresholds (documented form) rejected: {exc_violation.msg}"
    if KNOWN["F10_ndarray_thresholds"]:
        rec.exclude("F10_ndarray_thresholds")
    else:
        rec.soft(msg, t2)


def check_discrete(case, rec):
    mode = case["mode"]
    values = [float(v) for v in case["values"]]
    n = len(values)
    tags = {"transform": "discrete", "mode": mode, "n": n}
    rec.label(f"disc:{mode}", f"disc:n={n}")
    rec.nontrivial(n >= 3)
    vals_in = _as(values, case["values_as"])
    kw = {}
    ties = None
    if mode == "arithmetic":
        sv = sorted(values)
        thr = [(sv[i] + sv[i + 1]) / 2 for i in range(n - 1)]
        eff = sv  # documented: values are sorted for "arithmetic"
        if not case["mode_default"]:
            kw["thresholds"] = "arithmetic"
        x = _discrete_inputs(case, thr)
    elif mode == "explicit":
        thr = [float(t) for t in case["thr"]]
        eff = values
        kw["thresholds"] = _as(thr, case["thr_as"])
        tags["thresholds_type"] = case["thr_as"]
        rec.label(f"disc:thr_as={case['thr_as']}")
        x = _discrete_inputs(case, thr)
    else:
        x = _grid_inputs(case).ravel()
        kw["thresholds"] = "equal"
        rec.label(f"disc:equal_moments={case['moments']}")
        if case["moments"] == "explicit":
            kw.update(mean=case["mean"], var=case["var"])
            m, s = case["mean"], math.sqrt(case["var"])
        else:
            with mpmath.workdps(DPS):
                mm, vv = sample_moments(x)
                m, s = float(mm), float(mpmath.sqrt(vv))
        thr = [m + s * float(ndtri(k / n)) for k in range(1, n)]
        eff = values
        # thresholds are computed (erfinv vs ndtri, sample moments): values closer than
        # 1e-9 relative to a threshold are float ties of a discontinuous map
        ties = np.array([min(abs(t - th) for th in thr) <= 1e-9 * (abs(m) + s + abs(t)) for t in x])
    if case["shape2d"] and x.size % 2 == 0:
        x = x.reshape(2, -1)
    try:
        out = lib(tf.array_discrete, x.copy(), vals_in, _tags=tags, **kw)
    except Violation as v:
        if mode == "explicit" and case["thr_as"] == "ndarray" and v.tags.get("exc") == "ValueError" and "truth value" in v.msg:
            _f10(rec, v, tags)
            return
        raise
    out = np.asarray(out, dtype=float)
    require(out.shape == x.shape, "discrete: shape changed", tags)
    xf, of = x.ravel(), out.ravel()
    vset = set(values)
    nt = 0
    for i, (xi, oi) in enumerate(zip(xf, of)):
        if ties is not None and ties[i]:
            nt += 1
            continue
        require(oi in vset, f"discrete({mode}): output {oi!r} for input {xi!r} is not one of the given values {values}", dict(tags, kind="valueset"))
        want = eff[_count_class(xi, thr)]
        on_thr = xi in thr
        require(
            oi == want,
            f"discrete({mode}): input {xi!r}{' (exactly on a threshold)' if on_thr else ''} -> {oi!r}, documented class value {want!r} "
            f"(thresholds {thr}, values {eff})",
            dict(tags, kind="on_threshold" if on_thr else "class"),
        )
        if on_thr:
            rec.label("disc:input_on_threshold")
    if nt:
        rec.exclude("disc:float_tie_with_computed_threshold")
    if mode == "equal" and case["moments"] == "explicit":
        # equal-probability classes: the grid point with quantile q lies in class floor(q n)
        nq = case["nq"]
        q = (np.arange(nq) + 0.5) / nq  # nq is a multiple of n: no q on a class boundary
        cls = np.floor(q * n).astype(int)
        got = of[:nq]
        for j in range(nq):
            require(
                got[j] == values[cls[j]],
                f"discrete(equal): quantile {q[j]:.6g} of N({case['mean']},{case['var']}) mapped to {got[j]!r}, "
                f"equal-probability classes give values[{cls[j]}] = {values[cls[j]]!r}",
                dict(tags, kind="equal_prob"),
            )
        counts = [int(np.sum(got == v)) for v in values]
        require(len(set(counts)) == 1, f"discrete(equal): class counts on the quantile grid {counts} are not equal", dict(tags, kind="equal_prob"))


# ---------------------------------------------------------------------------
# 7. binary (wrapper only; exact dyadic arithmetic so that ties are real ties)


def _dy(lo=-640, hi=640, den=64.0):
    return st.integers(lo, hi).map(lambda k: k / den)


@st.composite
def gen_binary(draw, tier="quick"):
    proc = draw(st.sampled_from(["off", "off", "keep", "nokeep"]))
    case = {
        "proc": proc,
        "var": float(draw(st.one_of(st.just(1.0), logfloat(1e-2, 1e2)))),
        "nugget": float(draw(st.one_of(st.just(0.0), logfloat(1e-2, 1e1)))),
        "mean": draw(st.one_of(st.just(0.0), _dy())),
        "trend": draw(st.one_of(st.none(), _dy())) if proc != "off" else None,
        "divide": draw(st.one_of(st.none(), _dy())),
        "upper": draw(st.one_of(st.none(), st.floats(-100, 100))),
        "lower": draw(st.one_of(st.none(), st.floats(-100, 100))),
        # offsets from the dividing value (multiples of 2^-20: exact), 0 = on the threshold
        "offs": draw(
            st.lists(
                st.one_of(st.sampled_from([0, 0, 1, -1]), st.integers(-(2**24), 2**24)),
                min_size=1,
                max_size=16,
            )
        ),
        "ulp": draw(st.lists(st.sampled_from([-1, 1]), min_size=0, max_size=3)) if proc == "off" else [],
        "entry": draw(st.sampled_from(["method", "apply", "func"])),
    }
    return case


def check_binary(case, rec):
    proc = case["proc"]
    process, keep_mean = proc != "off", proc != "nokeep"
    mean, trend = case["mean"], case["trend"]
    sill = case["var"] + case["nugget"]
    tags = {"transform": "binary", "proc": proc, "nugget": case["nugget"] > 0}
    rec.label(f"bin:proc={proc}", "bin:nugget" if case["nugget"] > 0 else "bin:no_nugget")
    rec.label("bin:divide_default" if case["divide"] is None else "bin:divide_given")
    rec.label("bin:upper_default" if case["upper"] is None else "bin:upper_given")
    rec.nontrivial(case["divide"] is not None or case["upper"] is not None or case["lower"] is not None or (process and mean != 0))
    # documented defaults
    mean_arg = 0.0 if (process and not keep_mean) else mean
    divide = mean_arg if case["divide"] is None else case["divide"]
    upper = mean_arg + math.sqrt(sill) if case["upper"] is None else case["upper"]
    lower = mean_arg - math.sqrt(sill) if case["lower"] is None else case["lower"]
    # pre-processed values (exact dyadics), then the stored field
    pre = np.array([divide + o / 2.0**20 for o in case["offs"]], dtype=float)
    for u in case["ulp"]:
        pre = np.append(pre, np.nextafter(divide, math.inf if u > 0 else -math.inf))
    back_mean = mean if (process and not keep_mean) else 0.0
    back_trend = (trend or 0.0) if process else 0.0
    stored = (pre + back_mean) + back_trend
    require(bool(np.all((stored - back_trend) - back_mean == pre)), "generator: binary inputs not exact", tags)
    model = lib(gs.Gaussian, dim=1, var=case["var"], nugget=case["nugget"], _tags=tags)
    fld = Field(model, mean=mean, trend=trend)
    lib(fld, np.arange(stored.size, dtype=float), field=stored.copy(), post_process=False, _tags=tags)
    kw = {k: case[k] for k in ("divide", "upper", "lower") if case[k] is not None}
    kw.update(process=process, keep_mean=keep_mean)
    if case["entry"] == "method":
        out = lib(fld.transform, "binary", _tags=tags, **kw)
    elif case["entry"] == "apply":
        out = lib(tf.apply, fld, "binary", _tags=tags, **kw)
    else:
        out = lib(tf.binary, fld, _tags=tags, **kw)
    out = np.asarray(out, dtype=float)
    require(out.shape == stored.shape, "binary: shape changed", tags)
    want_lo = (lower + back_mean) + back_trend
    want_up = (upper + back_mean) + back_trend
    tol = 4 * EPS * (abs(lower) + abs(upper) + abs(back_mean) + abs(back_trend) + abs(mean_arg) + math.sqrt(sill))
    uniq = sorted(set(out.tolist()))
    require(len(uniq) <= 2, f"binary: more than two output values {uniq}", dict(tags, kind="valueset"))
    for p, s, o in zip(pre, stored, out):
        want = want_lo if p <= divide else want_up
        other = want_up if p <= divide else want_lo
        err = abs(o - want)
        rec.discrepancy("binary_value", err, tol)
        ok = err <= tol and (abs(o - other) > tol or abs(want - other) <= 2 * tol)
        on = p == divide
        if on:
            rec.label("bin:input_on_divide")
        require(
            ok,
            f"binary(proc={proc}): stored {s!r} (normal value {p!r}, divide {divide!r}{', exactly on it' if on else ''}) -> {o!r}, "
            f"documented {'lower' if p <= divide else 'upper'} value {want!r} (lower={lower!r}, upper={upper!r}, sill={sill!r})",
            dict(tags, kind="on_threshold" if on else "class"),
        )
    require(np.array_equal(fld["field"], out), "binary: result not stored in place under 'field'", dict(tags, kind="store"))


# ---------------------------------------------------------------------------
# 8. wrappers: Field.transform / transform.apply / transform.<fn>

WRAP_KINDS = ["lognormal", "uniform", "arcsin", "uquad", "zinnharvey", "force_moments", "boxcox", "discrete", "binary", "function"]
ALIASES = {
    "lognormal": ["normal_to_lognormal", "lognormal", "to_lognormal"],
    "uniform": ["normal_to_uniform", "uniform", "to_uniform"],
    "arcsin": ["normal_to_arcsin", "arcsin", "to_arcsin"],
    "uquad": ["normal_to_uquad", "uquad", "to_uquad"],
    "zinnharvey": ["zinnharvey"],
    "force_moments": ["normal_force_moments", "force_moments"],
    "boxcox": ["boxcox"],
    "discrete": ["discrete"],
    "binary": ["binary"],
    "function": ["apply_function", "function"],
}
WRAP_FN = {
    "lognormal": "normal_to_lognormal",
    "uniform": "normal_to_uniform",
    "arcsin": "normal_to_arcsin",
    "uquad": "normal_to_uquad",
    "zinnharvey": "zinnharvey",
    "force_moments": "normal_force_moments",
    "boxcox": "boxcox",
    "discrete": "discrete",
    "binary": "binary",
    "function": "apply_function",
}
# transformations that take the field's constant mean / need a plain normal field without process
NEEDS_MEAN = {"uniform", "arcsin", "uquad", "zinnharvey", "force_moments"}


def _affine(data, fac=1.0, off=0.0):
    return data * fac + off


@st.composite
def _tparams(draw, kind, narrow=False):
    """Keyword arguments of a transformation; positions that should sit on the
    scale of the field (dividing value, thresholds, arithmetic values) are stored
    in z units and resolved against N(mean_arg, sill) by :func:`_resolve`.

    narrow: keep outputs within about [-8, 8] so that exp(.) + trend of a
    LogNormal post-processing can be inverted accurately by the sampled check.
    """
    cmax, wmax, vmax = (3.0, 6.0, 5.0) if narrow else (10.0, 1e2, 100.0)
    if kind == "uniform":
        if draw(st.booleans()):
            return {}
        lo = draw(st.floats(-cmax, cmax))
        return {"low": float(lo), "high": float(lo + draw(logfloat(1e-2, wmax)))}
    if kind in ("arcsin", "uquad"):
        if draw(st.booleans()):
            return {}
        c = draw(st.floats(-cmax, cmax))
        w = draw(logfloat(1e-2, wmax))
        return {"a": float(c - w / 2), "b": float(c + w / 2)}
    if kind == "zinnharvey":
        return draw(st.sampled_from([{}, {"conn": "high"}, {"conn": "low"}]))
    if kind == "boxcox":
        if draw(st.booleans()):
            return {}
        return {"lmbda": draw(st.sampled_from([0.0, 0.5, 1.0, 2.0, -0.5])), "shift": float(draw(st.floats(-2, 2)))}
    if kind == "discrete":
        n = draw(st.sampled_from([2, 3, 3, 4, 5]))
        mode = draw(st.sampled_from(["arithmetic", "default", "equal", "list", "ndarray"]))
        out = {"values": draw(_distinct(n, lo=-10, hi=10)), "mode": mode}
        if mode in ("list", "ndarray"):
            out["thr_z"] = draw(_distinct(n - 1, lo=-2.0, hi=0.0, sorted_=True))
        return out
    if kind == "binary":
        out = {}
        if draw(st.booleans()):
            out["divide_z"] = float(draw(st.floats(-2, 2)))
        if draw(st.booleans()):
            out["upper"] = float(draw(st.floats(-vmax, vmax)))
        if draw(st.booleans()):
            out["lower"] = float(draw(st.floats(-vmax, vmax)))
        return out
    if kind == "function":
        return {"fac": float(draw(st.floats(-3, 3))), "off": float(draw(st.floats(-3, 3)))}
    return {}


def _resolve(kind, prm, mean_arg, sill):
    """Concrete keyword values for a field with law N(mean_arg, sill)."""
    sd = math.sqrt(sill)
    out = dict(prm)
    if kind == "binary" and "divide_z" in out:
        out["divide"] = float(mean_arg + sd * out.pop("divide_z"))
    if kind == "discrete":
        if "thr_z" in out:
            zs = out.pop("thr_z")
            out["thr"] = [float(mean_arg + sd * (z - zs[0] - 1.0) / 2) for z in zs]
        if out["mode"] in ("arithmetic", "default"):
            # put the values on the scale of the field so that several classes occur
            out["values"] = [float(mean_arg + sd * v / 5) for v in out["values"]]
    return out


def _lin(dim):
    return st.lists(st.floats(-1, 1), min_size=dim + 1, max_size=dim + 1)


@st.composite
def gen_wrapper(draw, tier="quick"):
    # every case is run with process off / keep_mean / no keep_mean (see check_wrapper):
    # separately drawn flags left whole (transformation, process) cells empty
    kind = draw(st.sampled_from(WRAP_KINDS))
    dim = draw(st.sampled_from([1, 2]))
    mesh = draw(st.sampled_from(["unstructured", "structured"])) if dim == 2 else "unstructured"
    case = {"kind": kind, "dim": dim, "mesh": mesh}
    if mesh == "structured":
        case["axes"] = [
            draw(st.lists(st.floats(-10, 10), min_size=k, max_size=k))
            for k in (draw(st.integers(2, 5)), draw(st.integers(2, 5)))
        ]
        npts = len(case["axes"][0]) * len(case["axes"][1])
    else:
        npts = draw(st.integers(3, 24))
        case["pos"] = [draw(st.lists(st.floats(-10, 10), min_size=npts, max_size=npts)) for _ in range(dim)]
    case["var"] = float(draw(st.one_of(st.just(1.0), logfloat(0.05, 4.0))))
    case["nugget"] = float(draw(st.one_of(st.just(0.0), logfloat(0.05, 2.0))))
    case["mean_c"] = float(draw(st.one_of(st.just(0.0), st.floats(-2, 2), st.sampled_from([1.0, -1.5]))))
    # position dependent mean: only valid with process=True, keep_mean=False
    case["mean_lin"] = draw(st.one_of(st.none(), _lin(dim)))
    case["normalizer"] = draw(st.sampled_from(["none", "lognormal"]))
    case["trend"] = draw(
        st.one_of(
            st.none(),
            st.floats(-2, 2).map(lambda c: {"kind": "const", "c": float(c)}),
            _lin(dim).map(lambda c: {"kind": "lin", "c": c}),
        )
    )
    case["params"] = draw(_tparams(kind))
    case["z"] = draw(st.lists(st.floats(-4, 4), min_size=npts, max_size=npts))
    if kind == "discrete" and case["params"]["mode"] == "equal":
        # boundary values: standardised field values on either side of every documented class boundary
        # (quantiles of N(mean, sill)), so that a displaced boundary changes a class (seeded change F_C19)
        n = len(case["params"]["values"])
        delta = draw(st.sampled_from([1e-6, 1e-3, 0.03]))
        edge = [float(ndtri(k / n)) + sgn * delta for k in range(1, n) for sgn in (-1.0, 1.0)]
        for i, v in enumerate(edge[:npts]):
            case["z"][i] = v
    case["src"] = draw(st.sampled_from(["field", "field", "raw"]))
    case["store"] = draw(st.sampled_from([True, True, False, "out", "field", "raw2"]))
    case["entry0"] = draw(st.integers(0, 2))
    case["alias"] = draw(st.integers(0, 2))
    return case


def _eval_spec(spec, coords):
    """Value of a mean/trend spec on the coordinate arrays (None -> 0)."""
    if spec is None:
        return 0.0
    if spec["kind"] == "const":
        return float(spec["c"])
    c = spec["c"]
    out = c[0] + c[1] * coords[0]
    if len(coords) > 1:
        out = out + c[2] * coords[1]
    return out


def _lib_spec(spec):
    if spec is None:
        return None
    if spec["kind"] == "const":
        return float(spec["c"])
    c = list(spec["c"])
    if len(c) == 2:
        return lambda x: c[0] + c[1] * x
    return lambda x, y: c[0] + c[1] * x + c[2] * y


def _wrap_setup(case):
    dim = case["dim"]
    if case["mesh"] == "structured":
        axes = [np.array(a, dtype=float) for a in case["axes"]]
        coords = np.meshgrid(*axes, indexing="ij")
        pos, shape = tuple(axes), coords[0].shape
    else:
        pos = np.array(case["pos"], dtype=float).reshape(dim, -1)
        coords = [pos[i] for i in range(dim)]
        shape = coords[0].shape
    return pos, coords, shape


def _norm_fns(name):
    if name == "lognormal":
        return np.log, np.exp
    return (lambda d: d), (lambda d: d)


ENTRIES = ["method", "apply", "func"]


def check_wrapper(case, rec):
    """Run the drawn configuration with each processing mode and a rotating entry point."""
    kind = case["kind"]
    sill = case["var"] + case["nugget"]
    # "off_nokeep": process=False with keep_mean=False - documented to be the same as process=False (keep_mean only matters when processing)
    for i, proc in enumerate(("off", "keep", "nokeep", "off_nokeep")):
        sub = dict(case, proc=proc, entry=ENTRIES[(case["entry0"] + i) % 3])
        sub["mean"] = {"kind": "const", "c": case["mean_c"]}
        if proc == "nokeep" and case["mean_lin"] is not None:
            sub["mean"] = {"kind": "lin", "c": case["mean_lin"]}
        # without processing the documented precondition is a plain normal field
        # (no normalizer, no trend, constant mean) for everything that uses the mean;
        # binary/discrete need it for their defaults / "equal" only, kept plain as well
        if proc.startswith("off") and (kind in NEEDS_MEAN or kind in ("binary", "discrete")):
            sub["normalizer"], sub["trend"] = "none", None
        mean_arg = 0.0 if proc == "nokeep" else case["mean_c"]
        sub["params"] = _resolve(kind, case["params"], mean_arg, sill)
        _check_wrapper_one(sub, rec)


def _check_wrapper_one(case, rec):
    kind, proc = case["kind"], case["proc"]
    process, keep_mean = not proc.startswith("off"), proc not in ("nokeep", "off_nokeep")
    tags = {"transform": kind, "proc": proc, "entry": case["entry"], "normalizer": case["normalizer"], "kind": "wrapper"}
    rec.label(f"wrap:{kind}", f"wrap:proc={proc}", f"wrap:entry={case['entry']}", f"wrap:norm={case['normalizer']}")
    rec.label(f"wrap:mean={case['mean']['kind']}", f"wrap:trend={'none' if case['trend'] is None else case['trend']['kind']}")
    rec.label(f"wrap:store={case['store']}", f"wrap:mesh={case['mesh']}")
    pos, coords, shape = _wrap_setup(case)
    sill = case["var"] + case["nugget"]
    M = _eval_spec(case["mean"], coords)
    T = _eval_spec(case["trend"], coords)
    nonzero_mean = bool(np.any(np.asarray(M) != 0))
    rec.nontrivial((process and nonzero_mean) or isinstance(case["store"], str) or bool(case["params"]))
    nfn, dfn = _norm_fns(case["normalizer"])
    # a field as the library itself would store it: D(g + mean) + trend
    g = math.sqrt(sill) * np.array(case["z"], dtype=float).reshape(shape)
    with np.errstate(all="ignore"):
        stored = dfn(g + M) + T
    stored0 = stored.copy()
    model_cls = gs.Gaussian if case["dim"] == 1 else gs.Exponential
    model = lib(model_cls, dim=case["dim"], var=case["var"], nugget=case["nugget"], _tags=tags)
    norm_obj = gs.normalizer.LogNormal() if case["normalizer"] == "lognormal" else None
    fld = Field(model, mean=_lib_spec(case["mean"]), normalizer=norm_obj, trend=_lib_spec(case["trend"]))
    lib(fld, pos, field=stored.copy(), mesh_type=case["mesh"], post_process=False, store=case["src"], _tags=tags)
    names0 = list(fld.field_names)
    require(names0 == [case["src"]], f"generator: unexpected stored names {names0}", tags)
    # ---- oracle --------------------------------------------------------------
    with np.errstate(all="ignore"):
        d = stored0.copy()
        if process:
            d = d - T
            d = nfn(d)
            if not keep_mean:
                d = d - M
        mean_arg = 0.0 if (process and not keep_mean) else float(case["mean"]["c"]) if case["mean"]["kind"] == "const" else None
        prm = dict(case["params"])
        lkw = {}  # keyword arguments for the library wrapper
        skip_f10 = False
        if kind == "lognormal":
            t = tf.array_to_lognormal(d)
        elif kind == "uniform":
            t = tf.array_to_uniform(d, mean=mean_arg, var=sill, **prm)
            lkw = prm
        elif kind == "arcsin":
            t = tf.array_to_arcsin(d, mean=mean_arg, var=sill, **prm)
            lkw = prm
        elif kind == "uquad":
            t = tf.array_to_uquad(d, mean=mean_arg, var=sill, **prm)
            lkw = prm
        elif kind == "zinnharvey":
            t = tf.array_zinnharvey(d, mean=mean_arg, var=sill, **prm)
            lkw = prm
        elif kind == "force_moments":
            t = tf.array_force_moments(d, mean=mean_arg, var=sill)
        elif kind == "boxcox":
            t = tf.array_boxcox(d, **prm)
            lkw = prm
        elif kind == "function":
            t = d * prm["fac"] + prm["off"]
            lkw = dict(function=_affine, **prm)
        elif kind == "binary":
            divide = prm.get("divide", mean_arg)
            upper = prm.get("upper", mean_arg + math.sqrt(sill))
            lower = prm.get("lower", mean_arg - math.sqrt(sill))
            t = np.where(d <= divide, lower, upper)
            lkw = prm
        else:  # discrete
            vals = [float(v) for v in prm["values"]]
            mode = prm["mode"]
            rec.label(f"wrap:discrete_mode={mode}")
            if mode in ("arithmetic", "default"):
                eff = sorted(vals)
                thr = [(eff[i] + eff[i + 1]) / 2 for i in range(len(eff) - 1)]
                lkw = {"values": vals}
                if mode == "arithmetic":
                    lkw["thresholds"] = "arithmetic"
            elif mode == "equal":
                eff = vals
                n = len(vals)
                thr = [mean_arg + math.sqrt(sill) * float(ndtri(k / n)) for k in range(1, n)]
                lkw = {"values": np.array(vals), "thresholds": "equal"}
            else:
                eff = vals
                thr = list(prm["thr"])
                lkw = {"values": vals, "thresholds": thr if mode == "list" else np.array(thr)}
                skip_f10 = mode == "ndarray"
            cls = np.zeros(d.shape, dtype=int)
            for th in thr:
                cls += (th < d).astype(int)
            t = np.array(eff, dtype=float)[cls]
            tie = np.zeros(d.shape, dtype=bool)
            if mode == "equal":
                for th in thr:
                    tie |= np.abs(d - th) <= 1e-9 * (abs(th) + math.sqrt(sill))
        r = np.asarray(t, dtype=float)
        if process:
            if not keep_mean:
                r = r + M
            r = dfn(r)
            r = r + T
        r = np.asarray(r, dtype=float).reshape(shape)
    # ---- library ---------------------------------------------------------------
    ckw = dict(field=case["src"], store=case["store"], process=process, keep_mean=keep_mean, **lkw)
    if case["src"] == "field" and case["alias"] == 0:
        ckw.pop("field")  # documented default source
    alias = ALIASES[kind][case["alias"] % len(ALIASES[kind])]
    try:
        if case["entry"] == "method":
            out = lib(fld.transform, alias, _tags=tags, **ckw)
        elif case["entry"] == "apply":
            out = lib(tf.apply, fld, alias, _tags=tags, **ckw)
        else:
            out = lib(getattr(tf, WRAP_FN[kind]), fld, _tags=tags, **ckw)
    except Violation as v:
        if skip_f10 and v.tags.get("exc") == "ValueError" and "truth value" in v.msg:
            _f10(rec, v, tags)
            return
        raise
    out = np.asarray(out)
    require(out.shape == tuple(shape), f"{kind}: result shape {out.shape} != field shape {tuple(shape)}", tags)
    # the oracle repeats the same elementary operations, so only rounding of the
    # sums (eps relative to the summands) is allowed
    with np.errstate(all="ignore"):
        tol = 1e-12 * (np.abs(r) + np.abs(T) + np.abs(M) + 1e-300)
    both_nan = np.isnan(out) & np.isnan(r)
    fin_r = np.isfinite(r)
    with np.errstate(all="ignore"):
        bad = np.where(fin_r, ~(np.abs(out - r) <= tol), ~((out == r) | both_nan))
    if kind == "discrete" and np.any(tie):
        rec.exclude("wrap:float_tie_with_computed_threshold")
        bad &= ~tie
    if np.any(bad):
        k = tuple(np.argwhere(bad)[0])
        raise Violation(
            f"{alias} via {case['entry']} (process={process}, keep_mean={keep_mean}, normalizer={case['normalizer']}): stored value "
            f"{stored0[k]!r} (normal value {np.asarray(d)[k]!r}) -> {out[k]!r}, documented (array transform of the pre-processed field, "
            f"post-processed back) {r[k]!r}; params {case['params']}, sill {sill!r}",
            tags=dict(tags, kind="wrapper_value"),
        )
    with np.errstate(all="ignore"):
        fin = np.isfinite(r) & np.isfinite(out)
        if np.any(fin):
            j = np.argmax(np.abs(out - r)[fin] / tol[fin])
            rec.discrepancy("wrapper", float(np.abs(out - r)[fin][j]), float(tol[fin][j]))
    # ---- storage -----------------------------------------------------------------
    store = case["store"]
    name = store if isinstance(store, str) else case["src"]
    names = list(fld.field_names)
    if store is False:
        require(names == names0, f"store=False changed the stored names {names0} -> {names}", dict(tags, kind="store"))
    else:
        want_names = names0 + ([name] if name not in names0 else [])
        require(names == want_names, f"store={store!r}: stored names {names}, expected {want_names}", dict(tags, kind="store"))
        got = np.asarray(fld[name])
        require(
            got.shape == out.shape and np.array_equal(got, out, equal_nan=True),
            f"store={store!r}: field stored under '{name}' differs from the returned result",
            dict(tags, kind="store"),
        )
    # the source field stays what it was unless the result was stored under its name: a second transformation
    # taken from it must start from the same values
    if not (store is True or store == case["src"]) and case["src"] in fld.field_names:
        src_now = np.asarray(fld[case["src"]])
        require(
            src_now.shape == np.shape(stored0) and np.array_equal(src_now, np.asarray(stored0), equal_nan=True),
            f"{alias} via {case['entry']} (process={process}, store={store!r}): the source field '{case['src']}' changed "
            f"(max {float(np.nanmax(np.abs(src_now - np.asarray(stored0)))):.3g}); further transformations of it miss their documented target",
            dict(tags, kind="source_modified"),
        )


# ---------------------------------------------------------------------------
# 9. sampled complement on real SRF fields (DESIGN 1.5: z-tests, |z| <= 7, one
#    confirmation run on fresh seeds with 4x the sample)

STAT_KINDS = ["lognormal", "uniform", "arcsin", "uquad", "zinnharvey", "boxcox", "discrete", "binary", "force_moments"]
Z_MAX = 7.0


@st.composite
def gen_stat(draw, tier="quick"):
    # one SRF configuration; every transformation is applied to each realisation
    case = {
        "proc": draw(st.sampled_from(["off", "keep", "nokeep"])),
        "cls": draw(st.sampled_from(["Gaussian", "Exponential"])),
        "len_scale": float(draw(logfloat(0.3, 5.0))),
        "nugget": float(draw(st.one_of(st.just(0.0), logfloat(0.05, 0.5)))),
        "mean": float(draw(st.one_of(st.just(0.0), st.floats(-1, 1)))),
        "var": float(draw(st.one_of(st.just(1.0), logfloat(0.1, 1.0)))),
        "trend": float(draw(st.floats(-2, 2))),
        "seed": draw(st.integers(0, 2**30)),
        "seed2": draw(st.integers(0, 2**30)),
        "nseeds": 160 if tier == "quick" else 320,
        # four points, pairwise >= 5 apart (distinct values within one realisation)
        "pos": draw(gens.separated_points(2, n_min=4, n_max=4, box=50.0, min_sep=5.0)),
        "entry0": draw(st.integers(0, 1)),
        "params": {},
    }
    for kind in STAT_KINDS:
        if kind == "boxcox":
            prm = {"lmbda": draw(st.sampled_from([0.0, 0.5, 1.0])), "shift_rel": float(draw(st.floats(0, 1)))}
        elif kind == "discrete":
            prm = draw(_tparams("discrete", narrow=True).filter(lambda p: p["mode"] != "ndarray" or len(p["values"]) == 2))
        else:
            prm = draw(_tparams(kind, narrow=True))
        case["params"][kind] = prm
    return case


class _Plan:
    """Library keywords, null-hypothesis moments and the map output -> statistics for one transformation."""

    def __init__(self, kind, prm, mean_arg, sill):
        self.kind = kind
        sd = math.sqrt(sill)
        prm = _resolve(kind, prm, mean_arg, sill)
        self.lkw = dict(prm)
        self.levels = None
        self.h0_mean = np.array([0.5, 1 / 12, 0.25])
        self.h0_var = np.array([1 / 12, 1 / 180, 3 / 16])
        if kind == "boxcox":
            lam = prm["lmbda"]
            # shift chosen so that lmbda*(x+shift)+1 > 0 for |z| < 8: nothing is cut off
            shift = prm["shift_rel"] - mean_arg + (8 * sd if lam != 0 else 0.0)
            self.lkw = {"lmbda": lam, "shift": shift}
            self.to_u = lambda t: ndtr(((np.log(t) if lam == 0 else (t**lam - 1) / lam) - shift - mean_arg) / sd)
        elif kind == "discrete":
            vals = [float(v) for v in prm["values"]]
            n, mode = len(vals), prm["mode"]
            if mode in ("arithmetic", "default"):
                eff = sorted(vals)
                thr = [(eff[i] + eff[i + 1]) / 2 for i in range(n - 1)]
                self.lkw = {"values": vals}
                if mode == "arithmetic":
                    self.lkw["thresholds"] = "arithmetic"
            elif mode == "equal":
                eff, thr = vals, [mean_arg + sd * float(ndtri(k / n)) for k in range(1, n)]
                self.lkw = {"values": vals, "thresholds": "equal"}
            else:
                eff, thr = vals, list(prm["thr"])
                self.lkw = {"values": vals, "thresholds": thr if mode == "list" else np.array(thr)}
            cdf = [0.0] + [float(ndtr((t - mean_arg) / sd)) for t in thr] + [1.0]
            pk = np.diff(cdf)
            self.h0_mean, self.h0_var = pk, pk * (1 - pk)
            self.levels = np.array(eff, dtype=float)
        elif kind == "binary":
            divide = prm.get("divide", mean_arg)
            upper = prm.get("upper", mean_arg + sd)
            lower = prm.get("lower", mean_arg - sd)
            p = float(ndtr((divide - mean_arg) / sd))
            self.h0_mean, self.h0_var = np.array([p, 1 - p]), np.array([p * (1 - p)] * 2)
            self.levels = np.array([lower, upper], dtype=float)
        elif kind == "lognormal":
            self.to_u = lambda t: ndtr((np.log(t) - mean_arg) / sd)
        elif kind == "zinnharvey":
            self.to_u = lambda t: ndtr((t - mean_arg) / sd)
        elif kind == "uniform":
            lo, hi = prm.get("low", 0.0), prm.get("high", 1.0)
            self.to_u = lambda t: (t - lo) / (hi - lo)
        elif kind in ("arcsin", "uquad"):
            h = float(default_halfwidth(kind, sill))
            lo, hi = prm.get("a", mean_arg - h), prm.get("b", mean_arg + h)
            if kind == "arcsin":

                def to_u(t):
                    u = 2 / np.pi * np.arcsin(np.sqrt(np.clip((t - lo) / (hi - lo), 0, 1)))
                    return np.where((t < lo - 1e-9 * (hi - lo)) | (t > hi + 1e-9 * (hi - lo)), np.nan, u)

                self.to_u = to_u
            else:
                be = (lo + hi) / 2
                self.to_u = lambda t: 4 / (hi - lo) ** 3 * ((t - be) ** 3 + (be - lo) ** 3)
        elif kind == "force_moments":
            self.h0_mean = self.h0_var = None

    def stats(self, t, tags, scale, cond):
        kind = self.kind
        if kind == "force_moments":
            return [float(np.mean(t)), float(np.var(t)), cond]
        if self.levels is not None:
            dist = np.abs(t[:, None] - self.levels[None, :])
            k = np.argmin(dist, axis=1)
            tol = 1e-9 * (scale + float(np.max(np.abs(self.levels))))
            if np.min(np.abs(np.diff(np.sort(self.levels)))) < 10 * tol:
                return None  # classes not distinguishable from the output
            require(
                bool(np.all(dist[np.arange(t.size), k] <= tol)),
                f"{kind} on an SRF field: outputs {t.tolist()} are not among the given values {self.levels.tolist()}",
                dict(tags, transform=kind, kind="valueset"),
            )
            return [float(np.mean(k == j)) for j in range(self.levels.size)]
        u = self.to_u(t)
        require(
            bool(np.all(np.isfinite(u)) and np.all(u >= -1e-9) and np.all(u <= 1 + 1e-9)),
            f"{kind} on an SRF field: outputs {t.tolist()} outside the support of the documented target",
            dict(tags, transform=kind, kind="support"),
        )
        return [float(np.mean(u)), float(np.mean((u - 0.5) ** 2)), float(np.mean(u < 0.25))]


def _stat_run(case, seed0, nseeds, tags, kinds):
    """{kind: (per-seed statistics (nseeds, K) or None, plan)} on nseeds realisations."""
    proc = case["proc"]
    process, keep_mean = proc != "off", proc != "nokeep"
    mean, sill = case["mean"], case["var"] + case["nugget"]
    mean_arg = 0.0 if (process and not keep_mean) else mean
    trend = case["trend"] if process else None
    model = lib(getattr(gs, case["cls"]), dim=2, var=case["var"], len_scale=case["len_scale"], nugget=case["nugget"], _tags=tags)
    skw = dict(mean=mean, mode_no=32)
    if process:
        skw.update(normalizer=gs.normalizer.LogNormal(), trend=trend)
    srf = lib(gs.SRF, model, seed=seed0, _tags=tags, **skw)
    pos = np.array(case["pos"], dtype=float)
    plans = {k: _Plan(k, case["params"][k], mean_arg, sill) for k in kinds}
    stats = {k: [] for k in kinds}
    scale = 1 + abs(mean) + abs(trend or 0.0)
    for i in range(nseeds):
        lib(srf, pos, seed=seed0 + i, _tags=tags)
        base = np.array(srf.field, dtype=float)
        with np.errstate(all="ignore"):
            pre = np.log(base - trend) - (0.0 if keep_mean else mean) if process else base
            cond = float(np.max(np.abs(pre)) / np.std(pre))  # conditioning of the sample moments
        for n, kind in enumerate(kinds):
            if stats[kind] is None:
                continue
            # process=True may alter the stored source in place (property C20): re-plant it
            srf.field[...] = base
            ckw = dict(process=process, keep_mean=keep_mean, store=False, **plans[kind].lkw)
            t2 = dict(tags, transform=kind)
            if (case["entry0"] + n) % 2 == 0:
                out = lib(srf.transform, ALIASES[kind][0], _tags=t2, **ckw)
            else:
                out = lib(getattr(tf, WRAP_FN[kind]), srf, _tags=t2, **ckw)
            out = np.asarray(out, dtype=float)
            with np.errstate(all="ignore"):
                # undo the documented post-processing: out = exp(t [+ mean]) + trend
                t = out
                if process:
                    t = np.log(out - trend) - (0.0 if keep_mean else mean)
                row = plans[kind].stats(t, tags, scale, cond)
            if row is None:
                stats[kind] = None
            else:
                stats[kind].append(row)
    return {k: (None if v is None else np.array(v, dtype=float), plans[k]) for k, v in stats.items()}


def _zscores(stats, h0_mean, h0_var, npts):
    m = stats.shape[0]
    emp = stats.std(axis=0, ddof=1)
    # points of one realisation are correlated: use the empirical spread of the per-seed
    # means, but never less than the spread of npts independent points
    se = np.maximum(emp, np.sqrt(h0_var / npts)) / math.sqrt(m)
    with np.errstate(all="ignore"):
        z = np.where(se > 0, (stats.mean(axis=0) - h0_mean) / se, 0.0)
        z = np.where((se == 0) & (np.abs(stats.mean(axis=0) - h0_mean) > 1e-12), np.inf, z)
    return z


def check_stat(case, rec):
    proc = case["proc"]
    tags = {"proc": proc, "kind": "sampled", "model": case["cls"], "nugget": case["nugget"] > 0}
    rec.label(f"stat:proc={proc}", "stat:nugget" if case["nugget"] > 0 else "stat:no_nugget", f"stat:{case['cls']}")
    rec.nontrivial((proc != "off" and case["mean"] != 0) or case["nugget"] > 0 or case["mean"] != 0 or case["var"] != 1)
    npts = len(case["pos"][0])
    sill = case["var"] + case["nugget"]
    mean_arg = 0.0 if proc == "nokeep" else case["mean"]
    res = _stat_run(case, case["seed"], case["nseeds"], tags, STAT_KINDS)
    suspects = []
    for kind in STAT_KINDS:
        stats, plan = res[kind]
        t2 = dict(tags, transform=kind)
        if stats is None:
            rec.exclude("stat:indistinguishable_levels")
            continue
        if kind == "force_moments":
            # exact per realisation (1e-10: log/exp round trip of the processing included;
            # eps * max|x|/sd for a sample with a small spread, cf. check_force)
            rel = 1e-10 + 32 * EPS * stats[:, 2]
            em = np.abs(stats[:, 0] - mean_arg) / ((1 + abs(mean_arg)) * rel)
            ev = np.abs(stats[:, 1] - sill) / (sill * rel)
            rec.discrepancy("stat_force_mean", float(np.max(em)), 1.0)
            rec.discrepancy("stat_force_var", float(np.max(ev)), 1.0)
            require(bool(np.all(em <= 1)), f"force_moments on SRF: sample mean {stats[int(np.argmax(em)), 0]!r} differs from the field mean {mean_arg}", dict(t2, moment="mean"))
            require(bool(np.all(ev <= 1)), f"force_moments on SRF: sample variance {stats[int(np.argmax(ev)), 1]!r} differs from the sill {sill}", dict(t2, moment="var"))
            continue
        z = _zscores(stats, plan.h0_mean, plan.h0_var, npts)
        zmax = float(np.max(np.abs(z)))
        rec.discrepancy("stat_z", zmax, Z_MAX)
        if zmax > Z_MAX:
            suspects.append((kind, int(np.argmax(np.abs(z))), zmax))
    if not suspects:
        return
    rec.label("stat:confirmation_run")
    kinds2 = [k for k, _j, _z in suspects]
    res2 = _stat_run(case, case["seed2"], 4 * case["nseeds"], tags, kinds2)
    for kind, j, z1 in suspects:
        stats2, plan = res2[kind]
        z2 = _zscores(stats2, plan.h0_mean, plan.h0_var, npts)
        require(
            abs(z2[j]) <= Z_MAX,
            f"{kind} on SRF fields (proc={proc}, mean={case['mean']}, sill={sill}, params={case['params'][kind]}): statistic {j} "
            f"has mean {stats2.mean(axis=0)[j]:.5g}, documented law gives {plan.h0_mean[j]:.5g} (|z|={z1:.1f}, confirmed on fresh seeds with z={z2[j]:.1f})",
            dict(tags, transform=kind, stat=j),
        )


SUBS = [
    Sub("pushforward", gen_push, check_push, quick=1000, thorough=24000, shards_quick=2, shards_thorough=4),
    Sub("moments", gen_moments, check_moments, quick=600, thorough=16000, shards_quick=1, shards_thorough=2),
    Sub("zinnharvey", gen_zh, check_zh, quick=400, thorough=10000, shards_quick=2, shards_thorough=4),
    Sub("force_moments", gen_force, check_force, quick=400, thorough=10000, shards_quick=1, shards_thorough=2),
    Sub("boxcox", gen_boxcox, check_boxcox, quick=600, thorough=16000, shards_quick=1, shards_thorough=2),
    Sub("discrete", gen_discrete, check_discrete, quick=800, thorough=24000, shards_quick=2, shards_thorough=4),
    Sub("binary", gen_binary, check_binary, quick=400, thorough=8000, shards_quick=1, shards_thorough=2),
    Sub("wrapper", gen_wrapper, check_wrapper, quick=1200, thorough=24000, shards_quick=2, shards_thorough=6),
    Sub("srf_stat", gen_stat, check_stat, quick=48, thorough=840, shards_quick=4, shards_thorough=6, shrink_quick=False),
]

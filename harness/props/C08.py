"""C08 - Empirical variogram estimates equal their mathematical definition.

Every case is a concrete input (points, fields with missing values, bin edges,
estimator, directions / tolerance / bandwidth, or a grid with a mask).  The
oracle (oracles/variogram.py) enumerates all pairs in pure Python and applies
the documented formulas; compared are the compiled kernels called directly and
the public wrappers ``vario_estimate(return_counts=True)`` /
``vario_estimate_axis``.  Counts must agree exactly, values to 1e-11 relative.

Exactness policy (bin membership is discontinuous):

* coordinates that are small multiples of 2^-10 ("lattice") give exact squared
  distances and correctly rounded distances; edges are integers, quarter
  integers or sqrt(m): ties are *wanted* and decided exactly - this is what
  tests the half-open bins;
* on float data a case with a pair within 1e-12 (relative) of an edge, of the
  angular tolerance or of the band width is discarded (``float_tie``).
"""

import math

import numpy as np
from hypothesis import strategies as st

import common  # noqa: F401
from common import Sub, Violation, lib, require
from gens import logfloat
from oracles import variogram as ov

import gstools as gs
from gstools.variogram import estimator as kern

ID = "C08"
LEVEL = "exploration"
RULE = (
    "Hypothesis draws point sets in dim 1-3 (integer/half-integer lattices with exact ties, float "
    "clouds, level grids, collinear sets, duplicated points) or lat-lon sets (poles, lon in "
    "[-720,720], antipodes), 1-4 fields with missing values, increasing bin edges (first edge 0 or "
    "> 0, empty bins, edges equal to achievable distances), both estimators, 1-3 directions "
    "(axis, integer, float; separated / overlapping / identical lines; rescaled), tolerance in "
    "(0, pi/2], bandwidth on/off; for the axis estimator grids up to 12x9x5, every axis (int and "
    "str), masks and NaNs. Non-trivial: >= 4 points, >= 2 non-empty bins (lags) and one of {NaN, "
    "direction set, pair exactly on an edge, coincident points, mask}; distinct by hash of the "
    "rounded case. Float cases with a pair within 1e-12 of a threshold are discarded (counted)."
)
ASSUMPTIONS = [
    "libm sqrt/sin/cos/atan2/acos/pow called from python `math` return the same doubles as when "
    "called from the compiled kernel (same shared libm; the kernel is built without FMA contraction)",
    "a computed scalar product of exactly 0.0 means the pair is perpendicular to the direction",
    "for direct kernel calls `separate_dirs=True` is only legitimate when the tolerance cones of "
    "all directions are disjoint (angle between lines >= 2 tol)",
]

# Confirmed defects of the unchanged tree (see the final report of this module).
# A case reproducing *exactly* the listed pattern is counted (rec.exclude) instead
# of failing, unless the defect is listed in known_findings.json (then it is
# reported through rec.soft as a known hit) or the case carries "strict": true
# (used by probes, which must fail while the defect exists).
KNOWN = {
    # >= 2 separated directions: the kernel's early `break` gives coincident
    # pairs (distance 0) to the first direction only.
    "separated_dirs_zero_dist": True,
    # haversine argument rounded above 1 for antipodal points -> sqrt(1-arg) is
    # NaN -> the pair passes the bin test of *every* bin.
    "haversine_antipodal_nan": True,
}

VTOL = 1e-11  # same summation order as the kernel; N <= 3200 non-negative terms
# give at most N*eps = 7e-13 relative, the 4th power of Cressie 4x that.

EST = {"matheron": "m", "cressie": "c"}


# ---------------------------------------------------------------------------
# helpers


def _nanlist(rows):
    return [[float("nan") if v is None else float(v) for v in r] for r in rows]


def _has_nan(rows):
    return any(v is None for r in rows for v in r)


def _mismatch(lv, lc, o_v, o_c):
    """(None, max rel. error) when values and counts agree with the oracle, else (message, error)."""
    lv = np.asarray(lv, dtype=float)
    o_v = np.asarray(o_v, dtype=float)
    if lv.shape != o_v.shape:
        return f"shape {lv.shape}, expected {o_v.shape}", math.inf
    if lc is not None:
        lc = np.asarray(lc)
        o_c = np.asarray(o_c)
        if lc.shape != o_c.shape:
            return f"counts shape {lc.shape}, expected {o_c.shape}", math.inf
        if not np.array_equal(lc, o_c):
            return f"counts {lc.tolist()} != enumerated {o_c.tolist()}", math.inf
    err = np.abs(lv - o_v)
    scale = np.abs(o_v)
    ok = err <= VTOL * scale
    rel = 0.0
    if err.size:
        with np.errstate(all="ignore"):
            r = np.where(scale > 0, err / np.where(scale > 0, scale, 1.0), np.where(err == 0, 0.0, np.inf))
        rel = float(np.max(np.where(np.isnan(r), np.inf, r)))
    if not bool(np.all(ok)):
        return f"values {lv.tolist()} != enumerated {o_v.tolist()} (rel. err {rel:.3g})", rel
    return None, rel


def _finding(rec, case, key, msg, tags):
    """A confirmed defect was reproduced exactly: known hit, exclusion or violation."""
    try:
        rec.soft(msg, tags=tags)
    except Violation:
        if KNOWN.get(key) and not case.get("strict"):
            rec.exclude(key)
            return
        raise


def _centers(edges):
    return [(a + b) / 2.0 for a, b in zip(edges[:-1], edges[1:])]


def _nontrivial(rec, case, n, info, extra):
    rec.nontrivial(
        n >= 4
        and info["nonempty_bins"] >= 2
        and (
            extra
            or _has_nan(case["fields"])
            or info["on_edge"] > 0
            or info["zero_pairs"] > 0
        )
    )


def _common_labels(rec, case, info):
    rec.label(case["kind"], f"dim{case['dim']}", case["estimator"], f"fields{len(case['fields'])}")
    rec.label("edge0" if case["edges"] and case["edges"][0] == 0.0 else "edge0>0")
    if _has_nan(case["fields"]):
        rec.label("nan")
    if info["on_edge"]:
        rec.label("pair_on_edge")
    if info["zero_pairs"]:
        rec.label("coincident")
    if info["zero_pairs_binned"]:
        rec.label("coincident_in_bin")
    nb = len(case["edges"]) - 1 if case["edges"] else 0
    if info["nonempty_bins"] < nb:
        rec.label("empty_bin")
    if info["in_bins"] < info["pairs"]:
        rec.label("pairs_outside_bins")


# ---------------------------------------------------------------------------
# generators: points, fields, edges


def _nmax(tier):
    return 40 if tier == "thorough" else 26


def _spell(est, case):
    """The estimator name as the caller writes it (the documented names are matched without regard to letter case)."""
    how = case.get("spelling", "lower")
    if how == "Capital":
        return est.capitalize()
    if how == "UPPER":
        return est.upper()
    if how == "mIxEd":
        return "".join(ch.upper() if i % 2 else ch for i, ch in enumerate(est))
    return est



@st.composite
def _npoints(draw, tier):
    # Hypothesis over-samples the ends of an integer range: keep the tiny sets in the middle
    r = draw(st.integers(0, 19))
    if r == 7:
        return draw(st.integers(2, 3))
    if r in (3, 11, 15):
        return draw(st.integers(4, 9))
    return draw(st.integers(8, _nmax(tier)))


NBINS = [4, 3, 6, 2, 1, 2, 8, 3, 5]


@st.composite
def _points(draw, dim, tier, kinds):
    """-> (kind, scale, pos as dim lists, direction of the line for collinear sets or None)."""
    kind = draw(st.sampled_from(kinds))
    line = None
    n = draw(_npoints(tier))
    if kind == "lattice":
        r = draw(st.sampled_from([1, 2, 3, 5]))
        scale = draw(st.sampled_from([1.0, 1.0, 0.5, 2.0]))
        pts = draw(st.lists(st.lists(st.integers(-r, r), min_size=dim, max_size=dim), min_size=n, max_size=n))
        pts = [[c * scale for c in p] for p in pts]
    elif kind == "lattice_line":
        scale = draw(st.sampled_from([1.0, 0.5]))
        p0 = draw(st.lists(st.integers(-3, 3), min_size=dim, max_size=dim))
        v = draw(st.lists(st.integers(-2, 2), min_size=dim, max_size=dim))
        if not any(v):
            v[0] = 1
        ts = draw(st.lists(st.integers(-5, 5), min_size=n, max_size=n))
        pts = [[(a + t * b) * scale for a, b in zip(p0, v)] for t in ts]
        line = [float(c) for c in v]
    elif kind == "float":
        scale = draw(st.one_of(st.just(1.0), logfloat(1e-2, 1e2)))
        pts = draw(
            st.lists(st.lists(st.floats(-1, 1, allow_subnormal=False), min_size=dim, max_size=dim), min_size=n, max_size=n)
        )
        pts = [[c * scale for c in p] for p in pts]
    elif kind == "levels":
        # few float levels per axis: exactly perpendicular / parallel pairs
        scale = draw(st.one_of(st.just(1.0), logfloat(1e-1, 1e1)))
        lev = [
            draw(st.lists(st.floats(-1, 1, allow_subnormal=False), min_size=2, max_size=4, unique=True))
            for _ in range(dim)
        ]
        idx = draw(st.lists(st.lists(st.integers(0, 3), min_size=dim, max_size=dim), min_size=n, max_size=n))
        pts = [[lev[a][i % len(lev[a])] * scale for a, i in enumerate(p)] for p in idx]
    else:  # float_line
        scale = draw(st.one_of(st.just(1.0), logfloat(1e-1, 1e1)))
        p0 = draw(st.lists(st.floats(-1, 1, allow_subnormal=False), min_size=dim, max_size=dim))
        v = draw(st.lists(st.floats(-1, 1, allow_subnormal=False), min_size=dim, max_size=dim))
        v[draw(st.integers(0, dim - 1))] = 1.0
        ts = draw(st.lists(st.floats(-1, 1, allow_subnormal=False), min_size=n, max_size=n))
        pts = [[(a + t * b) * scale for a, b in zip(p0, v)] for t in ts]
        line = [float(c) for c in v]
    # exact duplicates
    for a, b in draw(st.lists(st.tuples(st.integers(0, n - 1), st.integers(0, n - 1)), max_size=3)):
        pts[a] = list(pts[b])
    pos = [[float(p[a]) for p in pts] for a in range(dim)]
    return kind, float(scale), pos, line


@st.composite
def _fields(draw, n):
    k = draw(st.sampled_from([1, 1, 2, 3, 4]))
    val = st.one_of(
        st.floats(-100, 100, allow_subnormal=False),
        st.integers(-4, 4).map(float),
    )
    w = draw(st.sampled_from([0, 0, 2, 6]))
    elem = val if w == 0 else st.one_of(*([val] * w + [st.none()]))
    const = draw(st.integers(0, 9)) == 0
    rows = []
    for _ in range(k):
        row = draw(st.lists(elem, min_size=n, max_size=n))
        if const:
            c = draw(val)
            row = [None if v is None else c for v in row]
        rows.append(row)
    return rows


@st.composite
def _edges_lattice(draw, dim, scale):
    m_max = 12 * dim
    cand = {scale * math.sqrt(m) for m in range(1, m_max + 1)}
    cand |= {scale * q / 4.0 for q in range(1, 4 * int(math.sqrt(m_max)) + 6)}
    cand = sorted(cand)
    nb = draw(st.sampled_from(NBINS))
    zero = draw(st.booleans())
    k = nb if zero else nb + 1
    es = draw(st.lists(st.sampled_from(cand), min_size=k, max_size=k, unique=True))
    if zero:
        es.append(0.0)
    return [float(e) for e in sorted(set(es))]


@st.composite
def _edges_float(draw, scale, reach):
    """Increasing float edges; ``reach`` ~ diameter of the point set."""
    first = draw(st.one_of(st.just(0.0), st.just(0.0), logfloat(1e-3, 0.5).map(lambda x: x * reach)))
    nb = draw(st.sampled_from(NBINS))
    mode = draw(st.sampled_from(["even", "log"]))
    if mode == "even":
        top = draw(st.floats(0.2, 1.3)) * reach
        inc = [max(top - first, 1e-3 * reach) / nb] * nb
    else:
        inc = draw(st.lists(logfloat(1e-3, 0.6).map(lambda x: x * reach), min_size=nb, max_size=nb))
    es = [float(first)]
    for d in inc:
        nxt = es[-1] + d
        if nxt > es[-1]:
            es.append(float(nxt))
    if len(es) < 2:
        es.append(es[-1] + reach)
    return es


def _reach(pos):
    s = 0.0
    for ax in pos:
        s += (max(ax) - min(ax)) ** 2
    r = math.sqrt(s)
    return r if r > 0 else 1.0


LATTICE_KINDS = ["lattice", "lattice", "lattice_line"]
FLOAT_KINDS = ["float", "float", "levels", "float_line"]


@st.composite
def gen_iso(draw, tier="quick"):
    dim = draw(st.sampled_from([1, 2, 2, 3]))
    lat = draw(st.booleans())
    kind, scale, pos, line = draw(_points(dim, tier, LATTICE_KINDS if lat else FLOAT_KINDS))
    n = len(pos[0])
    std = (not lat) and draw(st.integers(0, 7)) == 0 and n >= 3
    if std:
        edges = None
    elif lat:
        edges = draw(_edges_lattice(dim, scale))
    else:
        edges = draw(_edges_float(scale, _reach(pos)))
    return {
        "kind": kind,
        "dim": dim,
        "pos": pos,
        "fields": draw(_fields(n)),
        "edges": edges,
        "estimator": draw(st.sampled_from(["matheron", "cressie"])),
        "spelling": draw(st.sampled_from(["lower", "lower", "Capital", "UPPER", "mIxEd"])),
        "flat_args": draw(st.booleans()),
        # how the public wrapper is told about the missing values (the oracle always works on the NaN pattern)
        "missing_as": draw(st.sampled_from(["nan", "masked_stack", "masked_list", "no_data"])),
    }


def _encode_missing(fields, how):
    """The same fields with their missing entries encoded as numpy masks (garbage underneath) or a no_data marker."""
    f = np.array(fields, dtype=np.double)
    miss = np.isnan(f)
    if how == "no_data":
        g = f.copy()
        g[miss] = 12345.0
        return [row.tolist() for row in g], {"no_data": 12345.0}
    g = f.copy()
    g[miss] = 777.0  # must never be read
    if how == "masked_stack":
        return np.ma.array(g, mask=miss), {}
    return [np.ma.array(g[i], mask=miss[i]) for i in range(f.shape[0])], {}


# ---------------------------------------------------------------------------
# isotropic check


def check_iso(case, rec):
    dim = case["dim"]
    pos = case["pos"]
    n = len(pos[0])
    est = case["estimator"]
    fields = _nanlist(case["fields"])
    tags = {"sub": "iso", "dim": dim, "estimator": est, "pts": case["kind"], "distance": "euclid"}
    f_np = np.array(fields, dtype=np.double).reshape(len(fields), n)
    p_np = np.array(pos, dtype=np.double).reshape(dim, n)
    # wrapper arguments: 1-d pos / single field may be given flat
    w_pos = pos[0] if (dim == 1 and case["flat_args"]) else pos
    w_field = fields[0] if (len(fields) == 1 and case["flat_args"]) else fields

    if case["edges"] is None:
        # documented: equally spaced edges from 0 to a third of the box diameter.
        # (The *number* of bins is described as "Sturges' rule" while the code uses
        # 2*log2(n)+1; it is not part of this property and is taken from the result.)
        if not ov.standard_bins_euclid(pos, 1)[-1] > 0.0:
            rec.exclude("degenerate_standard_bins")  # all points coincide: no increasing edges
            return
        res = lib(gs.vario_estimate, w_pos, w_field, estimator=_spell(est, case), return_counts=True, _tags=tags)
        require(len(res) == 3, "vario_estimate(return_counts=True) does not return 3 items", tags)
        nb = int(np.size(res[0]))
        require(nb >= 1, "standard bins: no bin returned", dict(tags, kind="standard_bins"))
        edges = ov.standard_bins_euclid(pos, nb)
        # edges are computed, not given: a tie is never exact here
        o_v, o_c, info = ov.unstructured(fields, edges, pos, est, "euclid", exact_edges=False)
        if info["near_edge"]:
            rec.exclude("float_tie")
            return
        rec.label("standard_bins")
        cen = np.asarray(res[0], dtype=float)
        want = np.array(_centers(edges))
        require(
            cen.shape == want.shape and bool(np.all(np.abs(cen - want) <= 1e-12 * edges[-1])),
            f"standard bin centers {cen.tolist()} != documented rule {want.tolist()}",
            dict(tags, kind="standard_bins"),
        )
        msg, rel = _mismatch(res[1], res[2], o_v, o_c)
        rec.discrepancy("values", rel if msg is None else 0.0, VTOL)
        require(msg is None, f"vario_estimate on standard bins: {msg}", dict(tags, kind="mismatch", api="vario_estimate"))
        _common_labels(rec, dict(case, edges=edges), info)
        _nontrivial(rec, case, n, info, False)
        return

    edges = [float(e) for e in case["edges"]]
    o_v, o_c, info = ov.unstructured(fields, edges, pos, est, "euclid")
    if info["near_edge"]:
        rec.exclude("float_tie")
        return
    _common_labels(rec, case, info)
    e_np = np.array(edges, dtype=np.double)
    # compiled kernel, called directly
    kv, kc = lib(kern.unstructured, f_np, e_np, p_np, EST[est], "e", 1, _tags=tags)
    msg, rel = _mismatch(kv, kc, o_v, o_c)
    rec.discrepancy("values", rel if msg is None else 0.0, VTOL)
    require(msg is None, f"estimator.unstructured: {msg}", dict(tags, kind="mismatch", api="kernel"))
    # public wrapper
    res = lib(gs.vario_estimate, w_pos, w_field, edges, estimator=_spell(est, case), return_counts=True, _tags=tags)
    require(len(res) == 3, "vario_estimate(return_counts=True) does not return 3 items", tags)
    require(
        np.array_equal(np.asarray(res[0]), np.array(_centers(edges))),
        "bin centers are not the edge mid points",
        dict(tags, kind="centers"),
    )
    msg, rel = _mismatch(res[1], res[2], o_v, o_c)
    require(msg is None, f"vario_estimate: {msg}", dict(tags, kind="mismatch", api="vario_estimate"))
    res2 = lib(gs.vario_estimate, w_pos, w_field, edges, estimator=_spell(est, case), _tags=tags)
    require(
        len(res2) == 2 and np.array_equal(np.asarray(res2[1]), np.asarray(res[1])),
        "vario_estimate without return_counts differs from the call with counts",
        dict(tags, kind="return_counts"),
    )
    # a trend function that hands a coordinate back as it is, plus a position-dependent mean: the pairs are still those of the given
    # points (counts unchanged) and the values those of the field detrended by hand
    if (n + len(edges)) % 3 == 0:
        p_np = np.array(pos, dtype=float).reshape(len(pos), -1)
        f_np = np.array(fields, dtype=float).reshape(len(fields), -1)
        tr_ = lambda *xs: xs[0]  # noqa: E731
        mn_ = lambda *xs: 0.25 + 0.5 * np.asarray(xs[-1])  # noqa: E731
        adj = f_np - p_np[0] - (0.25 + 0.5 * p_np[-1])
        with common.quiet():
            res5 = lib(gs.vario_estimate, p_np.copy(), f_np.copy(), edges, estimator=_spell(est, case), return_counts=True, trend=tr_, mean=mn_, _tags=tags)
            res6 = lib(gs.vario_estimate, p_np.copy(), adj, edges, estimator=_spell(est, case), return_counts=True, _tags=tags)
        rec.label("coordinate_trend_and_mean")
        require(np.array_equal(np.asarray(res5[2]), np.asarray(res[2])),
                f"vario_estimate(trend=coordinate, mean=function): pair counts {np.asarray(res5[2]).tolist()} differ from those without detrending {np.asarray(res[2]).tolist()}",
                dict(tags, kind="mismatch", api="vario_estimate", option="trend+mean"))
        require(bool(np.allclose(np.asarray(res5[1], dtype=float), np.asarray(res6[1], dtype=float), rtol=1e-9, atol=1e-12 * (1.0 + float(np.nanmax(np.abs(adj)))) ** 2, equal_nan=True)),
                "vario_estimate(trend=coordinate, mean=function) differs from the estimate of the field detrended by hand",
                dict(tags, kind="mismatch", api="vario_estimate", option="trend+mean"))
    how = case.get("missing_as", "nan")
    if how != "nan" and _has_nan(case["fields"]):
        enc, kw = _encode_missing(fields, how)
        differing = len(fields) > 1 and len({tuple(np.isnan(r)) for r in np.array(fields, dtype=float)}) > 1
        rec.label("missing_as_" + how + ("_differing" if differing else ""))
        res3 = lib(gs.vario_estimate, pos, enc, edges, estimator=_spell(est, case), return_counts=True, _tags=dict(tags, missing_as=how), **kw)
        msg, rel = _mismatch(res3[1], res3[2], o_v, o_c)
        require(msg is None, f"vario_estimate with missing values given as {how}: {msg}", dict(tags, kind="mismatch", api="vario_estimate", missing_as=how))
        if how == "no_data":
            # a constant mean shifts every value alike: the marked entries stay missing, the pair counts stay exactly the same
            res4 = lib(gs.vario_estimate, pos, enc, edges, estimator=_spell(est, case), return_counts=True, mean=2.5, _tags=dict(tags, missing_as=how), **kw)
            require(
                np.array_equal(np.asarray(res4[2]), np.asarray(res3[2])),
                f"vario_estimate(no_data=..., mean=2.5): pair counts {np.asarray(res4[2]).tolist()} differ from the counts without a mean {np.asarray(res3[2]).tolist()}",
                dict(tags, kind="mismatch", api="vario_estimate", missing_as="no_data+mean"),
            )
    _nontrivial(rec, case, n, info, False)


# ---------------------------------------------------------------------------
# lat-lon


LON_SPECIAL = [0.0, 180.0, -180.0, 360.0, -360.0, 540.0, -540.0, 720.0, -720.0, 90.0, -90.0, 179.99999999999997]
LAT_SPECIAL = [90.0, -90.0, 0.0, 89.99999999999999, -89.99999999999999, 45.0]


@st.composite
def gen_latlon(draw, tier="quick"):
    n = draw(_npoints(tier))
    local = draw(st.integers(0, 3)) == 0  # a small patch somewhere on the sphere
    if local:
        c_lat = draw(st.floats(-89, 89))
        c_lon = draw(st.floats(-700, 700))
        w = draw(logfloat(1e-3, 1.0))
        lat_s = st.floats(-1, 1).map(lambda t: min(90.0, max(-90.0, c_lat + w * t)))
        lon_s = st.floats(-1, 1).map(lambda t: c_lon + w * t)
    else:
        lat_s = st.one_of(st.floats(-90, 90), st.floats(-90, 90), st.sampled_from(LAT_SPECIAL))
        lon_s = st.one_of(st.floats(-720, 720), st.floats(-720, 720), st.sampled_from(LON_SPECIAL))
    pts = draw(st.lists(st.tuples(lat_s, lon_s), min_size=n, max_size=n))
    pts = [[float(a), float(b)] for a, b in pts]
    # derived points: duplicates, same place with lon +- 360, antipodes
    ops = draw(
        st.lists(
            st.tuples(st.integers(0, n - 1), st.integers(0, n - 1), st.sampled_from(["dup", "wrap", "anti", "anti"])),
            max_size=3,
        )
    )
    for a, b, op in ops:
        la, lo = pts[b]
        if op == "dup":
            pts[a] = [la, lo]
        elif op == "wrap":
            lo2 = lo + 360.0 if lo + 360.0 <= 720.0 else lo - 360.0
            pts[a] = [la, lo2]
        else:
            lo2 = lo + 180.0 if lo + 180.0 <= 720.0 else lo - 180.0
            pts[a] = [-la, lo2]
    pos = [[p[0] for p in pts], [p[1] for p in pts]]
    reach = (2.5 * math.radians(w)) if local else math.pi
    edges = draw(_edges_float(1.0, reach))
    if not local and draw(st.integers(0, 5)) == 0:
        edges = sorted(set(edges + [math.pi, 3.5]))
    return {
        "kind": "latlon_local" if local else "latlon",
        "dim": 2,
        "pos": pos,
        "fields": draw(_fields(n)),
        "edges": edges,
        "estimator": draw(st.sampled_from(["matheron", "cressie"])),
        "spelling": draw(st.sampled_from(["lower", "lower", "Capital", "UPPER", "mIxEd"])),
    }


def check_latlon(case, rec):
    pos = case["pos"]
    n = len(pos[0])
    est = case["estimator"]
    fields = _nanlist(case["fields"])
    edges = [float(e) for e in case["edges"]]
    tags = {"sub": "latlon", "dim": 2, "estimator": est, "pts": case["kind"], "distance": "haversine"}
    o_v, o_c, info = ov.unstructured(fields, edges, pos, est, "haversine")
    # ties: relative closeness, plus the ill-conditioning of the formula near the antipode
    tie = info["near_edge"] > 0
    for j in range(n - 1):
        if tie:
            break
        for k in range(j + 1, n):
            d, arg = ov.dist_haversine(pos, j, k)
            if arg > 0.5:
                m = 4e-16 / math.sqrt(max(1.0 - arg, 1e-16))
                if any(abs(d - e) <= m for e in edges):
                    tie = True
                    break
    if tie:
        rec.exclude("float_tie")
        return
    _common_labels(rec, case, info)
    if info["nan_dist"]:
        rec.label("antipodal_arg>1")
    if any(abs(a) == 90.0 for a in pos[0]):
        rec.label("pole")
    if any(abs(b) > 360.0 for b in pos[1]):
        rec.label("lon_beyond_360")
    f_np = np.array(fields, dtype=np.double).reshape(len(fields), n)
    p_np = np.array(pos, dtype=np.double).reshape(2, n)
    e_np = np.array(edges, dtype=np.double)
    calls = [
        ("kernel", lambda: kern.unstructured(f_np, e_np, p_np, EST[est], "h", 1)),
        (
            "vario_estimate",
            lambda: gs.vario_estimate(pos, fields, list(edges), estimator=_spell(est, case), latlon=True, return_counts=True)[1:],
        ),
    ]
    o_bad = None
    for api, fn in calls:
        lv, lc = lib(fn, _what=api, _tags=tags)
        msg, rel = _mismatch(lv, lc, o_v, o_c)
        if msg is None:
            rec.discrepancy("values", rel, VTOL)
            continue
        if info["nan_dist"]:
            if o_bad is None:
                o_bad = ov.unstructured(fields, edges, pos, est, "haversine", nan_dist_all_bins=True)
            if _mismatch(lv, lc, o_bad[0], o_bad[1])[0] is None:
                _finding(
                    rec,
                    case,
                    "haversine_antipodal_nan",
                    f"{api}: antipodal pair (haversine argument rounded above 1) is counted in every bin: {msg}",
                    dict(tags, kind="haversine_antipodal_nan", api=api),
                )
                continue
        raise Violation(f"{api} (great-circle): {msg}", tags=dict(tags, kind="mismatch", api=api))
    # default bins in another geographic unit: the same estimate, bin centres in that unit (geo_scale only names the unit of the bins)
    if not info["nan_dist"] and n >= 3:
        g = [gs.KM_SCALE, gs.DEGREE_SCALE, 2.5][(n + len(edges)) % 3]
        with common.quiet():
            r0 = lib(gs.vario_estimate, pos, fields, estimator=_spell(est, case), latlon=True, return_counts=True, _what="vario_estimate(default bins, radians)", _tags=tags)
            r1 = lib(gs.vario_estimate, pos, fields, estimator=_spell(est, case), latlon=True, geo_scale=g, return_counts=True, _what="vario_estimate(default bins, geo_scale)", _tags=tags)
        c0, c1 = np.asarray(r0[0], dtype=float), np.asarray(r1[0], dtype=float)
        if c0.size >= 1 and c0[-1] > 0:
            e0 = [0.0] + [float(2 * c0[0])] if c0.size == 1 else [0.0] + list(np.cumsum(np.full(c0.size, 2 * c0[0])))
            _o_v, _o_c, inf0 = ov.unstructured(fields, [float(e) for e in e0], pos, est, "haversine", exact_edges=False)
            arc = min(3.0 * float(e0[-1]), math.pi)  # diameter of the points' box as an arc (the cut-off is one third of it)
            if inf0["near_edge"]:
                rec.exclude("float_tie")
            elif 4e-16 / math.sqrt(max(1.0 - math.sin(arc / 2.0) ** 2, 1e-32)) > 1e-13 or arc < 1e-7:
                # chord -> arc is ill-conditioned when the box diameter comes close to the diameter of the sphere
                rec.exclude("default_bins_box_near_antipodal")
            else:
                rec.label("default_bins_geo_scale")
                # the box diameter is a difference of sphere coordinates of size 1: relative rounding eps / arc for small boxes
                same_c = c1.shape == c0.shape and bool(np.allclose(c1, g * c0, rtol=1e-12 + 4e-15 / arc, atol=0))
                same_n = np.shape(r1[2]) == np.shape(r0[2]) and bool(np.array_equal(np.asarray(r1[2]), np.asarray(r0[2])))
                same_v = np.shape(r1[1]) == np.shape(r0[1]) and bool(np.allclose(np.asarray(r1[1], dtype=float), np.asarray(r0[1], dtype=float), rtol=1e-10, atol=0, equal_nan=True))
                require(same_c and same_n and same_v,
                        f"default bins with geo_scale={g!r}: centres {c1.tolist()} / counts {np.asarray(r1[2]).tolist()} are not the radian result "
                        f"(centres {c0.tolist()} x geo_scale, counts {np.asarray(r0[2]).tolist()})",
                        dict(tags, kind="default_bins_unit"))
    _nontrivial(rec, case, n, info, False)


# ---------------------------------------------------------------------------
# directional


def _vec(dim, lattice):
    axis = st.tuples(st.integers(0, dim - 1), st.sampled_from([1.0, -1.0])).map(
        lambda t: [t[1] if i == t[0] else 0.0 for i in range(dim)]
    )
    ints = st.lists(st.integers(-2, 2), min_size=dim, max_size=dim).map(
        lambda v: [float(c) for c in v] if any(v) else [1.0] + [0.0] * (dim - 1)
    )

    @st.composite
    def flt(draw):
        v = draw(st.lists(st.floats(-1, 1, allow_subnormal=False), min_size=dim, max_size=dim))
        v[draw(st.integers(0, dim - 1))] = draw(st.sampled_from([1.0, -1.0]))
        return [float(c) for c in v]

    return st.one_of(axis, axis, ints, flt()) if lattice else st.one_of(axis, ints, flt(), flt())


def _orthogonal_set(dim):
    """Lists of mutually orthogonal direction vectors."""
    if dim == 2:
        sets = [[[1.0, 0.0], [0.0, 1.0]], [[1.0, 1.0], [1.0, -1.0]], [[2.0, 1.0], [-1.0, 2.0]]]
    else:
        sets = [
            [[1.0, 0.0, 0.0], [0.0, 1.0, 0.0], [0.0, 0.0, 1.0]],
            [[1.0, 1.0, 0.0], [1.0, -1.0, 0.0], [0.0, 0.0, 1.0]],
            [[1.0, 2.0, 2.0], [2.0, 1.0, -2.0], [2.0, -2.0, 1.0]],
        ]
    return st.sampled_from(sets)


TOL_SPECIAL = [math.pi / 8, math.pi / 4, math.pi / 2, math.pi / 3, math.pi / 6, 0.05]


@st.composite
def gen_dir(draw, tier="quick"):
    dim = draw(st.sampled_from([1, 2, 2, 2, 3, 3]))
    lat = draw(st.booleans())
    kind, scale, pos, line = draw(_points(dim, tier, LATTICE_KINDS if lat else FLOAT_KINDS))
    n = len(pos[0])
    if dim == 1:
        dirs = [[draw(st.sampled_from([1.0, -1.0]))]]
        mode = "single"
    else:
        mode = draw(st.sampled_from(["single", "free", "free", "ortho", "same"]))
        if mode == "single":
            dirs = [draw(_vec(dim, lat))]
        elif mode == "free":
            dirs = draw(st.lists(_vec(dim, lat), min_size=2, max_size=3))
        elif mode == "ortho":
            full = draw(_orthogonal_set(dim))
            k = draw(st.integers(2, len(full)))
            dirs = [list(v) for v in draw(st.permutations(full))[:k]]
        else:
            v = draw(_vec(dim, lat))
            sgn = draw(st.sampled_from([1.0, -1.0]))
            dirs = [v, [sgn * c + 0.0 for c in v]]
            if draw(st.booleans()):
                dirs.append(draw(_vec(dim, lat)))
    if dim > 1 and line is not None and draw(st.booleans()):
        dirs[draw(st.integers(0, len(dirs) - 1))] = list(line)  # look along the collinear set
    # tolerance: free, or placed relative to the smallest angle between the lines
    unit = ov.normalise(dirs)
    minang = math.inf
    for i in range(len(unit) - 1):
        for j in range(i + 1, len(unit)):
            minang = min(minang, ov.line_angle(unit[i], unit[j]))
    free_tol = st.one_of(
        st.floats(0.1, math.pi / 2),
        st.sampled_from(TOL_SPECIAL),
        st.floats(0.01, math.pi / 2),
        st.sampled_from(TOL_SPECIAL),
        logfloat(1e-3, 0.1),
        st.floats(0.3, math.pi / 2),
        # beyond a right angle every pair lies within the tolerance (no documented upper limit)
        st.sampled_from([1.6, 2.0, 0.75 * math.pi, math.pi, 4.0, 5.0, 2.0 * math.pi, 1e3, math.inf]),
    )
    how = draw(st.sampled_from(["free", "sep", "sep", "overlap"]))
    if len(dirs) < 2 or not (1e-3 < minang < math.inf) or how == "free":
        tol = draw(free_tol)
    elif how == "sep":
        tol = draw(st.floats(0.05, 0.999)) * minang / 2.0
    else:
        tol = min(math.pi / 2, draw(st.floats(1.001, 2.5)) * minang / 2.0)
    tol = float(max(tol, 1e-3)) if tol > math.pi / 2 else float(min(max(tol, 1e-3), math.pi / 2))
    # bandwidth
    if draw(st.booleans()):
        bw = None
    elif lat:
        bw = scale * draw(st.sampled_from([0.5, 1.0, 1.5, 2.0, 3.0, math.sqrt(2.0)]))
    else:
        bw = draw(logfloat(0.1, 1.5)) * _reach(pos)
    # wrapper gets rescaled (not normed) directions
    cs = [draw(st.one_of(st.just(1.0), logfloat(0.1, 10.0))) for _ in dirs]
    return {
        "kind": kind,
        "dim": dim,
        "pos": pos,
        "fields": draw(_fields(n)),
        "edges": draw(_edges_lattice(dim, scale)) if lat else draw(_edges_float(scale, _reach(pos))),
        "estimator": draw(st.sampled_from(["matheron", "cressie"])),
        "spelling": draw(st.sampled_from(["lower", "lower", "Capital", "UPPER", "mIxEd"])),
        "dirs": [[float(c) for c in v] for v in dirs],
        "dir_scale": [float(c) for c in cs],
        "dir_mode": mode,
        "tol": tol,
        "bandwidth": None if bw is None else float(bw),
    }


def _classify_dir(rec, case, api, lv, lc, o, o_alt, sep, nd, tags):
    """Compare a directional result with the definition; recognise the K2 pattern."""
    msg, rel = _mismatch(lv, lc, o[0], o[1])
    if msg is None:
        rec.discrepancy("values", rel, VTOL)
        return
    if nd >= 2 and sep and o_alt is not None and _mismatch(lv, lc, o_alt[0], o_alt[1])[0] is None:
        _finding(
            rec,
            case,
            "separated_dirs_zero_dist",
            f"{api}: with {nd} separated directions coincident pairs are only counted in the first "
            f"direction: {msg}",
            dict(tags, kind="separated_dirs_zero_dist", api=api),
        )
        return
    raise Violation(f"{api}: {msg}", tags=dict(tags, kind="mismatch", api=api))


def check_dir(case, rec):
    dim = case["dim"]
    pos = case["pos"]
    n = len(pos[0])
    est = case["estimator"]
    fields = _nanlist(case["fields"])
    edges = [float(e) for e in case["edges"]]
    dirs = case["dirs"]
    nd = len(dirs)
    tol = float(case["tol"])
    bw = case["bandwidth"]
    unit = ov.normalise(dirs)
    sep, margin = ov.separation(unit, tol)
    tags = {
        "sub": "directional",
        "dim": dim,
        "estimator": est,
        "pts": case["kind"],
        "ndirs": nd,
        "separated": bool(sep),
        "bandwidth": bw is not None,
    }
    o_v, o_c, info = ov.directional(fields, edges, pos, unit, tol, bw, est)
    if info["near_edge"] or info["near_angle"] or info["near_band"]:
        rec.exclude("float_tie")
        return
    _common_labels(rec, case, info)
    rec.label(f"dirs{nd}", "bandwidth" if bw is not None else "no_bandwidth")
    if nd >= 2:
        rec.label("separated" if sep else "overlapping")
    if info["perp_pairs"]:
        rec.label("perpendicular_pair")
    if info["band_edge"]:
        rec.label("pair_on_band_limit")
    if info["band_rejects"]:
        rec.label("band_rejects")
    if info["multi_dir_pairs"]:
        rec.label("pair_in_2_dirs")
    if tol == math.pi / 2:
        rec.label("tol_pi/2")
    # the defective pattern, for classification only
    o_alt = None
    if nd >= 2 and info["zero_pairs_binned"]:
        a_v, a_c, _ = ov.directional(fields, edges, pos, unit, tol, bw, est, zero_dist_first_only=True)
        if a_c != o_c:
            o_alt = (a_v, a_c)
            rec.label("K2_region" if sep else "coincident_multi_dir")
    o = (o_v, o_c)
    f_np = np.array(fields, dtype=np.double).reshape(len(fields), n)
    p_np = np.array(pos, dtype=np.double).reshape(dim, n)
    e_np = np.array(edges, dtype=np.double)
    d_np = np.array(unit, dtype=np.double).reshape(nd, dim)
    bw_k = -1.0 if bw is None else float(bw)
    # kernel, every direction tested for every pair
    kv, kc = lib(kern.directional, f_np, e_np, p_np, d_np, tol, bw_k, False, EST[est], 1, _tags=tags)
    _classify_dir(rec, case, "kernel(separate_dirs=False)", kv, kc, o, None, sep, nd, tags)
    # kernel with the early exit, legitimate only for disjoint cones
    if sep and nd >= 2:
        kv, kc = lib(kern.directional, f_np, e_np, p_np, d_np, tol, bw_k, True, EST[est], 1, _tags=tags)
        _classify_dir(rec, case, "kernel(separate_dirs=True)", kv, kc, o, o_alt, sep, nd, tags)
    # public wrapper with rescaled directions
    if dim >= 2:
        w_dirs = [[c * s for c in v] for v, s in zip(dirs, case["dir_scale"])]
        # the wrapper norms the rescaled vector; its unit vector may differ in the last bit
        unit_w = ov.normalise(w_dirs)
        if unit_w != unit:
            _, _, info_w = ov.directional(fields, edges, pos, unit_w, tol, bw, est)
            if info_w["near_angle"] or info_w["near_band"]:
                rec.exclude("float_tie")
                return
        arg_dirs = w_dirs[0] if (nd == 1 and case["dir_scale"][0] == 1.0) else w_dirs
        res = lib(
            gs.vario_estimate,
            pos,
            fields,
            list(edges),
            estimator=_spell(est, case),
            direction=arg_dirs,
            angles_tol=tol,
            bandwidth=bw,
            return_counts=True,
            _tags=tags,
        )
        require(len(res) == 3, "vario_estimate(return_counts=True) does not return 3 items", tags)
        require(
            np.array_equal(np.asarray(res[0]), np.array(_centers(edges))),
            "bin centers are not the edge mid points",
            dict(tags, kind="centers"),
        )
        want = o if nd > 1 else (o_v[0], o_c[0])
        # the wrapper decides "separated" on its own unit vectors: allow for rounding
        _classify_dir(rec, case, "vario_estimate", res[1], res[2], want, o_alt, margin >= -1e-9, nd, tags)
        # the same directions on a structured grid whose first axis repeats a coordinate (two tiles sharing a boundary column): the
        # grid nodes given as a point list are the reference (the point-list path is compared with the enumeration above)
        if dim in (2, 3) and (n + len(edges)) % 2 == 0:
            gax = [np.array([0.0, 1.0, 2.0, 2.0, 3.0]), np.array([0.0, 0.5, 1.5]), np.array([0.0, 1.0])][:dim]
            gpt = np.array(np.meshgrid(*gax, indexing="ij")).reshape(dim, -1)
            gfl = np.cos(1.7 * gpt[0] + 0.3) + 0.5 * np.sin(2.1 * gpt[1] + 0.1 * gpt[-1] ** 2)
            ged = [0.0, 0.75, 1.6, 2.4, 4.0]
            with common.quiet():
                rs_ = lib(gs.vario_estimate, [a.copy() for a in gax], gfl.reshape([a.size for a in gax]), ged, estimator=_spell(est, case), direction=arg_dirs,
                          angles_tol=tol, bandwidth=bw, mesh_type="structured", return_counts=True, _tags=tags)
                ru_ = lib(gs.vario_estimate, gpt.copy(), gfl.copy(), ged, estimator=_spell(est, case), direction=arg_dirs,
                          angles_tol=tol, bandwidth=bw, return_counts=True, _tags=tags)
            rec.label("structured_grid_with_repeated_coordinate")
            require(np.array_equal(np.asarray(rs_[2]), np.asarray(ru_[2])) and bool(np.allclose(np.asarray(rs_[1], dtype=float), np.asarray(ru_[1], dtype=float), rtol=1e-12, atol=0, equal_nan=True)),
                    f"structured grid with a repeated coordinate: counts {np.asarray(rs_[2]).tolist()} differ from the grid nodes given as a point list {np.asarray(ru_[2]).tolist()}",
                    dict(tags, kind="mismatch", api="vario_estimate", mesh="structured"))
        # the same directions through the documented `angles` keyword: azimuth from +x counter-clockwise (and polar angle from +z in 3-D)
        if dim in (2, 3) and case.get("use_angles", True):
            if dim == 2:
                ang = [math.atan2(u[1], u[0]) for u in unit]
                back = [[math.cos(a), math.sin(a)] for a in ang]
            else:
                ang = [[math.atan2(u[1], u[0]), math.acos(max(-1.0, min(1.0, u[2])))] for u in unit]
                back = [[math.cos(a) * math.sin(t), math.sin(a) * math.sin(t), math.cos(t)] for a, t in ang]
            _, _, info_a = ov.directional(fields, edges, pos, back, tol, bw, est)
            if not (info_a["near_angle"] or info_a["near_band"]):
                o_av, o_ac, _ = ov.directional(fields, edges, pos, back, tol, bw, est)
                res_a = lib(gs.vario_estimate, pos, fields, list(edges), estimator=_spell(est, case), angles=ang if nd > 1 else ang[0],
                            angles_tol=tol, bandwidth=bw, return_counts=True, _tags=dict(tags, api="angles"))
                rec.label("angles_keyword")
                want_a = (o_av, o_ac) if nd > 1 else (o_av[0], o_ac[0])
                alt_a = None
                if o_alt is not None:
                    a_v2, a_c2, _ = ov.directional(fields, edges, pos, back, tol, bw, est, zero_dist_first_only=True)
                    alt_a = (a_v2, a_c2)
                _classify_dir(rec, case, "vario_estimate(angles=)", res_a[1], res_a[2], want_a, alt_a, margin >= -1e-9, nd, tags)
    _nontrivial(rec, case, n, info, True)


# ---------------------------------------------------------------------------
# along-axis estimator on regular grids


@st.composite
def gen_axis(draw, tier="quick"):
    nd = draw(st.sampled_from([1, 2, 2, 3, 3]))
    caps = [12, 9, 5]
    perm = draw(st.permutations(caps))
    shape = [draw(st.integers(1, perm[a])) for a in range(nd)]
    axis = draw(st.integers(0, nd - 1))
    if draw(st.integers(0, 3)) > 0:
        shape[axis] = max(shape[axis], draw(st.integers(2, perm[axis])))
    size = 1
    for s in shape:
        size *= s
    val = st.one_of(st.floats(-100, 100, allow_subnormal=False), st.integers(-4, 4).map(float))
    int_raster = draw(st.integers(0, 3)) == 0
    if int_raster:
        # an integer raster (class codes, counts): handed over with an integer dtype, missing cells as a sentinel value
        val = st.integers(-4, 9).map(float)
    flat = draw(st.lists(val, min_size=size, max_size=size))
    mode = draw(st.sampled_from(["plain", "mask", "nan", "mask+nan", "nomask_ma"]))
    mask = None
    nan = None
    flag = st.integers(0, 4).map(lambda v: v == 0)
    if "mask" in mode and mode != "nomask_ma":
        mask = draw(st.lists(flag, min_size=size, max_size=size))
        if draw(st.integers(0, 5)) == 0:
            # a whole slice masked: lags without any pair
            k = draw(st.integers(0, shape[axis] - 1))
            stride = 1
            for s in shape[axis + 1 :]:
                stride *= s
            mask = [bool(m or (i // stride) % shape[axis] == k) for i, m in enumerate(mask)]
    if "nan" in mode:
        nan = draw(st.lists(flag, min_size=size, max_size=size))
    return {
        "shape": shape,
        "axis": axis,
        "axis_as": draw(st.sampled_from(["int", "str"])),
        "flat": flat,
        "mode": mode,
        "mask": mask,
        "nan": nan,
        "estimator": draw(st.sampled_from(["matheron", "cressie"])),
        "spelling": draw(st.sampled_from(["lower", "lower", "Capital", "UPPER", "mIxEd"])),
        "int_raster": draw(st.sampled_from(["int32", "int64", "nested_list"])) if int_raster else None,
    }


def check_axis(case, rec):
    shape = [int(s) for s in case["shape"]]
    nd = len(shape)
    axis = int(case["axis"])
    est = case["estimator"]
    mode = case["mode"]
    size = int(np.prod(shape))
    flat = [float(v) for v in case["flat"]]
    mask = [bool(m) for m in case["mask"]] if case["mask"] is not None else None
    nan = [bool(m) for m in case["nan"]] if case["nan"] is not None else None
    tags = {"sub": "axis", "dim": nd, "estimator": est, "mode": mode, "axis": axis}
    rec.label(f"grid{nd}d", f"axis{axis}", "axis_as_" + case["axis_as"], "grid_" + mode, est)
    # missing = masked or NaN
    miss = None
    if mask is not None or nan is not None:
        miss = [bool((mask and mask[i]) or (nan and nan[i])) for i in range(size)]
    o_v, o_c = ov.axis_estimate(flat, shape, axis, est, miss)
    na = shape[axis]
    # --- kernels on the (axis, columns) layout --------------------------------
    arr = np.array(flat, dtype=np.double).reshape(shape)
    f2 = np.ascontiguousarray(np.moveaxis(arr, axis, 0).reshape(na, -1))
    if miss is None:
        kv = lib(kern.structured, f2, EST[est], 1, _tags=tags)
        msg, rel = _mismatch(kv, None, o_v, None)
        rec.discrepancy("values", rel if msg is None else 0.0, VTOL)
        require(msg is None, f"estimator.structured: {msg}", dict(tags, kind="mismatch", api="kernel"))
    m2 = np.zeros(f2.shape, dtype=bool)
    if miss is not None:
        m2 = np.ascontiguousarray(np.moveaxis(np.array(miss, dtype=bool).reshape(shape), axis, 0).reshape(na, -1))
    f2m = f2.copy()
    f2m[m2] = np.nan  # masked entries must not be read
    kv = lib(kern.ma_structured, f2m, m2.astype(np.uint8), EST[est], 1, _tags=tags)
    msg, rel = _mismatch(kv, None, o_v, None)
    rec.discrepancy("values", rel if msg is None else 0.0, VTOL)
    require(msg is None, f"estimator.ma_structured: {msg}", dict(tags, kind="mismatch", api="kernel_masked"))
    # --- public wrapper ---------------------------------------------------------
    data = arr.copy()
    if nan is not None:
        data[np.array(nan, dtype=bool).reshape(shape)] = np.nan
    if mask is not None:
        fld = np.ma.array(data, mask=np.array(mask, dtype=bool).reshape(shape))
    elif mode == "nomask_ma":
        fld = np.ma.array(data)
    else:
        fld = data
    direction = axis if case["axis_as"] == "int" else "xyz"[axis]
    wv = lib(gs.vario_estimate_axis, fld, direction, _spell(est, case), _tags=tags)
    msg, rel = _mismatch(wv, None, o_v, None)
    require(msg is None, f"vario_estimate_axis: {msg}", dict(tags, kind="mismatch", api="vario_estimate_axis"))
    if case.get("int_raster"):
        sent = -9999
        ints = np.array(flat, dtype=np.int64).reshape(shape)
        if nan is not None:
            ints[np.array(nan, dtype=bool).reshape(shape)] = sent
        how = case["int_raster"]
        if how == "nested_list" and mask is None:
            arg = ints.tolist()
        else:
            arg = ints.astype(np.int32 if how == "int32" else np.int64)
            if mask is not None:
                arg = np.ma.array(arg, mask=np.array(mask, dtype=bool).reshape(shape))
        rec.label("integer_raster_" + how + ("_sentinel" if nan is not None and any(nan) else ""))
        wi = lib(gs.vario_estimate_axis, arg, direction, _spell(est, case), no_data=sent, _tags=tags)
        msg, rel = _mismatch(wi, None, o_v, None)
        require(msg is None, f"vario_estimate_axis on an integer raster ({how}) with no_data={sent}: {msg}", dict(tags, kind="mismatch", api="vario_estimate_axis", dtype=how))
    nonempty = sum(1 for c in o_c if c > 0)
    if nonempty < na - 1:
        rec.label("lag_without_pairs")
    if miss is not None and any(miss):
        rec.label("missing_values")
    rec.nontrivial(size >= 4 and nonempty >= 2)


# quick: ~35 s on 16 cores; thorough: ~8 min on 16 idle cores.  A shard that
# runs out of its budget (machine shared with other runs) stops as inconclusive.
_B = dict(budget_quick=100.0, budget_thorough=840.0)
SUBS = [
    Sub("iso", gen_iso, check_iso, quick=4000, thorough=45000, shards_quick=4, shards_thorough=4, **_B),
    Sub("latlon", gen_latlon, check_latlon, quick=2000, thorough=22000, shards_quick=2, shards_thorough=3, **_B),
    Sub("directional", gen_dir, check_dir, quick=7000, thorough=80000, shards_quick=7, shards_thorough=7, **_B),
    Sub("axis", gen_axis, check_axis, quick=2400, thorough=18000, shards_quick=3, shards_thorough=2, **_B),
]

"""C17 - Fourier-generated fields are exactly periodic."""

import copy
import math

import numpy as np
from hypothesis import strategies as st

import common
from common import Sub, Violation, lib, require, quiet
import gens
from gens import build_model, logfloat
from oracles import geometry as geo

import gstools as gs

ID = "C17"
LEVEL = "exploration"
RULE = (
    "inputs: Hypothesis draws (dim 1-3, class with analytic spectrum or Stable/Cubic with few modes, variance, anisotropy ratios, "
    "rotation angles, per-axis periods log-uniform and unequal in scalar / short-list / full-list form, even mode counts 2-32 per axis "
    "in the same forms, seed, 1-4 off-grid points within +-3 periods along every main axis; correlation length a drawn fraction of "
    "the smallest period so that the field varies). For every main axis i and m in {+-1,+-2,5}: f(x) == f(x + m L_i a_i), a_i = "
    "R e_i from the independent rotation oracle; the mode table must be the documented grid {-n_i/2..n_i/2-1} * 2pi/L_i*anis_i; an "
    "odd mode count must raise ValueError. history: generated op lists on one SRF(generator='Fourier') (period / mode_no setters, "
    "generator.update with every combination of model {none,same,equal copy,changed in place,new object} x seed {keep,same,new} x "
    "period x mode_no, in-place anis/angles/len_scale/var change, model re-assignment, seed via call / setter, rejected odd mode "
    "counts); after every op the arrays of the generator must agree in length and the periodicity and grid checks run for the "
    "*current* period, mode counts and model axes kept in a reference model. Non-trivial: |f(x) - f(x + 0.37 L_i a_i)| above "
    "tolerance for every main axis (history: in at least one check, and >= 1 state changing op); distinct by hash of the rounded case."
)
ASSUMPTIONS = [
    "main axes are the columns of the documented rotation matrix R = Rx(roll) Ry(pitch) Rz(yaw) (oracles/geometry.py, checked against the library in C12)",
    "period / mode_no given as a scalar or a list shorter than dim are filled with the last entry (docstring of Fourier._fill_to_dim)",
    "nugget = 0: nugget noise is drawn per point and is not part of the periodic signal",
    "in-place model changes are >= 5 % (or >= 0.1 rad): changes inside numpy.isclose's window are the known finding K7 of C11",
]

# ---------------------------------------------------------------------------
# findings on the unchanged tree (see the final report of the C17 agent).  While a
# switch is True the region is skipped (counted with rec.exclude) so that the
# search goes on; a case carrying "probe": true bypasses the switch.
KNOWN = {
    # Fourier._set_modes builds the axis with np.arange(-n/2*dk, n/2*dk, dk); float
    # rounding of the end point yields n+1 wave numbers for ~4 % of (period, anis, n)
    # (e.g. period=1.0, mode_no=26 -> 27 modes).  The stored odd count is re-used by the
    # next period / model change (SRF(Gaussian(dim=1, len_scale=.1), generator="Fourier",
    # period=1., mode_no=26); srf.model.len_scale = .2) and then gives half-integer
    # multiples of dk: f(x + L) = -f(x), the field is no longer periodic (tags kind="mode_count").
    # Histories stop at the first state with a surplus mode; fresh objects are still checked
    # for periodicity with the n+1 grid.
    # (fixed in /repo by f30751d: switch off, assertion live)
    "arange_extra_mode": False,
    # update(period=new, mode_no=<odd>) raises ValueError after the new period and
    # wave number spacing have been stored: generator.period reports the new period
    # while the field keeps the old one (tags kind="rejected_update_half_applied").
    # (fixed in /repo by 40ae5dd: switch off, assertion live)
    "rejected_update_half_applied": False,
    # Numerical (Hankel transform) spectral densities become negative for rough models
    # (Stable with alpha <~ 0.7: spectrum(2 pi) < 0), sqrt gives NaN amplitudes and the whole
    # Fourier field is NaN.  A matter of spectrum accuracy (C04 / C01), not of periodicity:
    # Stable is drawn with alpha >= 0.8 and a NaN amplitude table of a Hankel class is skipped
    # (tags kind="nonfinite_field").
    "hankel_negative_spectrum": True,
}


def _known(key, case):
    return KNOWN.get(key, False) and not case.get("probe")


ANALYTIC = ["Gaussian", "Exponential", "Matern", "Integral", "TPLGaussian", "TPLExponential", "JBessel", "HyperSpherical"]
HANKEL = ["Stable", "Cubic"]
SHIFTS = [1, -1, 2, -2, 5]
FRAC = 0.37


# ---------------------------------------------------------------------------
# reference model (documented semantics, no gstools code)


def fill(values, dim):
    """Scalar or list -> per-axis array; shorter lists are filled with the last entry."""
    v = [float(x) for x in np.atleast_1d(np.asarray(values, dtype=float))][:dim]
    return np.array(v + [v[-1]] * (dim - len(v)), dtype=float)


def stretch(dim, anis):
    return np.concatenate(([1.0], geo.pad_anis(dim, anis))) if dim > 1 else np.array([1.0])


def delta_k(dim, period, anis):
    """Documented spacing of the wave number grid in isotropic coordinates."""
    return 2.0 * math.pi / np.asarray(period, dtype=float) * stretch(dim, anis)


class Ref:
    """Current settings of the SRF under test as the user sees them."""

    def __init__(self, spec, period, modes, seed):
        self.spec = copy.deepcopy(spec)
        self.dim = spec["dim"]
        self.period = fill(period, self.dim)
        self.modes = [int(m) for m in fill(modes, self.dim)]
        self.seed = seed

    @property
    def anis(self):
        return self.spec["anis"] if self.dim > 1 else [1.0]

    @property
    def angles(self):
        return self.spec["angles"] if self.dim > 1 else [0.0]

    def rotation(self):
        return geo.rotation(self.dim, self.angles)

    def dk(self):
        return delta_k(self.dim, self.period, self.anis)


# ---------------------------------------------------------------------------
# strategies


def _form_label(v, dim):
    if not isinstance(v, list):
        return "scalar"
    if len(v) == dim:
        return "full"
    return "short"


@st.composite
def per_axis(draw, dim, elem):
    """A per-axis quantity as the user may write it: scalar, short list, full list."""
    k = draw(st.sampled_from([0] + list(range(1, dim + 1)) + [dim, dim]))
    if k == 0:
        return draw(elem)
    return draw(st.lists(elem, min_size=k, max_size=k))


def even_counts(hi):
    ev = list(range(2, hi + 1, 2))
    return st.one_of(st.sampled_from(ev), st.sampled_from([2, 4, 6, 8, 10, 12, 16]).filter(lambda n: n <= hi))


def periods(dim, base):
    return per_axis(dim, logfloat(0.2, 5.0).map(lambda f: float(base * f)))


def _mode_cap(cls, dim, history):
    if cls in HANKEL:
        return {1: 8, 2: 8, 3: 6}[dim]
    if history:
        return {1: 32, 2: 16, 3: 10}[dim]
    return 32 if dim < 4 else 6


def _with_odd(draw, dim, cap):
    """A mode_no argument with at least one odd entry."""
    form = draw(per_axis(dim, even_counts(cap)))
    odd = draw(st.integers(0, cap // 2)) * 2 + 1
    if not isinstance(form, list):
        return odd
    j = draw(st.integers(0, len(form) - 1))
    form = list(form)
    form[j] = odd
    return form


@st.composite
def _setup(draw, tier, history=False):
    cls = draw(st.sampled_from(ANALYTIC * 2 + HANKEL))
    dims = (1, 2, 3)
    if not history and cls in ("Gaussian", "Exponential", "Matern", "Integral") and draw(st.integers(0, 5)) == 0:
        dims = (4,)  # x, y, z, t models have internal dimension 4 (six rotation angles)
    spec = draw(
        gens.model_specs(
            classes=[cls], dims=dims, mode="accuracy", nugget=False, rescale=True, var_range=(1e-2, 1e2), scale_range=(1e-2, 1e2)
        )
    )
    dim = spec["dim"]
    if dim > 1 and draw(st.floats(0, 1)) < 0.6:
        # anisotropy and rotation most of the time
        spec["anis"] = draw(st.lists(logfloat(0.1, 10.0), min_size=dim - 1, max_size=dim - 1))
        spec["angles"] = draw(
            st.lists(
                st.one_of(st.floats(-2 * math.pi, 2 * math.pi), st.sampled_from([0.0, math.pi / 2, -math.pi / 2, math.pi, 0.3])),
                min_size=geo.n_angles(dim),
                max_size=geo.n_angles(dim),
            )
        )
    if cls == "JBessel":
        # integrable spectral density needs nu >= dim/2 (default nu = dim/2)
        spec["opt"] = draw(st.one_of(st.just({}), st.just({"nu": dim / 2}), st.floats(dim / 2, dim / 2 + 4.0).map(lambda v: {"nu": float(v)})))
    if cls == "Stable" and KNOWN["hankel_negative_spectrum"]:
        spec["opt"] = draw(st.one_of(st.just({}), st.floats(0.8, 2.0).map(lambda v: {"alpha": float(v)})))
    # unit of length: mostly O(1); now and then micro / nano scale coordinates (periods and length scales of 1e-6 ... 1e-8)
    base = draw(st.one_of(logfloat(0.05, 500.0), logfloat(0.05, 500.0), logfloat(0.05, 500.0), st.sampled_from([2e-6, 5e-7, 3e-5])))
    period = draw(periods(dim, base))
    cap = _mode_cap(cls, dim, history)
    modes = draw(per_axis(dim, even_counts(cap)))
    # correlation length relative to the finest spacing of the wave number grid,
    # otherwise only the k = 0 mode has weight and the field is constant
    lam = float(np.min(fill(period, dim) / stretch(dim, spec["anis"])))
    if draw(st.floats(0, 1)) < 0.9:
        rho = draw(logfloat(0.01, 0.12)) if cls == "JBessel" else draw(logfloat(0.02, 1.0))
        spec["len_scale"] = float(rho * lam * (spec.get("rescale") or 1.0))
    else:
        spec["len_scale"] = float(draw(logfloat(1e-3, 30.0)) * lam)
    if "len_low" in spec["opt"]:
        # TPL models: the upper cut-off is len_low + len_scale; keep it comparable to len_scale
        spec["opt"]["len_low"] = float(spec["len_scale"] * draw(st.one_of(st.just(0.0), logfloat(0.01, 3.0))))
    seed = draw(st.one_of(st.integers(0, 300), st.integers(0, 2**32 - 1)))
    n = draw(st.integers(1, 4 if not history else 2))
    u = draw(
        st.lists(
            st.lists(st.one_of(st.floats(-3, 3), st.sampled_from([0.0, 0.5, -1.0, 2.999])), min_size=n, max_size=n),
            min_size=dim,
            max_size=dim,
        )
    )
    return {"spec": spec, "period": period, "mode_no": modes, "seed": seed, "u": u, "base": base}


@st.composite
def gen_inputs(draw, tier="quick"):
    case = draw(_setup(tier))
    spec = case["spec"]
    case["odd"] = _with_odd(draw, spec["dim"], _mode_cap(spec["cls"], spec["dim"], False))
    return case


PARAMS_1D = ["len_scale", "var"]
PARAMS_ND = ["anis", "anis", "angles", "len_scale", "var"]


@st.composite
def _param(draw, dim):
    name = draw(st.sampled_from(PARAMS_ND if dim > 1 else PARAMS_1D))
    op = {"name": name, "idx": draw(st.integers(0, 2))}
    if name == "angles":
        op["factor"] = draw(st.one_of(st.floats(0.1, 3.0), st.floats(-3.0, -0.1), st.sampled_from([math.pi / 2, math.pi])))
    else:
        op["factor"] = draw(st.one_of(logfloat(1.05, 4.0), logfloat(0.25, 0.95), st.sampled_from([2.0, 0.5, 3.0])))
    return op


@st.composite
def _new_model(draw, dim):
    out = {"len_factor": draw(st.one_of(st.just(1.0), logfloat(0.5, 2.0)))}
    if dim > 1:
        out["anis"] = draw(st.lists(logfloat(0.1, 10.0), min_size=dim - 1, max_size=dim - 1))
        out["angles"] = draw(st.lists(st.floats(-math.pi, math.pi), min_size=geo.n_angles(dim), max_size=geo.n_angles(dim)))
    else:
        out["len_factor"] = draw(st.one_of(logfloat(1.1, 2.0), logfloat(0.5, 0.9)))
    return out


@st.composite
def gen_history(draw, tier="quick"):
    case = draw(_setup(tier, history=True))
    spec = case["spec"]
    dim = spec["dim"]
    base = case["base"]
    cap = _mode_cap(spec["cls"], dim, True)
    kinds = [
        "period", "period", "modes", "modes", "update", "update", "update", "update",
        "param", "param", "reassign", "call_seed", "seed_setter", "odd_modes",
    ]  # fmt: skip
    nops = draw(st.integers(1, 6 if tier == "quick" else 12))
    ops = []
    for _ in range(nops):
        k = draw(st.sampled_from(kinds))
        op = {"op": k}
        if k == "period":
            op["v"] = draw(periods(dim, base))
        elif k == "modes":
            op["v"] = draw(per_axis(dim, even_counts(cap)))
        elif k == "odd_modes":
            op["v"] = _with_odd(draw, dim, cap)
        elif k == "param":
            op.update(draw(_param(dim)))
        elif k == "reassign":
            op["how"] = draw(st.sampled_from(["copy", "new", "new"]))
            if op["how"] == "new":
                op["new"] = draw(_new_model(dim))
        elif k in ("call_seed", "seed_setter"):
            op["seed"] = draw(st.one_of(st.integers(0, 300), st.integers(257, 2**32 - 1)))
        elif k == "update":
            op["model"] = draw(st.sampled_from(["none", "same", "copy", "inplace", "inplace", "new"]))
            if op["model"] == "inplace":
                op["param"] = draw(_param(dim))
            elif op["model"] == "new":
                op["new"] = draw(_new_model(dim))
            op["seed"] = draw(st.one_of(st.none(), st.just("same"), st.integers(0, 300)))
            op["period"] = draw(st.one_of(st.none(), periods(dim, base)))
            op["modes"] = draw(st.one_of(st.none(), per_axis(dim, even_counts(cap))))
            if op["modes"] is not None and draw(st.floats(0, 1)) < 0.12:
                op["modes"] = _with_odd(draw, dim, cap)
                op["odd"] = True
            if op["model"] == "none" and op["seed"] is None and op["period"] is None and op["modes"] is None:
                op["seed"] = "same"  # update() without any argument is refused by the library
        ops.append(op)
    case["ops"] = ops
    return case


# ---------------------------------------------------------------------------
# the checks shared by both sub-checks


def _consistent(gen, dim, tags, where):
    """The arrays handed to the summation kernel must agree in length."""
    modes = np.asarray(gen._modes)
    n = modes.shape[1] if modes.ndim == 2 else -1
    lens = {
        "modes": tuple(modes.shape),
        "z_1": len(gen._z_1),
        "z_2": len(gen._z_2),
        "spectrum_factor": len(gen._spectrum_factor),
        "prod(mode_no)": int(np.prod(gen.mode_no)),
        "period": len(np.atleast_1d(gen.period)),
        "delta_k": len(np.atleast_1d(gen._delta_k)),
    }
    ok = (
        modes.ndim == 2
        and modes.shape[0] == dim
        and lens["z_1"] == n
        and lens["z_2"] == n
        and lens["spectrum_factor"] == n
        and lens["prod(mode_no)"] == n
        and lens["period"] == dim
        and lens["delta_k"] == dim
        and len(gen.mode_no) == dim
    )
    require(
        ok,
        f"{where}: arrays of the Fourier generator are inconsistent ({lens}, dim {dim}): the kernel would read out of bounds",
        dict(tags, kind="inconsistent_arrays"),
    )


def _mode_counts(gen, ref, case, rec, tags, where):
    """Reported mode counts == requested ones. Returns False inside the known np.arange region."""
    got = [int(m) for m in gen.mode_no]
    if got == ref.modes:
        return True
    extra = all(0 <= g - w <= 2 for g, w in zip(got, ref.modes)) and len(got) == len(ref.modes)
    if extra and _known("arange_extra_mode", case):
        rec.exclude("arange_extra_mode")
        return False
    raise Violation(
        f"{where}: generator.mode_no = {got}, requested {ref.modes} (period {ref.period.tolist()}, anis {list(ref.anis)})",
        dict(tags, kind="mode_count" if extra else "mode_count_other"),
    )


def _grid(gen, ref, rec, tags, where, exact_counts):
    """Every wave number is an integer multiple of 2 pi / L_i * anis_i; the table is the full documented grid."""
    dim = ref.dim
    modes = np.asarray(gen.modes, dtype=float)
    dk = ref.dk()
    q = modes / dk[:, None]
    r = np.rint(q)
    # np.arange accumulates start + j*step: a few ulp of the largest multiple
    err = float(np.max(np.abs(q - r) / (1.0 + np.abs(r))))
    rec.discrepancy("grid_multiple", err, 1e-9)
    require(
        err <= 1e-9,
        f"{where}: wave numbers are not integer multiples of 2 pi/period*anis = {dk.tolist()} "
        f"(worst deviation {err:.3g} of a multiple; first column {modes[:, 0].tolist()})",
        dict(tags, kind="mode_grid"),
    )
    for i in range(dim):
        have = sorted(set(int(v) for v in r[i]))
        n = ref.modes[i]
        want = list(range(-n // 2, n // 2))
        if not exact_counts and have == want + [n // 2]:
            continue  # known np.arange region (already counted)
        require(
            have == want,
            f"{where}: axis {i}: multiples of dk present {have[:4]}..{have[-2:]} ({len(have)}), documented grid -n/2..n/2-1 with n={n}",
            dict(tags, kind="mode_grid", axis=i),
        )
    cols = set(tuple(int(v) for v in c) for c in r.T)
    require(
        len(cols) == modes.shape[1],
        f"{where}: mode table holds repeated wave numbers ({modes.shape[1]} columns, {len(cols)} distinct)",
        dict(tags, kind="mode_grid"),
    )
    L = np.atleast_1d(np.asarray(gen.period, dtype=float))
    require(
        L.shape == ref.period.shape and bool(np.all(np.abs(L - ref.period) <= 1e-14 * ref.period)),
        f"{where}: generator.period = {L.tolist()}, current setting {ref.period.tolist()}",
        dict(tags, kind="period_report"),
    )


def _periodic(srf, ref, case, rec, tags, where, seed=None):
    """f(x) == f(x + m L_i a_i) for all main axes; returns True if the field varies along every axis."""
    dim = ref.dim
    R = ref.rotation()
    L = ref.period
    U = np.array(case["u"], dtype=float).reshape(dim, -1)
    P = R @ (U * L[:, None])
    n = P.shape[1]
    blocks = [P]
    keys = []
    for i in range(dim):
        for m in SHIFTS + [FRAC]:
            blocks.append(P + (m * L[i]) * R[:, i : i + 1])
            keys.append((i, m))
    pos = np.concatenate(blocks, axis=1)
    last = getattr(srf, "_verif_last_pos", None)
    args = (pos,)
    if last is not None and last.shape == pos.shape and bool(np.array_equal(last, pos)):
        # the very same points as in the previous request (e.g. only the anisotropy ratios changed in between): rely on the stored positions
        args = ()
        rec.label("call_on_stored_positions")
    if seed is None:
        f = lib(srf, *args, _what="SRF call", _tags=tags)
    else:
        f = lib(srf, *args, seed=seed, _what="SRF call", _tags=tags)
    try:
        srf._verif_last_pos = pos.copy()
    except Exception:  # noqa: BLE001
        pass
    f = np.asarray(f, dtype=float).reshape(-1)
    require(f.shape[0] == pos.shape[1], f"{where}: field has {f.shape[0]} values for {pos.shape[1]} points", dict(tags, kind="shape"))
    if not np.all(np.isfinite(f)):
        if (
            ref.spec["cls"] in HANKEL
            and not np.all(np.isfinite(srf.generator._spectrum_factor))
            and _known("hankel_negative_spectrum", case)
        ):
            rec.exclude("hankel_negative_spectrum")
            return None
        raise Violation(f"{where}: field is not finite", dict(tags, kind="nonfinite_field"))
    # Tolerance.  Mathematically the phases <k_j, x_iso> at x and x + m L_i a_i differ by 2 pi * integer.
    # In floating point the wave numbers (multiples of dk), the shifted position and its isometrisation carry
    # a few ulp, so each phase is off by ~ eps |k| |x_iso|; the error of the sum is at most
    # |grad f| * |dx| ~ sqrt(var) |k|max * few eps |x_iso|  ->  the conditioning term 1e-9 * 1e-6 |k|max |x| (4.5 eps),
    # on top of a flat rounding level 1e-9 relative to the field's standard deviation.
    M = geo.iso_matrix(dim, ref.angles, ref.anis)
    xmax = float(np.max(np.linalg.norm(M @ pos, axis=0)))
    kmax = float(np.linalg.norm(np.array(ref.modes) / 2.0 * ref.dk()))
    sd = math.sqrt(ref.spec["var"])
    # The field is a sum of N waves with amplitudes c_j = spectrum_factor_j * (z1_j, z2_j); rounding acts relative to
    # |c|_2, which exceeds sqrt(var) when the correlation length is larger than the period (the k = 0 cell alone then
    # carries S(0) dk^d >> var).  The scale is therefore max(sqrt(var), |c|_2), the latter read from the generator.
    gen = srf.generator
    amp = float(np.sqrt(np.sum(np.asarray(gen._spectrum_factor) ** 2 * (np.asarray(gen._z_1) ** 2 + np.asarray(gen._z_2) ** 2))))
    scale = max(sd, amp) if np.isfinite(amp) else sd
    tol = 1e-9 * scale * (1.0 + kmax * xmax * 1e-6)
    f0 = f[:n]
    varies = []
    for b, (i, m) in enumerate(keys):
        fb = f[(b + 1) * n : (b + 2) * n]
        d = float(np.max(np.abs(fb - f0)))
        if m == FRAC:
            varies.append(d > tol)
            continue
        rec.discrepancy("periodic", d, tol)
        require(
            d <= tol,
            f"{where}: field not periodic along main axis {i}: |f(x) - f(x + {m}*L_{i}*a_{i})| = {d:.3g} > {tol:.3g} "
            f"(L = {L.tolist()}, a_{i} = {R[:, i].tolist()}, mode_no {ref.modes}, anis {list(ref.anis)}, field scale {scale:.3g})",
            dict(tags, kind="not_periodic", axis=i, m=m),
        )
    return all(varies)


def _evaluate(srf, ref, case, rec, tags, where, seed=None, history=False):
    """All invariants for the current settings. Returns (varies, go_on)."""
    gen = srf.generator
    dim = ref.dim
    _consistent(gen, dim, tags, where + " (before call)")
    if (
        ref.spec["cls"] in HANKEL
        and not np.all(np.isfinite(gen._spectrum_factor))
        and _known("hankel_negative_spectrum", case)
    ):
        rec.exclude("hankel_negative_spectrum")
        return False, False
    if not _mode_counts(gen, ref, case, rec, tags, where + " (before call)") and history:
        return False, False
    with quiet():
        varies = _periodic(srf, ref, case, rec, tags, where, seed=seed)
    if varies is None:
        return False, False
    _consistent(gen, dim, tags, where + " (after call)")
    exact = _mode_counts(gen, ref, case, rec, tags, where)
    if not exact and history:
        return False, False
    _grid(gen, ref, rec, tags, where, exact)
    return varies, True


def _expect_odd_refused(fn, what, tags):
    try:
        with quiet():
            fn()
    except ValueError:
        return
    except Exception as e:  # noqa: BLE001
        raise Violation(f"{what}: raised {type(e).__name__} instead of ValueError: {e}", dict(tags, kind="odd_mode_no")) from e
    raise Violation(f"{what}: odd mode_no accepted", dict(tags, kind="odd_mode_no"))


def _labels(case, ref, rec):
    spec = case["spec"]
    dim = spec["dim"]
    rec.label(spec["cls"], f"dim{dim}", "period_" + _form_label(case["period"], dim), "modes_" + _form_label(case["mode_no"], dim))
    if dim > 1:
        rec.label("aniso" if any(abs(a - 1) > 1e-9 for a in spec["anis"]) else "iso")
        rec.label("rotated" if any(abs(math.sin(2 * a)) > 1e-6 for a in spec["angles"]) else "axis_aligned")
        rec.label("unequal_periods" if len(set(ref.period.tolist())) > 1 else "equal_periods")
        rec.label("unequal_modes" if len(set(ref.modes)) > 1 else "equal_modes")
    rec.label("modes_total_" + ("le64" if np.prod(ref.modes) <= 64 else "le4096" if np.prod(ref.modes) <= 4096 else "gt4096"))


# ---------------------------------------------------------------------------
# inputs


def check_inputs(case, rec):
    spec = case["spec"]
    dim = spec["dim"]
    tags = dict(gens.spec_tags(spec), sub="inputs")
    ref = Ref(spec, case["period"], case["mode_no"], case["seed"])
    _labels(case, ref, rec)
    model = lib(build_model, spec, _what="model construction", _tags=tags)
    srf = lib(
        gs.SRF, model, generator="Fourier", period=case["period"], mode_no=case["mode_no"], seed=case["seed"],
        _what="SRF(generator='Fourier')", _tags=tags,
    )  # fmt: skip
    varies, _ = _evaluate(srf, ref, case, rec, tags, "fresh SRF")
    rec.label("varies" if varies else "flat_axis")
    # odd mode counts are refused
    if case.get("odd") is not None:
        _expect_odd_refused(
            lambda: gs.SRF(build_model(spec), generator="Fourier", period=case["period"], mode_no=case["odd"], seed=case["seed"]),
            f"SRF(generator='Fourier', mode_no={case['odd']})",
            tags,
        )
    rec.nontrivial(varies)


# ---------------------------------------------------------------------------
# histories


def _apply_param(model, spec, op):
    """The same in-place change on the library model and on the reference spec."""
    name, f = op["name"], op["factor"]
    if name == "len_scale" and spec["len_scale"] < 1e-4:
        return  # absolute changes below 1e-8 are the known finding K7 of C11 (numpy.isclose's atol)
    if name in ("var", "len_scale"):
        spec[name] = float(spec[name] * f)
        setattr(model, name, spec[name])
    elif name == "anis":
        a = list(spec["anis"])
        j = op["idx"] % len(a)
        a[j] = float(min(max(a[j] * f, 0.02), 50.0))
        spec["anis"] = a
        model.anis = a
    elif name == "angles":
        a = list(spec["angles"])
        j = op["idx"] % len(a)
        a[j] = float(a[j] + f)
        spec["angles"] = a
        model.angles = a


def _new_spec(spec, new):
    s = copy.deepcopy(spec)
    s["len_scale"] = float(s["len_scale"] * new["len_factor"])
    if s["dim"] > 1:
        s["anis"] = list(new["anis"])
        s["angles"] = list(new["angles"])
    return s


def _in_isclose_window(old, new):
    """The new model differs from the old one, but only inside numpy.isclose's default window (finding K7, registered under C11:
    generators compare their model copy with isclose and do not see such a change)."""
    def par(sp):
        return [float(sp["len_scale"])] + [float(a) for a in sp.get("anis", [])] + [float(a) for a in sp.get("angles", [])]

    a, b = par(old), par(new)
    return len(a) == len(b) and a != b and bool(np.all(np.isclose(a, b)))


def check_history(case, rec):
    spec = case["spec"]
    dim = spec["dim"]
    tags = dict(gens.spec_tags(spec), sub="history")
    ref = Ref(spec, case["period"], case["mode_no"], case["seed"])
    _labels(case, ref, rec)
    with quiet():
        model = lib(build_model, spec, _what="model construction", _tags=tags)
        per0 = case["period"]
        scribble = None
        if isinstance(per0, list) and case["seed"] % 2 == 0:
            # the period as a float64 array which the caller re-uses for something else afterwards
            per0 = scribble = np.array(per0, dtype=np.double)
            rec.label("period_as_reused_ndarray")
        srf = lib(
            gs.SRF, model, generator="Fourier", period=per0, mode_no=case["mode_no"], seed=case["seed"],
            _what="SRF(generator='Fourier')", _tags=tags,
        )  # fmt: skip
        if scribble is not None:
            scribble *= 1.7
    varied, go = _evaluate(srf, ref, case, rec, tags, "fresh SRF", history=True)
    changes = 0
    for i, op in enumerate(case["ops"]):
        if not go:
            rec.label("stopped_in_known_region")
            break
        k = op["op"]
        where = f"after op {i} {op}"
        otags = dict(tags, op=k)
        gen = srf.generator
        call_seed = None
        rec.label("op_" + k)
        try:
            with quiet():
                if k == "period":
                    if isinstance(op["v"], list) and i % 2 == 0:
                        arr = np.array(op["v"], dtype=np.double)
                        gen.period = arr
                        arr *= 1.7
                        rec.label("period_as_reused_ndarray")
                    else:
                        gen.period = op["v"]
                    ref.period = fill(op["v"], dim)
                elif k == "modes":
                    gen.mode_no = op["v"]
                    ref.modes = [int(m) for m in fill(op["v"], dim)]
                elif k == "odd_modes":
                    def setter(v=op["v"]):
                        gen.mode_no = v

                    before = _base_field(srf, ref, case)
                    _expect_odd_refused(setter, f"op {i}: generator.mode_no = {op['v']}", otags)
                    _require_unchanged(before, srf, ref, case, f"op {i}: generator.mode_no = {op['v']}", otags)
                elif k == "param":
                    _apply_param(srf.model, ref.spec, op)
                elif k == "reassign":
                    if op["how"] == "copy":
                        srf.model = copy.deepcopy(srf.model)
                    else:
                        if _in_isclose_window(ref.spec, _new_spec(ref.spec, op["new"])):
                            rec.exclude("K7_isclose_window_model_change")
                            continue
                        ref.spec = _new_spec(ref.spec, op["new"])
                        srf.model = build_model(ref.spec)
                elif k == "call_seed":
                    call_seed = op["seed"]
                    ref.seed = op["seed"]
                elif k == "seed_setter":
                    gen.seed = op["seed"]
                    ref.seed = op["seed"]
                elif k == "update":
                    odd = bool(op.get("odd"))
                    if odd and op["period"] is not None and _known("rejected_update_half_applied", case):
                        rec.exclude("rejected_update_half_applied")
                        rec.label("op_update_skipped")
                        continue
                    ukw = {}
                    how = op["model"]
                    if how == "new" and _in_isclose_window(ref.spec, _new_spec(ref.spec, op["new"])):
                        rec.exclude("K7_isclose_window_model_change")
                        continue
                    before = _base_field(srf, ref, case) if odd and how in ("none", "same", "copy") else None
                    rec.label(
                        "update_model_" + how + ("+seed" if op["seed"] is not None else "")
                        + ("+period" if op["period"] is not None else "") + ("+modes" if op["modes"] is not None else "")
                    )  # fmt: skip
                    if how == "same":
                        ukw["model"] = srf.model
                    elif how == "copy":
                        ukw["model"] = copy.deepcopy(srf.model)
                    elif how == "inplace":
                        _apply_param(srf.model, ref.spec, op["param"])
                        ukw["model"] = srf.model
                    elif how == "new":
                        ref.spec = _new_spec(ref.spec, op["new"])
                        srf.model = build_model(ref.spec)
                        ukw["model"] = srf.model
                    if op["seed"] == "same":
                        ukw["seed"] = int(str(ref.seed))  # equal value, distinct object
                    elif op["seed"] is not None:
                        ukw["seed"] = op["seed"]
                    if op["period"] is not None:
                        ukw["period"] = op["period"]
                    if op["modes"] is not None:
                        ukw["mode_no"] = op["modes"]
                    if odd:
                        rec.label("update_odd_refused" + ("+period" if op["period"] is not None else ""))
                        # a refused update changes nothing the user can see; the model passed along is
                        # the SRF's own and reaches the generator with the next call anyway
                        _expect_odd_refused(lambda: gen.update(**ukw), f"op {i}: generator.update({_fmt(ukw)})", otags)
                        L = np.atleast_1d(np.asarray(gen.period, dtype=float))
                        require(
                            L.shape == ref.period.shape and bool(np.all(L == ref.period)),
                            f"op {i}: generator.update({_fmt(ukw)}) was refused (odd mode_no) but generator.period is now "
                            f"{L.tolist()} (before: {ref.period.tolist()}); the mode mesh still belongs to the old period",
                            dict(otags, kind="rejected_update_half_applied"),
                        )
                        if before is not None:
                            _require_unchanged(before, srf, ref, case, f"op {i}: generator.update({_fmt(ukw)})", otags)
                    else:
                        gen.update(**ukw)
                        if op["seed"] is not None and op["seed"] != "same":
                            ref.seed = op["seed"]
                        if op["period"] is not None:
                            ref.period = fill(op["period"], dim)
                        if op["modes"] is not None:
                            ref.modes = [int(m) for m in fill(op["modes"], dim)]
        except Violation:
            raise
        except Exception as e:  # noqa: BLE001
            raise Violation(f"op {i} {op}: raised {type(e).__name__}: {e}", dict(otags, kind="exception")) from e
        if k not in ("odd_modes",) and not (k == "update" and op.get("odd")):
            changes += 1
        v, go = _evaluate(srf, ref, case, rec, otags, where, seed=call_seed, history=True)
        varied = varied or v
    rec.label("varies" if varied else "flat_axis")
    rec.nontrivial(bool(varied and changes >= 1))


def _base_field(srf, ref, case):
    """Field at the case's base points for the current settings (used to compare before / after a refused op)."""
    U = np.array(case["u"], dtype=float).reshape(ref.dim, -1)
    P = ref.rotation() @ (U * ref.period[:, None])
    out = np.array(srf(P), dtype=float).reshape(-1)
    try:
        srf._verif_last_pos = None  # the object now keeps these points
    except Exception:  # noqa: BLE001
        pass
    return out


def _require_unchanged(before, srf, ref, case, what, tags):
    after = _base_field(srf, ref, case)
    same = before.shape == after.shape and bool(np.array_equal(before, after, equal_nan=True))
    require(
        same,
        f"{what} was refused (odd mode_no) but the field changed: before {before.tolist()}, after {after.tolist()}",
        dict(tags, kind="rejected_update_half_applied"),
    )


def _fmt(ukw):
    return ", ".join(f"{k}={'<model>' if k == 'model' else v}" for k, v in ukw.items())


def _nontrivial_history(case):
    return len(case["ops"]) >= 1


SUBS = [
    Sub("inputs", gen_inputs, check_inputs, quick=2400, thorough=40000, shards_quick=6, shards_thorough=8),
    Sub("history", gen_history, check_history, quick=2000, thorough=24000, shards_quick=8, shards_thorough=8, nontrivial=_nontrivial_history),
]

"""C16 - Vector fields from isotropic models are incompressible.

Field of the generator (docstring of IncomprRandMeth, [Kraichnan1970]):

    u_i(x) = U d_i1 + U sqrt(var/N) sum_j p_i(k_j) (z1_j cos<k_j,x> + z2_j sin<k_j,x>) [+ nugget noise]
    p(k)   = e_1 - k k_1 / |k|^2

Sub-checks
  kernel_div   exact divergence through the compiled kernel (no finite differences)
  fd_div       black-box divergence (central differences + Richardson) through SRF
  projector    projector algebra and the whole mode sum re-computed in numpy
  moments      mean / component variances over seeds (z-tests, DESIGN 1.5)
"""

import math

import numpy as np
from hypothesis import strategies as st

import common  # noqa: F401
from common import Sub, lib, require
import gens
from gens import build_model, logfloat

import gstools as gs
from gstools.field.summator import summate_incompr

ID = "C16"
LEVEL = "exploration"
RULE = (
    "Hypothesis draws (class out of all 17 shipped models valid in the dimension, dim 2/3, var, len_scale 1e-3..1e3, rescale, "
    "optional arguments, seed incl. > 2^31, mode_no 1..1000, sampling auto/mcmc, mean velocity +/-[0.01,100], 0, ints) and "
    "evaluation points (|x| from 1e-3 to 1e6 length scales, lattice points, the origin). kernel_div: analytic divergence as "
    "three calls of the compiled kernel with amplitudes (z2 k_i, -z1 k_i) + SRF output == documented formula + nugget noise "
    "scaling. fd_div: central differences with Richardson extrapolation through SRF (point list or structured stencil grid, "
    "optionally a rotated isotropic model). projector: k.p(k)=0 and the mode sum re-computed by vectorised numpy from the "
    "generator's samples, plus the bare kernel on synthetic wave vectors (axis aligned, k_1=0, |k| 1e-6..1e6). moments: mean and "
    "per-component variance over 300 (quick) / 600 (thorough) seeds at 6 points + law of the projected directions over all modes; "
    "|z|<=7 with one confirmation run on fresh seeds with 4x the sample. Non-trivial: >= 16 modes, some point off the origin and "
    "(mean velocity != 1 or model off default); moments: mean velocity != 1 or model off default (few modes are the harder case "
    "there); distinct by hash of the rounded case."
)
ASSUMPTIONS = [
    "the documented field formula of IncomprRandMeth (class docstring) is the specification; the projector is p(k) = e_1 - k k_1/|k|^2",
    "generator._cov_sample, _z_1, _z_2 are the wave vectors and amplitudes used for the output (verified in every kernel_div / projector case: SRF output == formula on these arrays)",
    "the compiled kernel is linear in the amplitudes z1, z2 (used to express derivatives as mode sums); the derivative obtained this way is cross-checked against an independent numpy derivative",
    "directions of the wave vectors are iid uniform on the circle/sphere and z1, z2 iid standard normal (what the moments test decides); "
    "single-point moments do not depend on the radial law of |k|",
    "nugget noise of one seed is sqrt(nugget) times a seed-determined standard normal array (same stream for any nugget > 0, variance, mean velocity)",
]

# Exclusions for confirmed findings (see the final report of this module).  Set a
# switch to False to turn the exclusion into a (soft) violation again.
KNOWN = {
    # An isotropic model (all anis == 1, model.is_isotropic) that carries rotation
    # angles gives a compressible vector field: SRF evaluates u(R^T x) but does not
    # rotate the vector components, so div = tr(grad u R^T) != 0.
    #   m = gs.Gaussian(dim=2, angles=0.7); srf = gs.SRF(m, generator="VectorField", seed=1, mode_no=100)
    #   central differences at (0.3,-0.4): du1/dx1 = 0.109, du2/dx2 = 0.843, div = 0.95
    # listed in known_findings.json (K23): reported through rec.soft as KNOWN-FINDING
    "rotated_isotropic_compressible": False,
}

EPS = float(np.finfo(float).eps)
Z_MAX = 7.0

# classes whose radial sampling is by inversion or a well behaved MCMC chain
# (moments sub-check); every other class is sampled by MCMC on a numerically
# Hankel-transformed spectrum (known finding K1 of C01: radii diverge in dim >= 2)
LAW_OK = ["Gaussian", "Exponential", "Matern", "Integral", "Stable"]
# classes with smooth realisations (finite second spectral moment): labelled in fd_div
SMOOTH = ["Gaussian", "JBessel", "TPLGaussian"]


# ---------------------------------------------------------------------------
# independent numpy oracle


def projector(k):
    """p(k_j) = e_1 - k_j k_1j / |k_j|^2 for every column of k (dim, N)."""
    k2 = np.sum(k * k, axis=0)
    p = -k * (k[0] / k2)
    p[0] += 1.0
    return p


def mode_sum(k, a, b, x):
    """sum_j p(k_j) (a_j cos<k_j,x> + b_j sin<k_j,x>)  ->  (dim, n)."""
    phase = k.T @ x  # (N, n)
    w = a[:, None] * np.cos(phase) + b[:, None] * np.sin(phase)
    return projector(k) @ w


def mode_sum_cond(k, a, b, x):
    """Conditioning of the mode sum: sum_j |p_ij| (|a_j|+|b_j|) (1 + sum_d |k_dj x_d|)  ->  (dim, n).

    A rounding error of the phase of relative size eps moves a mode by
    eps * |phase|_abs * amplitude; products and cos/sin add a few eps * amplitude.
    """
    # + 0.01: p_1 = 1 - k_1^2/|k|^2 is a cancelling subtraction with an absolute error of a few eps
    # (at the 1e-13 relative tolerance used with this bound 0.01 stands for 1e-15 ~ 4 eps)
    pa = (np.abs(projector(k)) + 0.01) * (np.abs(a) + np.abs(b))  # (dim, N)
    ph = 1.0 + np.abs(k).T @ np.abs(x)  # (N, n)
    return pa @ ph


def div_floor(k, z1, z2):
    """Rounding floor of the analytic divergence of the mode sum (per unit prefactor).

    Every d u_i/d x_i is a sum of N rounded terms p_i k_i (..) of size |p_i k_i| r with
    r = hypot(z1, z2) bounding the trigonometric factor; in addition p_1 = 1 - k_1^2/|k|^2
    is formed by a cancelling subtraction and carries an *absolute* error eps, i.e. eps |k_1| r
    in the divergence of that mode (visible for k almost parallel to e1, where p is tiny).
    """
    return float(np.sum((np.abs(k[0]) + np.sum(np.abs(projector(k) * k), axis=0)) * np.hypot(z1, z2)))


# ---------------------------------------------------------------------------
# shared generators / helpers


def _classes(dim):
    return [c for c in gens.CLASSES if gens.max_valid_dim(c) >= dim]


@st.composite
def _spec(draw, classes=None, dim=None, scale_range=(1e-3, 1e6), var_range=(1e-2, 1e2)):
    dim = dim or draw(st.sampled_from([2, 3]))
    cl = [c for c in (classes or gens.CLASSES) if gens.max_valid_dim(c) >= dim]
    spec = draw(
        gens.model_specs(
            classes=cl, dims=(dim,), mode="accuracy", aniso=False, rotate=False, nugget=False, scale_range=scale_range, var_range=var_range
        )
    )
    if spec["cls"] == "Stable" and "alpha" in spec["opt"]:
        spec["opt"]["alpha"] = max(spec["opt"]["alpha"], 0.5)
    return spec


def _mean_u():
    return st.one_of(
        st.just(1.0),
        logfloat(0.01, 100.0),
        logfloat(0.01, 100.0).map(lambda v: -v),
        st.sampled_from([2, -1, 3, 0, 0.0]),
    )


def _seed():
    return st.one_of(st.integers(0, 300), st.integers(0, 2**32 - 1), st.sampled_from([2**31, 2**32 - 1]))


def _mode_no(hi=1000):
    fixed = [n for n in [1, 2, 3, 16, 17, 64, 100, 250, 1000] if n <= hi]
    return st.one_of(st.sampled_from(fixed), st.integers(16, min(hi, 300)), st.integers(1, 40))


@st.composite
def _points(draw, dim, len_scale, n_max=5, mag=(1e-3, 1e6), origin=True):
    n = draw(st.integers(1, n_max))
    kinds = ["cloud", "cloud", "lattice"] + (["origin"] if origin else [])
    kind = draw(st.sampled_from(kinds))
    f = draw(logfloat(*mag)) * len_scale
    if kind == "lattice":
        pts = draw(st.lists(st.lists(st.integers(-4, 4), min_size=dim, max_size=dim), min_size=n, max_size=n))
    else:
        pts = draw(st.lists(st.lists(st.floats(-1, 1), min_size=dim, max_size=dim), min_size=n, max_size=n))
    arr = np.array(pts, dtype=float).T.reshape(dim, -1) * f
    if kind == "origin":
        arr[:, 0] = 0.0
    return arr.tolist()


def _nontrivial(case):
    spec = case["spec"]
    pos = np.array(case["pos"], dtype=float)
    return bool(case["mode_no"] >= 16 and np.any(pos != 0.0) and (case["mean_u"] != 1 or not gens.spec_is_default(spec)))


def _tags(case, kind):
    spec = case["spec"]
    t = dict(gens.spec_tags(spec), kind=kind, mode_no=case["mode_no"], sampling=case.get("sampling", "auto"))
    return t


def _labels(rec, case):
    spec = case["spec"]
    rec.label(f"dim{spec['dim']}", spec["cls"])
    rec.label("law_ok" if spec["cls"] in LAW_OK else "law_unverified(K1:mcmc_on_hankel_spectrum)")
    mu = case["mean_u"]
    rec.label("mean_u=0" if mu == 0 else ("mean_u<0" if mu < 0 else ("mean_u=1" if mu == 1 else "mean_u>0")))
    n = case["mode_no"]
    rec.label("modes<16" if n < 16 else ("modes>=500" if n >= 500 else "modes16-499"))


def _srf(case, tags, **override):
    spec = dict(case["spec"])
    mean_u = override.pop("mean_u", case["mean_u"])
    spec.update(override)
    reuse = case.get("reuse")
    start = dict(spec)
    if reuse == "dim":
        start["dim"] = 5 - spec["dim"]
    elif reuse == "len_scale":
        start["len_scale"] = spec["len_scale"] * 3.0
    if reuse in ("anis_stored", "lenlist_iso"):
        start["anis"] = [0.4] * (spec["dim"] - 1)
    model = lib(build_model, start, _what="model construction", _tags=tags)
    if reuse in ("anis_stored", "lenlist_iso"):
        # (the caller evaluates once, makes the model isotropic in place and asks again)
        return gs.SRF(model, generator="VectorField", seed=case["seed"], mode_no=case["mode_no"], mean_velocity=mean_u, sampling=case.get("sampling", "auto"))
    if reuse == "set_generator":
        # an SRF that already carries a vector-field generator is given its settings anew through the documented set_generator call
        srf = gs.SRF(model, generator="VectorField", seed=(case["seed"] + 1) % 2**31, mode_no=2 * case["mode_no"], mean_velocity=3.0 * mean_u + 1.0)
        with common.quiet():
            srf(np.zeros((spec["dim"], 1)))
            srf.set_generator("VectorField", seed=case["seed"], mode_no=case["mode_no"], mean_velocity=mean_u, sampling=case.get("sampling", "auto"))
        return srf
    if reuse:
        # an existing vector-field SRF whose model (or mode number) is changed in place afterwards (no new seed): the next field
        # must be the one of the current settings
        n0 = case["mode_no"] * (4 if reuse == "mode_no" else 1)
        srf = gs.SRF(model, generator="VectorField", seed=case["seed"], mode_no=n0, mean_velocity=mean_u, sampling=case.get("sampling", "auto"))
        with common.quiet():
            srf(np.zeros((start["dim"], 1)))
            if reuse == "dim":
                srf.model.dim = spec["dim"]
            elif reuse == "mode_no":
                srf.generator.mode_no = case["mode_no"]
            else:
                srf.model.len_scale = spec["len_scale"]
            srf(np.zeros((spec["dim"], 1)))
        return srf
    return lib(
        gs.SRF,
        model,
        generator="VectorField",
        seed=case["seed"],
        mode_no=case["mode_no"],
        mean_velocity=mean_u,
        sampling=case.get("sampling", "auto"),
        _what="SRF(generator='VectorField')",
        _tags=tags,
    )


def _samples(srf, dim, n_modes, tags):
    g = srf.generator
    k = np.array(g._cov_sample, dtype=float)
    z1 = np.array(g._z_1, dtype=float)
    z2 = np.array(g._z_2, dtype=float)
    require(
        k.shape == (dim, n_modes) and z1.shape == (n_modes,) and z2.shape == (n_modes,),
        f"generator arrays have shapes {k.shape}, {z1.shape}, {z2.shape} for dim {dim}, mode_no {n_modes}",
        dict(tags, kind="sample_shape"),
    )
    ok = np.all(np.isfinite(k)) and np.all(np.isfinite(z1)) and np.all(np.isfinite(z2)) and np.all(np.sum(k * k, axis=0) > 0)
    require(bool(ok), "generator drew non-finite or zero wave vectors / amplitudes", dict(tags, kind="degenerate_sample"))
    # every mode carries its N(0,1) amplitudes (an exactly vanishing pair has probability zero): the variance split relies on all N modes
    dead = int(np.sum((z1 == 0.0) & (z2 == 0.0)))
    require(dead == 0, f"{dead} of {n_modes} modes have both amplitudes exactly zero (smallest |k| {float(np.min(np.sqrt(np.sum(k * k, axis=0)))):.3g})",
            dict(tags, kind="dead_modes"))
    return k, z1, z2


def _formula(case, kern):
    """Documented output from a kernel sum: U e_1 + U sqrt(var/N) * kern."""
    mean_u = float(case["mean_u"])
    c = mean_u * math.sqrt(case["spec"]["var"] / case["mode_no"])
    want = c * kern
    want[0] += mean_u
    return want, c


# ---------------------------------------------------------------------------
# 1. exact divergence through the kernel itself


@st.composite
def gen_kernel(draw, tier="quick"):
    spec = draw(_spec())
    hankel = spec["cls"] in gens.HANKEL_SPECTRUM
    case = {
        "spec": spec,
        "seed": draw(_seed()),
        "mode_no": draw(_mode_no(300 if hankel else 1000)),
        "sampling": draw(st.sampled_from(["auto", "auto", "mcmc"])),
        "mean_u": draw(_mean_u()),
        "pos": draw(_points(spec["dim"], spec["len_scale"])),
        "nugget": draw(st.one_of(st.just(0.0), st.just(0.0), logfloat(1e-3, 10.0))),
        "nugget2": draw(logfloat(1e-3, 10.0)),
    }
    if draw(st.integers(0, 3)) == 0:
        case["reuse"] = draw(st.sampled_from(["set_generator", "anis_stored", "lenlist_iso"]))
    return case


def check_kernel(case, rec):
    spec = case["spec"]
    dim, n_modes = spec["dim"], case["mode_no"]
    tags = _tags(case, "kernel_divergence")
    _labels(rec, case)
    rec.nontrivial(_nontrivial(case))
    pos = np.array(case["pos"], dtype=float).reshape(dim, -1)
    n = pos.shape[1]
    srf = _srf(case, tags)
    if case.get("reuse") == "anis_stored":
        with common.quiet():
            srf(pos)
            srf.model.anis = [1.0] * (dim - 1)
        rec.label("made_isotropic_in_place_then_stored_positions")
        out = np.asarray(lib(srf, _what="SRF call on the stored positions", _tags=tags), dtype=float)
        case = {k_: v_ for k_, v_ in case.items() if k_ != "reuse"}  # the further objects of this check are built fresh
    elif case.get("reuse") == "lenlist_iso":
        with common.quiet():
            srf(pos)
            srf.model.len_scale = [float(spec["len_scale"])] * dim  # equal lengths per axis: the model becomes isotropic
        rec.label("made_isotropic_by_equal_length_list")
        out = np.asarray(lib(srf, pos, _what="SRF call", _tags=tags), dtype=float)
        case = {k_: v_ for k_, v_ in case.items() if k_ != "reuse"}
    else:
        out = np.asarray(lib(srf, pos, _what="SRF call", _tags=tags), dtype=float)
    require(out.shape == (dim, n), f"vector field has shape {out.shape}, expected {(dim, n)}", dict(tags, kind="shape"))
    k, z1, z2 = _samples(srf, dim, n_modes, tags)

    # (a) what the user gets is the documented formula on the generator's samples
    kern = np.asarray(lib(summate_incompr, k, z1, z2, pos, _tags=tags), dtype=float)
    want, c = _formula(case, kern)
    amp = abs(float(case["mean_u"])) + abs(c) * float(np.max(np.abs(kern)))
    # same kernel, same inputs: only the order of the two scalar products may differ
    tol = 1e-13 * amp
    err = float(np.max(np.abs(out - want)))
    rec.discrepancy("formula", err, tol)
    require(
        err <= tol,
        f"SRF output differs from U e1 + U sqrt(var/N) summate_incompr(k, z1, z2, x) by {err:.3g} (tol {tol:.3g}); "
        f"U={case['mean_u']}, var={spec['var']}, N={n_modes}",
        dict(tags, kind="formula"),
    )

    # (b) d u_i / d x_i is the mode sum with amplitudes (z2 k_i, -z1 k_i)
    D = np.empty((dim, n))
    for i in range(dim):
        a = np.ascontiguousarray(z2 * k[i])
        b = np.ascontiguousarray(-z1 * k[i])
        D[i] = c * np.asarray(lib(summate_incompr, k, a, b, pos, _tags=tags), dtype=float)[i]
    P = projector(k)
    # the same derivative written out in numpy (guards the oracle: *any* amplitudes of the
    # form k_i * w_j give zero divergence, so the amplitudes themselves must be checked)
    phase = k.T @ pos
    wd = z2[:, None] * np.cos(phase) - z1[:, None] * np.sin(phase)
    D_np = c * ((P * k) @ wd)
    cond = abs(c) * ((np.abs(P * k) * (np.abs(z1) + np.abs(z2))) @ (1.0 + np.abs(k).T @ np.abs(pos)))
    require(
        bool(np.all(np.abs(D - D_np) <= 1e-12 * cond + 1e-300)),
        "kernel derivative (amplitudes z2 k_i, -z1 k_i) differs from the numpy derivative of the mode sum",
        dict(tags, kind="oracle_derivative"),
    )
    div = np.abs(D.sum(axis=0))
    scale = np.abs(D).sum(axis=0)
    # 1e-12 * sum_i |du_i/dx_i| is the stated budget; 8 eps * div_floor is the rounding
    # floor that remains when the N terms of one derivative cancel each other.
    tolv = 1e-12 * scale + 8 * EPS * abs(c) * div_floor(k, z1, z2)
    j = int(np.argmax(div - tolv))
    if tolv[j] > 0:
        rec.discrepancy("divergence", float(div[j]), float(tolv[j]))
    require(
        bool(np.all(div <= tolv)),
        f"analytic divergence {D[:, j].sum():.3g} at x={pos[:, j].tolist()} with terms {D[:, j].tolist()} "
        f"(allowed {tolv[j]:.3g})",
        tags,
    )

    # (c) nugget: noise = sqrt(nugget) * standard normal array of the seed, nothing else changes
    g = case["nugget"]
    if g > 0:
        rec.label("nugget")
        g2 = case["nugget2"]
        t2 = dict(tags, kind="nugget_noise")
        out_g = np.asarray(lib(_srf(case, t2, nugget=g), pos, _tags=t2), dtype=float)
        out_r = np.asarray(lib(_srf(case, t2, nugget=g2, mean_u=1.0), pos, _tags=t2), dtype=float)
        c_r = math.sqrt(spec["var"] / n_modes)
        want_r = c_r * kern
        want_r[0] += 1.0
        w = (out_g - want) / math.sqrt(g)
        w_r = (out_r - want_r) / math.sqrt(g2)
        amp_r = 1.0 + c_r * float(np.max(np.abs(kern)))
        # subtraction of the smooth part: eps * amplitude / sqrt(nugget)
        tol = 1e-12 * (8.0 + amp / math.sqrt(g) + amp_r / math.sqrt(g2))
        require(bool(np.all(np.isfinite(w))), "nugget noise not finite", t2)
        err = float(np.max(np.abs(w - w_r)))
        rec.discrepancy("nugget", err, tol)
        require(
            err <= tol,
            f"(field(nugget={g:.4g}, U={case['mean_u']}) - smooth part)/sqrt(nugget) differs from the same quantity for "
            f"nugget={g2:.4g}, U=1 by {err:.3g}: nugget noise must be sqrt(nugget) N(0,1), independent of U and var",
            t2,
        )
        require(float(np.max(np.abs(w))) > 0, "nugget > 0 but no noise was added", t2)


# ---------------------------------------------------------------------------
# 2. black-box divergence by central differences + Richardson extrapolation


@st.composite
def gen_fd(draw, tier="quick"):
    spec = draw(_spec(scale_range=(1e-2, 1e2)))
    dim = spec["dim"]
    hankel = spec["cls"] in gens.HANKEL_SPECTRUM
    case = {
        "spec": spec,
        "seed": draw(_seed()),
        "mode_no": draw(_mode_no(300 if hankel else 1000)),
        "sampling": draw(st.sampled_from(["auto", "auto", "mcmc"])),
        "mean_u": draw(_mean_u()),
        "pos": draw(_points(dim, spec["len_scale"], n_max=3, mag=(1e-2, 30.0))),
        "variant": draw(st.sampled_from(["points", "points", "structured", "points_per_offset", "points_per_offset"])),
        # evaluation far from the origin (projected map coordinates): a stencil step is then tiny relative to the coordinates
        "pos_offset": draw(st.sampled_from([0.0, 0.0, 1e2, -3e2, 1e3])),
    }
    r = draw(st.sampled_from([None, None, None, "dim", "len_scale", "mode_no", "set_generator"]))
    if r == "dim" and (spec["cls"] in ("JBessel", "SuperSpherical", "TPLSimple") or gens.max_valid_dim(spec["cls"]) < 3):
        r = "len_scale"  # dimension-dependent argument bounds are C14's known finding K6
    if r:
        case["reuse"] = r
    if draw(st.sampled_from([False, False, False, True, False, False, False])):
        nang = dim * (dim - 1) // 2
        ang = draw(st.lists(st.floats(-math.pi, math.pi), min_size=nang, max_size=nang))
        if all(a == 0 for a in ang):
            ang[0] = 0.7
        spec["angles"] = ang
    return case


def _fd_jacobian(srf, x0, h, variant, tags):
    """J[i, j] = d u_i / d x_j at x0 by Richardson-extrapolated central differences; also max |u|."""
    dim = x0.size
    offs = (-2, -1, 1, 2)
    if variant == "structured":
        axes = [np.array([x0[j] + m * h for m in (-2, -1, 0, 1, 2)]) for j in range(dim)]
        f = np.asarray(lib(srf.structured, axes, _what="SRF.structured", _tags=tags), dtype=float)
        require(f.shape == (dim,) + (5,) * dim, f"structured vector field has shape {f.shape}", dict(tags, kind="shape"))

        def val(j, m):
            idx = [2] * dim
            idx[j] = 2 + m
            return f[(slice(None),) + tuple(idx)], axes[j][2 + m]

    elif variant == "points_per_offset":
        # one request per stencil offset on the same object: dim points each, every request differs from the previous one by a few h only
        fm = {}
        for m in offs:
            pm = np.repeat(x0[:, None], dim, axis=1)
            for j in range(dim):
                pm[j, j] = x0[j] + m * h
            fv = np.asarray(lib(srf, pm, _what="SRF call", _tags=tags), dtype=float)
            require(fv.shape == (dim, dim), f"vector field has shape {fv.shape}", dict(tags, kind="shape"))
            fm[m] = (fv, pm)
        f = np.concatenate([fm[m][0] for m in offs], axis=1)

        def val(j, m):
            return fm[m][0][:, j], fm[m][1][j, j]

    else:
        pts = np.repeat(x0[:, None], 4 * dim, axis=1)
        for j in range(dim):
            for q, m in enumerate(offs):
                pts[j, 4 * j + q] = x0[j] + m * h
        f = np.asarray(lib(srf, pts, _what="SRF call", _tags=tags), dtype=float)
        require(f.shape == (dim, 4 * dim), f"vector field has shape {f.shape}", dict(tags, kind="shape"))

        def val(j, m):
            q = 4 * j + offs.index(m)
            return f[:, q], pts[j, q]

    J = np.empty((dim, dim))
    for j in range(dim):
        (up1, xp1), (um1, xm1) = val(j, 1), val(j, -1)
        (up2, xp2), (um2, xm2) = val(j, 2), val(j, -2)
        # the realised displacements (x+h)-(x-h) are exact differences of floats
        d1 = (up1 - um1) / (xp1 - xm1)
        d2 = (up2 - um2) / (xp2 - xm2)
        J[:, j] = (4.0 * d1 - d2) / 3.0
    return J, float(np.max(np.abs(f)))


def check_fd(case, rec):
    spec = case["spec"]
    dim, n_modes = spec["dim"], case["mode_no"]
    rotated = any(a != 0 for a in spec.get("angles", []))
    tags = _tags(case, "rotated_isotropic_divergence" if rotated else "fd_divergence")
    tags["variant"] = case["variant"]
    _labels(rec, case)
    rec.label(case["variant"], "smooth" if spec["cls"] in SMOOTH else "rough")
    rec.nontrivial(_nontrivial(case))
    if rotated:
        rec.label("rotated_isotropic")
    if case.get("reuse"):
        rec.label("reused_after_inplace_" + case["reuse"])
    pos = np.array(case["pos"], dtype=float).reshape(dim, -1) + float(case.get("pos_offset", 0.0)) * float(spec["len_scale"])
    if case.get("pos_offset"):
        rec.label("far_from_origin")
    srf = _srf(case, tags)
    require(bool(srf.model.is_isotropic), "generated model is not isotropic", dict(tags, kind="harness_isotropy"))
    # step from the largest wave number actually drawn (only the step size and the
    # conditioning guard look inside; the divergence itself is black box)
    k, z1, z2 = _samples(srf, dim, n_modes, tags)
    kmax = float(np.max(np.sqrt(np.sum(k * k, axis=0))))
    h = 1e-3 / kmax
    c = abs(float(case["mean_u"])) * math.sqrt(spec["var"] / n_modes)
    for p in range(pos.shape[1]):
        x0 = pos[:, p]
        J, umax = _fd_jacobian(srf, x0, h, case["variant"], tags)
        div = abs(float(np.trace(J)))
        grad = float(np.sqrt(np.sum(J * J)))
        # truncation of the extrapolated difference: (k h)^4 / 30 <= 4e-14 per mode.  Rounding:
        # every field value carries eps * (|u| + amplitude * |phase|) and is divided by ~h.
        tol = 1e-6 * grad
        ph = np.abs(k).T @ (np.abs(x0) + 2 * h)
        noise = 4 * EPS * (umax + c * math.sqrt(float(np.sum((np.hypot(z1, z2) * ph) ** 2)))) / h * math.sqrt(dim)
        if noise > 0.1 * tol:
            rec.exclude("fd_ill_conditioned")
            continue
        if tol > 0 and (div <= tol or not rotated):
            rec.discrepancy("fd_divergence", div, tol)
        if div <= tol:
            if rotated:
                rec.label("rotated_isotropic_still_solenoidal")
            continue
        msg = (
            f"finite-difference divergence {np.trace(J):.4g} at x={x0.tolist()} (diagonal {np.diag(J).tolist()}, "
            f"|grad u|={grad:.4g}, tol {tol:.3g}, step {h:.3g})"
        )
        if rotated:
            if KNOWN["rotated_isotropic_compressible"]:
                rec.exclude("rotated_isotropic_compressible")
                continue
            rec.soft("isotropic model with rotation angles " + str(spec["angles"]) + ": " + msg, tags)
            continue
        require(False, msg, tags)


# ---------------------------------------------------------------------------
# 3. projector algebra / the mode sum re-computed in numpy


def _kvec(dim):
    mag = logfloat(1e-6, 1e6)
    unit = st.lists(st.floats(-1, 1), min_size=dim, max_size=dim).filter(lambda v: sum(abs(a) for a in v) > 1e-3)

    def axis(t):  # along an axis: p = 0 (k || e1) or p = e1
        i, m, s = t
        v = [0.0] * dim
        v[i] = m * s
        return v

    def norm(v, m):  # largest component has magnitude m (no underflow of |k|^2)
        top = max(abs(a) for a in v)
        return [a / top * m for a in v]

    def no_k1(t):  # k_1 = 0: p = e1
        u, m = t
        v = [0.0] + list(u[1:])
        if not any(v):
            v[1] = 1.0
        return norm(v, m)

    def split(t):  # very different magnitudes of k_1 and the transversal part
        u, m1, m2 = t
        v = norm([0.0] + (list(u[1:]) if any(u[1:]) else [1.0] * (dim - 1)), m2)
        v[0] = m1 if u[0] >= 0 else -m1
        return v

    return st.one_of(
        st.tuples(unit, mag).map(lambda t: norm(t[0], t[1])),
        st.tuples(st.integers(0, dim - 1), mag, st.sampled_from([-1.0, 1.0])).map(axis),
        st.tuples(unit, mag).map(no_k1),
        st.tuples(unit, mag, mag).map(split),
    )


@st.composite
def gen_projector(draw, tier="quick"):
    if draw(st.sampled_from([False, True, False])):
        dim = draw(st.sampled_from([2, 3]))
        n_modes = draw(st.one_of(st.integers(1, 24), st.integers(16, 24)))
        kk = draw(st.lists(_kvec(dim), min_size=n_modes, max_size=n_modes))
        zz = draw(st.lists(st.tuples(st.floats(-4, 4), st.floats(-4, 4)), min_size=n_modes, max_size=n_modes))
        n = draw(st.integers(1, 4))
        pos = draw(st.lists(st.lists(st.floats(-10, 10), min_size=n, max_size=n), min_size=dim, max_size=dim))
        return {"src": "synthetic", "dim": dim, "k": kk, "z": [list(z) for z in zz], "pos": pos, "xscale": draw(logfloat(1e-6, 1e3))}
    spec = draw(_spec())
    hankel = spec["cls"] in gens.HANKEL_SPECTRUM
    return {
        "src": "generator",
        "spec": spec,
        "seed": draw(_seed()),
        "mode_no": draw(_mode_no(300 if hankel else 1000)),
        "sampling": draw(st.sampled_from(["auto", "auto", "mcmc"])),
        "mean_u": draw(_mean_u()),
        "pos": draw(_points(spec["dim"], spec["len_scale"], mag=(1e-3, 1e4))),
    }


def _check_orthogonal(k, tags):
    P = projector(k)
    dot = np.abs(np.sum(k * P, axis=0))
    # k1 - k1 (k.k)/|k|^2 : a handful of roundings of magnitude |k_1|
    tol = 16 * EPS * np.abs(k[0]) + 1e-300
    require(
        bool(np.all(dot <= tol)),
        f"oracle: k . p(k) = {float(np.max(dot)):.3g} for a projector p = e1 - k k_1/|k|^2",
        dict(tags, kind="oracle_projector"),
    )
    # p is the orthogonal projection of e1: |p|^2 = p_1 = 1 - k_1^2/|k|^2
    require(
        bool(np.all(np.abs(np.sum(P * P, axis=0) - P[0]) <= 16 * EPS)),
        "oracle: |p|^2 != p_1",
        dict(tags, kind="oracle_projector"),
    )
    return P


def check_projector(case, rec):
    if case["src"] == "synthetic":
        dim = case["dim"]
        tags = {"kind": "kernel_vs_numpy", "dim": dim, "src": "synthetic"}
        rec.label("synthetic", f"dim{dim}")
        k = np.ascontiguousarray(np.array(case["k"], dtype=float).T.reshape(dim, -1))
        z = np.array(case["z"], dtype=float).reshape(-1, 2)
        z1, z2 = np.ascontiguousarray(z[:, 0]), np.ascontiguousarray(z[:, 1])
        kn = np.sqrt(np.sum(k * k, axis=0))
        pos = np.array(case["pos"], dtype=float).reshape(dim, -1) * case["xscale"] / float(np.min(kn))
        rec.label("k_some_axis_aligned" if np.any(np.sum(k != 0, axis=0) == 1) else "k_none_axis_aligned")
        rec.nontrivial(k.shape[1] >= 16 and bool(np.any(pos != 0)))
        _check_orthogonal(k, tags)
        got = np.asarray(lib(summate_incompr, k, z1, z2, pos, _tags=tags), dtype=float)
        want = mode_sum(k, z1, z2, pos)
        tol = 1e-13 * mode_sum_cond(k, z1, z2, pos) + 1e-300
        err = np.abs(got - want)
        rec.discrepancy("kernel_vs_numpy", float(np.max(err / tol)), 1.0)
        require(
            bool(np.all(err <= tol)),
            f"summate_incompr differs from sum_j p(k_j)(z1 cos + z2 sin) by {float(np.max(err)):.3g} "
            f"(conditioning-scaled tolerance {float(tol.flat[int(np.argmax(err / tol))]):.3g})",
            tags,
        )
        # divergence of the bare kernel
        D = np.array([np.asarray(lib(summate_incompr, k, np.ascontiguousarray(z2 * k[i]), np.ascontiguousarray(-z1 * k[i]), pos), dtype=float)[i] for i in range(dim)])
        tolv = 1e-12 * np.abs(D).sum(axis=0) + 8 * EPS * div_floor(k, z1, z2) + 1e-300
        require(
            bool(np.all(np.abs(D.sum(axis=0)) <= tolv)),
            f"kernel: analytic divergence {float(np.max(np.abs(D.sum(axis=0)))):.3g} of a synthetic mode table does not vanish",
            dict(tags, kind="kernel_divergence"),
        )
        return
    spec = case["spec"]
    dim, n_modes = spec["dim"], case["mode_no"]
    tags = _tags(case, "field_vs_numpy")
    _labels(rec, case)
    rec.label("generator")
    rec.nontrivial(_nontrivial(case))
    pos = np.array(case["pos"], dtype=float).reshape(dim, -1)
    srf = _srf(case, tags)
    out = np.asarray(lib(srf, pos, _what="SRF call", _tags=tags), dtype=float)
    k, z1, z2 = _samples(srf, dim, n_modes, tags)
    _check_orthogonal(k, tags)
    mean_u = float(case["mean_u"])
    c = mean_u * math.sqrt(spec["var"] / n_modes)
    want = c * mode_sum(k, z1, z2, pos)
    want[0] += mean_u
    require(out.shape == want.shape, f"vector field has shape {out.shape}, expected {want.shape}", dict(tags, kind="shape"))
    tol = 1e-13 * (abs(mean_u) + abs(c) * mode_sum_cond(k, z1, z2, pos)) + 1e-300
    err = np.abs(out - want)
    rec.discrepancy("field_vs_numpy", float(np.max(err / tol)), 1.0)
    i, j = np.unravel_index(int(np.argmax(err / tol)), err.shape)
    require(
        bool(np.all(err <= tol)),
        f"component {i} at x={pos[:, j].tolist()}: SRF gives {float(out[i, j])!r}, U d_i1 + U sqrt(var/N) sum_j p_i(k_j)(z1 cos + z2 sin) "
        f"gives {float(want[i, j])!r} (tol {tol[i, j]:.3g}); U={mean_u}, var={spec['var']}, N={n_modes}",
        tags,
    )


# ---------------------------------------------------------------------------
# 4. moments over seeds
#
# At a fixed point x every mode contributes p_i(k_j) g_j with g_j = z1 cos + z2 sin ~ N(0,1)
# independent of k_j, hence with w_i = u_i - U d_i1 and c^2 = U^2 var / N
#     E w_i = 0,   E w_i^2 = c^2 N E[p_i^2] = U^2 var m2_i   (+ nugget),
# whatever the law of |k|.  With n = k/|k| uniform on the circle / sphere:
#   2-D  n = (cos t, sin t): p_1 = sin^2 t, p_2 = -cos t sin t = -sin(2t)/2
#        m2 = (E sin^4, E sin^2(2t)/4) = (3/8, 1/8);  m4 = (E sin^8, E sin^4(2t)/16) = (35/128, 3/128)
#   3-D  p_1 = 1 - n_1^2 with n_1 uniform on [-1,1] (Archimedes):
#        m2_1 = 1 - 2/3 + 1/5 = 8/15,  m4_1 = 1 - 4/3 + 6/5 - 4/7 + 1/9 = 128/315;
#        p_2 = -n_1 n_2, sphere moments E[n_1^2a n_2^2b] = (2a-1)!!(2b-1)!!/(3*5*...*(1+2a+2b)):
#        m2_2 = 1/15, m4_2 = 9/(3*5*7*9) = 1/105   (check: sum_i m2_i = E|p|^2 = E p_1 = 2/3; 2-D: 1/2)
# Fourth moment (k_j iid, g_j iid N(0,1)):  E w^4 = c^4 (3 N m4 + 3 N (N-1) m2^2), so
#     Var(w^2) = U^4 var^2 (2 m2^2 + 3 (m4 - m2^2)/N);  nugget g adds 4 E[w^2] g + 2 g^2.

M2 = {2: np.array([3 / 8, 1 / 8]), 3: np.array([8 / 15, 1 / 15, 1 / 15])}
M4 = {2: np.array([35 / 128, 3 / 128]), 3: np.array([128 / 315, 1 / 105, 1 / 105])}
N_POINTS = 6


@st.composite
def gen_moments(draw, tier="quick"):
    dim = draw(st.sampled_from([2, 3]))
    # half of the cases on the cheap inversion-sampled models (2-D Gaussian / Exponential)
    cheap = draw(st.booleans())
    classes = ["Gaussian", "Exponential"] if cheap else LAW_OK
    if cheap:
        dim = 2
    spec = draw(_spec(classes=classes, dim=dim, scale_range=(1e-2, 1e2), var_range=(1e-2, 1e2)))
    spec["nugget"] = draw(st.one_of(st.just(0.0), logfloat(1e-3, 10.0)))
    mean_u = draw(st.one_of(st.just(1.0), logfloat(0.1, 10.0), logfloat(0.1, 10.0).map(lambda v: -v), st.sampled_from([0, 2, -1])))
    if mean_u == 0 and spec["nugget"] == 0:
        spec["nugget"] = 0.5  # otherwise the field is identically zero
    pts = draw(st.lists(st.lists(st.floats(-1, 1), min_size=dim, max_size=dim), min_size=N_POINTS, max_size=N_POINTS))
    f = draw(logfloat(1e-2, 1e3)) * spec["len_scale"]
    return {
        "spec": spec,
        "mean_u": mean_u,
        "mode_no": draw(st.sampled_from([1, 4, 16, 16, 64])),
        "sampling": "auto",
        "pos": (np.array(pts, dtype=float).T * f).tolist(),
        "seed": draw(st.integers(0, 2**30)),
        "seed2": draw(st.integers(0, 2**30)),
        "nseeds": 300 if tier == "quick" else 600,
    }


def _moment_run(case, seed0, nseeds, tags):
    spec = case["spec"]
    dim, n_modes = spec["dim"], case["mode_no"]
    mean_u = float(case["mean_u"])
    pos = np.array(case["pos"], dtype=float).reshape(dim, -1)
    npts = pos.shape[1]
    srf = _srf(dict(case, seed=seed0), tags)
    mu = np.zeros(dim)
    mu[0] = mean_u
    m1 = np.empty((nseeds, dim))
    m2 = np.empty((nseeds, dim))
    acc_p2 = np.zeros(dim)
    acc_z = acc_zz = acc_z12 = 0.0
    for s in range(nseeds):
        f = np.asarray(lib(srf, pos, seed=seed0 + s, _what="SRF call", _tags=tags), dtype=float)
        d = f - mu[:, None]
        m1[s] = d.mean(axis=1)
        m2[s] = (d * d).mean(axis=1)
        k, z1, z2 = _samples(srf, dim, n_modes, tags)
        acc_p2 += np.sum(projector(k) ** 2, axis=1)
        acc_z += float(z1.sum() + z2.sum())
        acc_zz += float(np.sum(z1 * z1) + np.sum(z2 * z2))
        acc_z12 += float(np.sum(z1 * z2))
    g = float(spec["nugget"])
    vw = mean_u**2 * spec["var"] * M2[dim]
    v = vw + g
    var_q = mean_u**4 * spec["var"] ** 2 * (2 * M2[dim] ** 2 + 3 * (M4[dim] - M2[dim] ** 2) / n_modes) + 4 * vw * g + 2 * g * g
    z = {}
    info = {}
    with np.errstate(all="ignore"):
        # points of one realisation are correlated: empirical spread of the per-seed means,
        # never less than the spread npts independent points would have
        se1 = np.maximum(m1.std(axis=0, ddof=1), np.sqrt(v / npts)) / math.sqrt(nseeds)
        se2 = np.maximum(m2.std(axis=0, ddof=1), np.sqrt(var_q / npts)) / math.sqrt(nseeds)
        z["mean"] = m1.mean(axis=0) / se1
        z["var"] = (m2.mean(axis=0) - v) / se2
        nm = nseeds * n_modes
        z["dir"] = (acc_p2 / nm - M2[dim]) / np.sqrt((M4[dim] - M2[dim] ** 2) / nm)
        # Var(z1 cos + z2 sin) = 1 at every phase needs E z = 0, E z^2 = 1 and E z1 z2 = 0
        z["z1z2"] = np.array(
            [acc_z / (2 * nm) * math.sqrt(2 * nm), (acc_zz / (2 * nm) - 1.0) * math.sqrt(nm), acc_z12 / nm * math.sqrt(nm)]
        )
    info["mean"] = (m1.mean(axis=0) + mu, mu)
    info["var"] = (m2.mean(axis=0), v)
    info["dir"] = (acc_p2 / nm, M2[dim])
    info["z1z2"] = (np.array([acc_z / (2 * nm), acc_zz / (2 * nm), acc_z12 / nm]), np.array([0.0, 1.0, 0.0]))
    for kk in z:
        z[kk] = np.where(np.isfinite(z[kk]), z[kk], np.inf)
    return z, info


WHAT = {
    "mean": "mean of component {j} over seeds",
    "var": "variance of component {j} about (U,0[,0]) over seeds",
    "dir": "mean of p_{j}(k)^2 over all modes (law of the wave-vector directions)",
    "z1z2": "moment {j} (0: mean, 1: mean square, 2: mean of z1*z2) of the amplitudes z1, z2",
}


def check_moments(case, rec):
    spec = case["spec"]
    dim = spec["dim"]
    tags = _tags(case, "moments")
    tags["nugget"] = spec["nugget"] > 0
    _labels(rec, case)
    rec.label("nugget" if spec["nugget"] > 0 else "no_nugget")
    rec.nontrivial(case["mean_u"] != 1 or not gens.spec_is_default(spec))
    z, info = _moment_run(case, case["seed"], case["nseeds"], tags)
    suspects = []
    for name, arr in z.items():
        rec.discrepancy("z_" + name, float(np.max(np.abs(arr))), Z_MAX)
        for j in range(arr.size):
            if abs(arr[j]) > Z_MAX:
                suspects.append((name, j, float(arr[j])))
    if not suspects:
        return
    rec.label("confirmation_run")
    z2, info2 = _moment_run(case, case["seed2"], 4 * case["nseeds"], tags)
    for name, j, zz in suspects:
        got, want = info2[name]
        require(
            abs(z2[name][j]) <= Z_MAX,
            f"{WHAT[name].format(j=j)}: {got[j]:.5g}, expected {want[j]:.5g} (U={case['mean_u']}, var={spec['var']:.4g}, "
            f"nugget={spec['nugget']:.4g}, dim={dim}, N={case['mode_no']}; z={zz:.1f} on {case['nseeds']} seeds, "
            f"confirmed with z={z2[name][j]:.1f} on {4 * case['nseeds']} fresh seeds)",
            dict(tags, stat=name, component=j),
        )


# ---------------------------------------------------------------------------
# 5. large requests (mode_no * points beyond 2e7): same field, still divergence-free


@st.composite
def gen_large(draw, tier="quick"):
    dim = draw(st.sampled_from([2, 3]))
    return {
        "cls": draw(st.sampled_from(["Gaussian", "Exponential", "Matern"])),
        "dim": dim,
        "mode_no": draw(st.sampled_from([1000, 1000, 4000])),
        # requests well beyond 2^16 points too (with fewer modes: the cost is mode_no x points)
        "npts": draw(st.sampled_from([21000, 26000, 70000, 140000])),
        "seed": draw(st.integers(0, 2**31 - 1)),
        "mean_u": draw(st.floats(0.3, 3.0)),
        "structured": draw(st.booleans()),
    }


def check_large(case, rec):
    from oracles import kernels as ok

    if case["npts"] > 30000:
        case = dict(case, mode_no=[300, 150][case["npts"] > 100000])

    dim = case["dim"]
    tags = {"model": case["cls"], "dim": dim, "mode_no": case["mode_no"], "kind": "large_request"}
    rec.label("large_" + ("structured" if case["structured"] else "points"))
    rs = np.random.RandomState(case["seed"] % (2**31 - 1))
    model = getattr(gs, case["cls"])(dim=dim, var=1.3, len_scale=2.0)
    U = case["mean_u"]
    import warnings

    with warnings.catch_warnings():
        warnings.simplefilter("ignore")
        srf = lib(gs.SRF, model, generator="VectorField", mean_velocity=U, mode_no=case["mode_no"], seed=case["seed"] % 100000, _tags=tags)
        if case["structured"]:
            m = int(round(case["npts"] ** (1.0 / dim))) + 1
            axes = [np.sort(rs.uniform(-20, 20, m)) for _ in range(dim)]
            big = lib(srf.structured, axes, _tags=tags).reshape(dim, -1)
            pts = np.array(np.meshgrid(*axes, indexing="ij")).reshape(dim, -1)
        else:
            pts = rs.uniform(-20, 20, (dim, case["npts"]))
            big = lib(srf, pts, _tags=tags)
        idx = np.sort(rs.choice(pts.shape[1], 24, replace=False))
        small = lib(srf, pts[:, idx], _tags=tags)
    g = srf.generator
    scale = U * math.sqrt(model.var)
    err = float(np.max(np.abs(big[:, idx] - small)))
    rec.discrepancy("large_vs_small", err, 1e-9 * scale)
    require(
        err <= 1e-9 * scale,
        f"vector field values inside a request of {pts.shape[1]} points (mode_no {case['mode_no']}) differ from the same points requested alone by {err:.3g}",
        tags,
    )
    val, mag = ok.summate_incompr(g._cov_sample, g._z_1, g._z_2, pts[:, idx])
    e1 = np.zeros((dim, 1))
    e1[0] = 1.0
    c = U * math.sqrt(model.var / g.mode_no)
    want = U * e1 + c * val
    errk = np.abs(big[:, idx] - want)
    require(
        bool(np.all(errk <= 1e-11 * (U + c * mag))),
        f"large request: field is not mean_u e1 + mean_u sqrt(var/N) * projected mode sum of the generator's own arrays (max dev {float(np.max(errk)):.3g})",
        tags,
    )
    # exact divergence of the mode sum at those points (amplitudes (z2 k_i, -z1 k_i))
    div = np.zeros(idx.size)
    tot = np.zeros(idx.size)
    for i in range(dim):
        di = summate_incompr(g._cov_sample, g._z_2 * g._cov_sample[i], -g._z_1 * g._cov_sample[i], np.ascontiguousarray(pts[:, idx]))[i]
        div += di
        tot += np.abs(di)
    rec.nontrivial(True)
    require(bool(np.all(np.abs(div) <= 1e-9 * (tot + 1e-300) + 1e-12 * np.sum(np.abs(g._cov_sample)))), "large request: analytic divergence of the mode sum does not vanish", tags)


# ---------------------------------------------------------------------------
# 6. vector fields written onto meshes: the stored rows are the velocity vectors of their points


@st.composite
def gen_mesh(draw, tier="quick"):
    dim = draw(st.sampled_from([2, 3]))
    return {
        "cls": draw(st.sampled_from(["Gaussian", "Exponential", "Matern"])),
        "dim": dim,
        "mode_no": draw(st.sampled_from([16, 64])),
        "n": draw(st.integers(4, 12)),
        "seed": draw(st.integers(0, 2**31 - 1)),
        "mean_u": draw(st.floats(0.3, 3.0)),
        "where": draw(st.sampled_from(["points", "centroids"])),
        "nblk": draw(st.integers(1, 3)),
    }


def check_mesh(case, rec):
    import meshio

    dim, n = case["dim"], case["n"]
    tags = {"model": case["cls"], "dim": dim, "kind": "mesh_vector_rows", "where": case["where"]}
    rec.label("mesh_" + case["where"], f"blocks{case['nblk']}")
    rs = np.random.RandomState(case["seed"] % (2**31 - 1))
    pts = rs.uniform(-3, 3, (n, 3))
    if dim == 2:
        pts[:, 2] = 0.0
    kinds_ = [("triangle", 3), ("line", 2), ("quad", 4)]
    blocks = [(kinds_[b][0], rs.randint(0, n, size=(2 + b + int(rs.randint(0, n)), kinds_[b][1]))) for b in range(case["nblk"])]
    mesh = meshio.Mesh(pts[:, :dim] if dim == 2 else pts, blocks)
    model = getattr(gs, case["cls"])(dim=dim, var=1.3, len_scale=2.0)
    kw = dict(generator="VectorField", mean_velocity=case["mean_u"], mode_no=case["mode_no"], seed=case["seed"] % 100000)
    with common.quiet():
        srf = lib(gs.SRF, model, _tags=tags, **kw)
        ret = np.asarray(lib(srf.mesh, mesh, points=case["where"], _what="SRF.mesh", _tags=tags))
        if case["where"] == "points":
            at = [pts.T[:dim]]
            stored = [np.asarray(mesh.point_data["field"])]
        else:
            at = [pts[c].mean(axis=1).T[:dim] for _nm, c in blocks]
            stored = [np.asarray(a) for a in mesh.cell_data["field"]]
        want = [np.asarray(gs.SRF(model, **kw)(p)) for p in [np.concatenate(at, axis=1)]][0]  # (dim, N) from a fresh object
    sc = abs(case["mean_u"]) * (1.0 + math.sqrt(1.3))
    require(ret.shape == want.shape and float(np.max(np.abs(ret - want))) <= 1e-9 * sc, "SRF.mesh returns other values than a direct call at the same points", tags)
    off = 0
    for b, (st_, a_) in enumerate(zip(stored, at)):
        m_ = a_.shape[1]
        require(st_.shape == (m_, dim), f"vector field stored on the mesh has shape {st_.shape} for {m_} points in {dim}-D (block {b})", tags)
        w = want[:, off : off + m_].T
        err = float(np.max(np.abs(st_ - w)))
        rec.discrepancy("mesh_vector_rows", err, 1e-9 * sc)
        require(err <= 1e-9 * sc, f"row i of the vector field stored on the mesh is not the velocity vector at point i (block {b}, max difference {err:.3g}); "
                "the stored field is then neither divergence free nor has the mean (U, 0[, 0])", tags)
        off += m_
    rec.nontrivial(True)


SUBS = [
    Sub("mesh_vectors", gen_mesh, check_mesh, quick=200, thorough=4000, shards_quick=2, shards_thorough=4),
    Sub("kernel_div", gen_kernel, check_kernel, quick=480, thorough=8000, shards_quick=4, shards_thorough=4),
    Sub("fd_div", gen_fd, check_fd, quick=450, thorough=7500, shards_quick=3, shards_thorough=3),
    Sub("projector", gen_projector, check_projector, quick=600, thorough=9000, shards_quick=3, shards_thorough=3),
    Sub("moments", gen_moments, check_moments, quick=24, thorough=120, shards_quick=5, shards_thorough=6, shrink_quick=False),
    Sub("large_request", gen_large, check_large, quick=10, thorough=40, shards_quick=1, shards_thorough=2, shrink_quick=False),
]

"""C09 - Variogram estimation respects its invariances and preprocessing semantics.

Every sub-check is a metamorphic relation between two (or more) runs of
``vario_estimate`` / ``vario_estimate_axis`` (+ ``standard_bins``, ``ang2dir``)
on related generated inputs.  The oracle is the relation itself; where a run
needs a transformed input (rotated points, spherical directions, preprocessed
field, sub-sample, grid point list) the transformation is written here from the
documented formula and never taken from GSTools.

Exactness policy (DESIGN C08/C09): pair counts must be identical, values agree
to 1e-12 relative per bin.  A transformation that perturbs distances,
directions or bin edges at rounding level can move a pair across a half-open
bin edge or the strict angular / band threshold; such cases are *discarded by
rule* (a pair within 1e-9 relative of an edge / threshold; counted with
``rec.exclude('tie-...')``).  Integer lattices with lattice-preserving
transformations (signed permutations, integer shifts, dyadic field factors)
are kept exact, so pairs lying exactly on an edge are exercised there.

All arrays are passed to the library as fresh copies (in-place modification of
caller arrays is property C20, not this one).
"""

import itertools
import math

import numpy as np
from hypothesis import strategies as st

import common  # noqa: F401
from common import Sub, lib, require
from gens import logfloat

import gstools as gs
from gstools.tools.geometric import ang2dir

ID = "C09"
LEVEL = "exploration"
RULE = (
    "Hypothesis draws a base problem (dim 1-3 or lat-lon; integer-lattice / float / duplicate "
    "point sets of 4-24 points; 1-3 stacked fields, integer or float valued, with per-field NaNs; "
    "increasing bin edges incl. achievable lattice distances; Matheron/Cressie; 0-3 directions "
    "with tolerance and optional bandwidth) plus one transformation per sub-check (permutation, "
    "orthogonal matrix incl. reflections + shift, field shift/scale, encoding of missing data, "
    "structured axes, sampling size/seed, spherical angles, direction factor, geo_scale, "
    "trend/mean/normalizer, field stack). Two runs are compared: counts exactly, values to 1e-12 "
    "relative per bin (condition-scaled where the field itself is perturbed). Non-trivial: the "
    "transformation is not the identity and >= 2 bins are non-empty; distinct by (sub-check, "
    "hash of the rounded case). Float ties (pair within 1e-9 of an edge/threshold under a "
    "rounding-level transformation) are discarded and counted."
)
ASSUMPTIONS = [
    "numpy (qr, RandomState.choice, meshgrid-free grid enumeration) is correct",
    "documented semantics: field -> normalize(field - trend) - mean; bins [e_i, e_i+1); "
    "angles per ISO 80000-2 (azimuth ccw from +x, inclination from +z); no_data matched with np.isclose",
    "the estimator kernel itself is checked against its definition in C08; here only relations between runs",
]

# known deviations on the unchanged tree: switch on = region skipped and counted
KNOWN = {
    # vario_estimate((x, y), field_2x2, mesh_type="structured") is read as a
    # 1-D mesh with the 4 "points" x0, x1, y0, y1 (format_struct_pos_shape
    # tries the 1-D interpretation first: 2 axes * 2 nodes == 4 field values);
    # likewise three axes of 3 nodes with a (3, 3, 3) field (9 == 3*3 -> "3
    # stacked fields on 9 points").  See _ambiguous_struct.
    # (fixed in /repo by c4c9483: switch off, the relation is asserted everywhere)
    "struct-equal-axes-as-1d": False,
    # vario_estimate_axis(field, no_data=v) with finite v no longer treats NaN as
    # missing (missing_mask is isnan OR isclose, never both): NaNs poison the sums
    # (fixed in /repo by e3792ad: switch off)
    "axis-nan-with-nodata": False,
    # dist_haversine: for (nearly) antipodal pairs rounding makes arg > 1,
    # sqrt(1 - arg) = NaN, and a NaN distance passes the bin test of EVERY bin
    # (kernel, estimator.pyx; reported to C08).  Only relations that move the
    # points at rounding level can see it.
    "haversine-antipodal-nan": True,
    # with bin_edges=None, points whose values are NaN / no_data (in all fields)
    # still enter standard_bins (box diameter and Sturges count), masked points
    # do not: the two encodings of the same missing set get different bins
    # listed in known_findings.json (K10): the assertion is live and reported as KNOWN-FINDING
    "stdbins-see-nan-points": False,
}

RT = 1e-12  # relative tolerance for values (rounding of re-ordered sums)
EPS = 2.220446049250313e-16
TIE = 1e-9  # relative margin of the discard rule


# ---------------------------------------------------------------------------
# helpers


def _copy_pos(pos):
    if isinstance(pos, tuple):
        return tuple(np.array(p, dtype=float) for p in pos)
    return np.array(pos, dtype=float)


def _copy_field(f):
    if isinstance(f, list):
        return [_copy_field(x) for x in f]
    if isinstance(f, np.ma.MaskedArray):
        return np.ma.array(f.data.copy(), mask=np.ma.getmaskarray(f).copy())
    return np.array(f, dtype=float)


def _ve(tags, pos, field, edges, **kw):
    """vario_estimate on copies; returns (centers, gamma, counts[, rest])."""
    e = None if edges is None else np.array(edges, dtype=float)
    kw2 = {}
    for k, v in kw.items():
        kw2[k] = np.array(v, copy=True) if isinstance(v, np.ndarray) else v
    out = lib(
        gs.vario_estimate,
        _copy_pos(pos),
        _copy_field(field),
        e,
        return_counts=True,
        _what="vario_estimate",
        _tags=tags,
        **kw2,
    )
    return (np.asarray(out[0], dtype=float), np.asarray(out[1], dtype=float), np.asarray(out[2])) + tuple(out[3:])


def _vals(rec, tags, what, got, want, rtol=RT):
    got = np.asarray(got, dtype=float)
    want = np.asarray(want, dtype=float)
    require(got.shape == want.shape, f"{what}: value shapes differ {got.shape} vs {want.shape}", tags)
    require(
        bool(np.all(np.isfinite(got)) and np.all(np.isfinite(want))),
        f"{what}: non-finite variogram values {got} / {want}",
        tags,
    )
    if got.size == 0:
        return
    ref = np.maximum(np.abs(got), np.abs(want))
    err = np.abs(got - want)
    rel = np.where(ref > 0, err / np.where(ref > 0, ref, 1.0), 0.0)
    worst = float(np.max(rel))
    rec.discrepancy(what, worst, rtol)
    if worst > rtol:
        i = int(np.argmax(rel))
        require(
            False,
            f"{what}: values differ, rel err {worst:.3g} > {rtol:.3g} "
            f"(flat bin {i}: {got.ravel()[i]!r} vs {want.ravel()[i]!r})",
            tags,
        )


def _same(rec, tags, what, a, b, rtol=RT, factor=1.0, centers=True):
    """Run a equals run b: counts exactly, values (a == factor*b) to rtol."""
    ca, ga, na = a[:3]
    cb, gb, nb = b[:3]
    require(
        na.shape == nb.shape and bool(np.array_equal(na, nb)),
        f"{what}: pair counts differ {na.tolist()} vs {nb.tolist()}",
        tags,
    )
    if centers:
        require(
            ca.shape == cb.shape and bool(np.allclose(ca, cb, rtol=1e-14, atol=0)),
            f"{what}: bin centers differ {ca} vs {cb}",
            tags,
        )
    _vals(rec, tags, what, ga, factor * gb, rtol)


def _skip(rec, key):
    """Discard a case by rule (counted; never counted as non-trivial)."""
    rec.exclude(key)
    rec.nontrivial(False)


def _ambiguous_struct(lens, field_shape):
    """Equal-length axes whose node total d*a equals the field size (or the size
    of one stacked field) are read as ONE 1-D axis by format_struct_pos_shape."""
    d = len(lens)
    if d < 2 or len(set(lens)) != 1:
        return False
    tot = d * lens[0]
    return tot == int(np.prod(field_shape)) or tot == int(np.prod(field_shape[1:]))


def _nonempty(counts):
    c = np.asarray(counts)
    if c.ndim == 1:
        return int(np.sum(c > 0))
    return int(np.max(np.sum(c > 0, axis=1))) if c.size else 0


def _pairs(pos):
    """All pair difference vectors (dim, m) and distances, plain numpy."""
    pos = np.asarray(pos, dtype=float)
    n = pos.shape[1]
    i, j = np.triu_indices(n, 1)
    d = pos[:, i] - pos[:, j]
    return d, np.sqrt(np.sum(d * d, axis=0))


def _edge_tie(dist, edges, margin):
    if edges is None or dist.size == 0:
        return False
    e = np.asarray(edges, dtype=float)
    # an edge at exactly 0 cannot separate anything: distances are >= 0 and the
    # transformations used map 0 to 0
    e = e[e != 0]
    return bool(e.size and np.any(np.abs(dist[:, None] - e[None, :]) <= margin))


def _dir_tie(dvec, dist, dirs, tol, bw, scale):
    """Any pair within the discard margin of the angular / band threshold?"""
    nz = dist > 0
    if not np.any(nz):
        return False
    dv = dvec[:, nz]
    ds = dist[nz]
    for u in np.atleast_2d(np.asarray(dirs, dtype=float)):
        u = u / np.linalg.norm(u)
        s = dv.T @ u
        c = np.minimum(np.abs(s) / ds, 1.0)
        ang = np.arccos(c)
        margin = TIE * (1.0 + scale / ds)
        if np.any(np.abs(ang - tol) <= margin):
            return True
        if bw is not None:
            perp = dv - np.outer(u, s)
            b = np.sqrt(np.sum(perp * perp, axis=0))
            if np.any(np.abs(b - bw) <= TIE * (scale + bw)):
                return True
    return False


def _has_coincident(pos):
    _, dist = _pairs(pos)
    return bool(np.any(dist == 0))


def _fields(case):
    nf = case["nf"]
    f = np.array(case["fields"], dtype=float).reshape(nf, -1)
    nan = case.get("nan")
    if nan:
        f = f.copy()
        f[np.array(nan, dtype=bool).reshape(f.shape)] = np.nan
    return f


def _pos(case):
    return np.array(case["pos"], dtype=float).reshape(case["dim"], -1)


def _field_arg(f):
    """Single field as 1-D array, stacks as 2-D array."""
    return f[0] if f.shape[0] == 1 else f


def _dir_kw(case):
    kw = {}
    if case.get("dirs"):
        kw["direction"] = np.array(case["dirs"], dtype=float)
        kw["angles_tol"] = case["tol"]
        if case.get("bw") is not None:
            kw["bandwidth"] = case["bw"]
    return kw


def _cond_rtol(f, extra):
    """Relative tolerance when every field value is perturbed by ~eps*extra.

    A difference d = f_i - f_j then has relative error <= 4*eps*extra/|d|;
    Matheron (d^2) and Cressie (|d|^(1/2), mean, ^4) both amplify this by 2.
    Exactly equal values stay exactly equal under the affine maps used.
    """
    # smallest non-zero difference over *all* pairs of values (a superset of the pairs any estimator forms:
    # rows of a stack, but columns of a grid for the axis estimator), hence a conservative conditioning
    dmin = math.inf
    allv = np.asarray(f, dtype=float).ravel()
    v = np.unique(allv[~np.isnan(allv)])
    if v.size > 1:
        dmin = float(np.min(np.diff(v)))
    if not math.isfinite(dmin):
        return RT
    return RT + 16 * EPS * extra / dmin


# ---------------------------------------------------------------------------
# generators


def _lat_edge():
    return st.one_of(
        st.integers(0, 10).map(float),
        st.integers(1, 19).map(lambda k: k / 2.0),
        st.integers(1, 60).map(lambda m: math.sqrt(m)),
    )


@st.composite
def g_edges(draw, kind, top=8.0):
    k = draw(st.integers(3, 8))
    if kind in ("lattice", "dup"):
        es = draw(st.lists(_lat_edge(), min_size=k, max_size=k, unique=True))
    else:
        es = draw(st.lists(st.floats(0.01, top), min_size=k, max_size=k, unique=True))
    es = sorted(es)
    if draw(st.booleans()):
        es[0] = 0.0
    es = sorted(set(es))
    if len(es) < 2:
        es = [0.0, top]
    return es


@st.composite
def g_points(draw, dim, n_min=4, n_max=24, kinds=("lattice", "cloud", "dup"), unique=False):
    kind = draw(st.sampled_from(list(kinds)))
    n = draw(st.integers(n_min, n_max))
    if kind == "lattice" or (kind == "dup" and unique):
        kind = "lattice"
        r = 12 if dim == 1 else (5 if dim == 2 else 3)
        if unique:
            n = min(n, (2 * r + 1) ** dim - 1)
        pts = draw(
            st.lists(
                st.tuples(*[st.integers(-r, r)] * dim),
                min_size=n,
                max_size=n,
                unique=unique,
            )
        )
        arr = np.array(pts, dtype=float).reshape(n, dim).T
    elif kind == "dup":
        m = max(2, n // 2)
        base = draw(
            st.lists(st.tuples(*[st.integers(-4, 4)] * dim), min_size=m, max_size=m)
        )
        idx = draw(st.lists(st.integers(0, m - 1), min_size=n, max_size=n))
        arr = np.array([base[i] for i in idx], dtype=float).reshape(n, dim).T
    else:
        pts = draw(
            st.lists(
                st.tuples(*[st.floats(-3, 3)] * dim),
                min_size=n,
                max_size=n,
                unique=unique,
            )
        )
        arr = np.array(pts, dtype=float).reshape(n, dim).T
    return kind, arr.tolist()


@st.composite
def g_fieldvals(draw, nf, n, fkind=None, nan=True):
    if isinstance(fkind, (tuple, list)):
        fkind = draw(st.sampled_from(list(fkind)))
    fkind = fkind or draw(st.sampled_from(["int", "float", "dyadic"]))
    if fkind == "int":
        el = st.integers(-20, 20).map(float)
    elif fkind == "dyadic":
        el = st.integers(-512, 512).map(lambda k: k / 8.0)
    elif fkind == "decimal":
        # inexact in binary, but differences are either 0 or >= 1e-3
        el = st.integers(-10000, 10000).map(lambda k: k / 1000.0)
    else:
        el = st.floats(-10, 10)
    vals = draw(st.lists(st.lists(el, min_size=n, max_size=n), min_size=nf, max_size=nf))
    nanm = None
    if nan and draw(st.integers(0, 2)) == 0:
        nanm = draw(
            st.lists(
                st.lists(st.integers(0, 4).map(lambda k: k == 0), min_size=n, max_size=n),
                min_size=nf,
                max_size=nf,
            )
        )
    return fkind, vals, nanm


def _bandwidth():
    """None or an odd multiple of 1/32: never equal to a band distance of an
    integer lattice (m/sqrt(k), k = |integer direction|^2), so no built-in ties."""
    return st.one_of(st.none(), st.integers(3, 64).map(lambda k: (2 * k + 1) / 32.0), st.floats(0.2, 4.0))


@st.composite
def g_dirs(draw, dim, max_dirs=3, nd=None):
    nd = nd if nd is not None else draw(st.integers(1, max_dirs))
    out = []
    for _ in range(nd):
        if draw(st.booleans()):
            v = draw(st.lists(st.integers(-2, 2), min_size=dim, max_size=dim))
            v = [float(x) for x in v]
        else:
            v = draw(st.lists(st.floats(-1, 1), min_size=dim, max_size=dim))
        if math.sqrt(sum(x * x for x in v)) < 0.1:
            v = [1.0] + [0.0] * (dim - 1)
        out.append(v)
    tol = draw(
        st.one_of(
            st.floats(0.05, math.pi / 2),
            st.floats(0.05, math.pi / 2),
            st.floats(0.05, math.pi / 2),
            st.sampled_from([math.pi / 8, math.pi / 8, math.pi / 8, math.pi / 4, math.pi / 2]),
        )
    )
    bw = draw(_bandwidth())
    return out, tol, bw


@st.composite
def g_base(
    draw,
    dims=(1, 2, 3),
    modes=("iso", "dir"),
    n_min=4,
    n_max=24,
    nf_max=3,
    kinds=("lattice", "cloud", "dup"),
    nan=True,
    fkind=None,
    max_dirs=3,
):
    """A base variogram problem as a JSON dict."""
    mode = draw(st.sampled_from(list(modes)))
    case = {"mode": mode}
    if mode == "latlon":
        n = draw(st.integers(n_min, n_max))
        special = draw(st.integers(0, 2)) == 0  # poles, date line, equator
        lat_el = [st.floats(-90, 90)] * 3 + ([st.sampled_from([90.0, -90.0, 0.0])] if special else [])
        lon_el = [st.floats(-180, 180), st.floats(-180, 180), st.floats(-720, 720)] + (
            [st.sampled_from([180.0, -180.0, 0.0, 360.0])] if special else []
        )
        lat = draw(st.lists(st.one_of(*lat_el), min_size=n, max_size=n))
        lon = draw(st.lists(st.one_of(*lon_el), min_size=n, max_size=n))
        case.update(dim=2, kind="sphere", pos=[lat, lon])
        k = draw(st.integers(3, 8))
        es = sorted(draw(st.lists(st.floats(0.01, math.pi), min_size=k, max_size=k, unique=True)))
        if draw(st.booleans()):
            es[0] = 0.0
        case["edges"] = sorted(set(es))
    else:
        dim = draw(st.sampled_from([d for d in dims if not (mode == "dir" and d == 1)] or [2]))
        ndirs = draw(st.integers(1, max_dirs)) if mode == "dir" else 0
        kk = tuple(k for k in kinds if not (ndirs >= 2 and k == "dup"))
        # >= 2 directions: no coincident points (kernel quirk K2 belongs to C08)
        kind, pos = draw(g_points(dim, n_min, n_max, kk, unique=ndirs >= 2))
        n = len(pos[0])
        case.update(dim=dim, kind=kind, pos=pos)
        case["edges"] = draw(g_edges(kind))
        if mode == "dir":
            dirs, tol, bw = draw(g_dirs(dim, nd=ndirs))
            case.update(dirs=dirs, tol=tol, bw=bw)
    nf = draw(st.integers(1, nf_max))
    fk, vals, nanm = draw(g_fieldvals(nf, n, fkind=fkind, nan=nan))
    case.update(nf=nf, fkind=fk, fields=vals, nan=nanm)
    case["estimator"] = draw(st.sampled_from(["matheron", "cressie"]))
    return case


def _base_kw(case):
    kw = {"estimator": case["estimator"]}
    if case["mode"] == "latlon":
        kw["latlon"] = True
    kw.update(_dir_kw(case))
    return kw


def _base_labels(rec, case):
    rec.label(
        case["mode"],
        f"dim{case['dim']}",
        case["kind"],
        case["estimator"],
        f"nf{case['nf']}",
        "nan" if case.get("nan") else "nonan",
    )
    if case.get("dirs"):
        rec.label(f"ndir{len(case['dirs'])}", "band" if case.get("bw") is not None else "noband")


def _tags(case, sub, **more):
    t = {
        "sub": sub,
        "mode": case.get("mode"),
        "dim": case.get("dim"),
        "estimator": case.get("estimator"),
        "nf": case.get("nf"),
        "kind": sub,
    }
    t.update(more)
    return t


# ---------------------------------------------------------------------------
# 1. permutation


@st.composite
def gen_perm(draw, tier="quick"):
    case = draw(g_base(modes=("iso", "iso", "dir", "latlon")))
    n = len(case["pos"][0])
    case["perm"] = draw(st.permutations(list(range(n))))
    case["fperm"] = draw(st.permutations(list(range(case["nf"]))))
    case["mask"] = draw(
        st.one_of(st.none(), st.lists(st.integers(0, 3).map(lambda k: k == 0), min_size=n, max_size=n))
    )
    return case


def check_perm(case, rec):
    tags = _tags(case, "perm")
    _base_labels(rec, case)
    pos, f = _pos(case), _fields(case)
    p = np.array(case["perm"], dtype=int)
    fp = np.array(case["fperm"], dtype=int)
    kw = _base_kw(case)
    kwa, kwb = dict(kw), dict(kw)
    if case.get("mask") is not None:
        m = np.array(case["mask"], dtype=bool)
        if m.all():
            m[0] = False
        if m.any():
            rec.label("mask")
            kwa["mask"], kwb["mask"] = m, m[p]
    a = _ve(tags, pos, _field_arg(f), case["edges"], **kwa)
    b = _ve(tags, pos[:, p], _field_arg(f[fp][:, p]), case["edges"], **kwb)
    # exact relation (distances / projections are symmetric in IEEE arithmetic)
    _same(rec, tags, "perm", b, a)
    ident = bool(np.all(p == np.arange(p.size)))
    rec.nontrivial(not ident and _nonempty(a[2]) >= 2)


# ---------------------------------------------------------------------------
# 2. rigid motion


@st.composite
def gen_rigid(draw, tier="quick"):
    case = draw(g_base(modes=("iso", "dir", "dir", "latlon")))
    dim = case["dim"]
    if case["mode"] == "latlon":
        mk = draw(st.sampled_from(["lonshift", "wrap", "flip", "rot", "rot"]))
        case["motion"] = mk
        if mk == "lonshift":
            case["dlon"] = draw(st.floats(-400, 400))
        elif mk == "wrap":
            n = len(case["pos"][0])
            case["wrap"] = draw(st.lists(st.integers(-2, 2), min_size=n, max_size=n))
        elif mk == "flip":
            case["flip"] = draw(st.sampled_from(["lat", "lon", "both"]))
        else:
            q = draw(st.lists(st.floats(-1, 1), min_size=4, max_size=4))
            if sum(x * x for x in q) < 1e-2:
                q = [1.0, 0.5, 0.25, 0.125]
            case["quat"] = q
            case["reflect"] = draw(st.booleans())
        return case
    exact = case["kind"] in ("lattice", "dup") and draw(st.integers(0, 3)) > 0
    if exact:
        case["motion"] = "signed_perm"
        case["axes"] = draw(st.permutations(list(range(dim))))
        case["signs"] = draw(st.lists(st.sampled_from([-1, 1]), min_size=dim, max_size=dim))
        case["shift"] = [float(x) for x in draw(st.lists(st.integers(-50, 50), min_size=dim, max_size=dim))]
    else:
        case["motion"] = "orth"
        if case["kind"] in ("lattice", "dup"):
            # lattice distances sit exactly on lattice edges: a float rotation would only produce ties
            case["edges"] = draw(g_edges("cloud"))
        case["mat"] = draw(
            st.lists(st.lists(st.floats(-1, 1), min_size=dim, max_size=dim), min_size=dim, max_size=dim)
        )
        case["reflect"] = draw(st.booleans())
        case["shift"] = draw(st.lists(st.floats(-100, 100), min_size=dim, max_size=dim))
    return case


def _orth(case):
    """Orthogonal matrix with prescribed determinant sign (numpy QR)."""
    dim = case["dim"]
    if case["motion"] == "signed_perm":
        R = np.zeros((dim, dim))
        for i, (a, s) in enumerate(zip(case["axes"], case["signs"])):
            R[i, a] = float(s)
        return R
    M = np.array(case["mat"], dtype=float).reshape(dim, dim)
    if abs(np.linalg.det(M)) < 1e-3:
        M = M + 2.0 * np.eye(dim)
    Q, _ = np.linalg.qr(M)
    want = -1.0 if case["reflect"] else 1.0
    if np.linalg.det(Q) * want < 0:
        Q[:, 0] = -Q[:, 0]
    return Q


def _unit(lat, lon):
    la, lo = np.radians(lat), np.radians(lon)
    return np.array([np.cos(la) * np.cos(lo), np.cos(la) * np.sin(lo), np.sin(la)])


def _sphere_dist(lat, lon):
    """Central angles of all pairs via atan2(|a x b|, a.b) (not haversine)."""
    u = _unit(np.asarray(lat, dtype=float), np.asarray(lon, dtype=float))
    i, j = np.triu_indices(u.shape[1], 1)
    a, b = u[:, i], u[:, j]
    cr = np.cross(a, b, axis=0)
    return np.arctan2(np.sqrt(np.sum(cr * cr, axis=0)), np.sum(a * b, axis=0))


def _quat_rot(q):
    q = np.asarray(q, dtype=float)
    w, x, y, z = q / np.linalg.norm(q)
    return np.array(
        [
            [1 - 2 * (y * y + z * z), 2 * (x * y - z * w), 2 * (x * z + y * w)],
            [2 * (x * y + z * w), 1 - 2 * (x * x + z * z), 2 * (y * z - x * w)],
            [2 * (x * z - y * w), 2 * (y * z + x * w), 1 - 2 * (x * x + y * y)],
        ]
    )


def check_rigid(case, rec):
    tags = _tags(case, "rigid", motion=case["motion"])
    _base_labels(rec, case)
    rec.label(case["motion"])
    pos, f = _pos(case), _fields(case)
    kw = _base_kw(case)
    edges = case["edges"]
    if case["mode"] == "latlon":
        lat, lon = pos
        mk = case["motion"]
        ident = False
        if mk == "lonshift":
            lat2, lon2 = lat, lon + case["dlon"]
            ident = case["dlon"] == 0
        elif mk == "wrap":
            lat2, lon2 = lat, lon + 360.0 * np.array(case["wrap"], dtype=float)
            ident = not any(case["wrap"])
        elif mk == "flip":
            lat2 = -lat if case["flip"] in ("lat", "both") else lat
            lon2 = -lon if case["flip"] in ("lon", "both") else lon
        else:
            R = _quat_rot(case["quat"])
            if case["reflect"]:
                R = R @ np.diag([1.0, 1.0, -1.0])
            v = R @ _unit(lat, lon)
            # well conditioned at the poles (no arcsin)
            lat2 = np.degrees(np.arctan2(v[2], np.hypot(v[0], v[1])))
            lon2 = np.degrees(np.arctan2(v[1], v[0]))
        if mk != "flip":  # flips are exact in the haversine formula
            sd = _sphere_dist(lat, lon)
            if sd.size and float(sd.max()) > math.pi - 1e-6:
                if KNOWN["haversine-antipodal-nan"]:
                    # drop one point of every (nearly) antipodal pair, keep the rest
                    rec.exclude("haversine-antipodal-nan")
                    keep = np.ones(lat.size, dtype=bool)
                    ii, jj = np.triu_indices(lat.size, 1)
                    for a_, b_ in zip(ii[sd > math.pi - 1e-6], jj[sd > math.pi - 1e-6]):
                        if keep[a_] and keep[b_]:
                            keep[b_] = False
                    pos, f = pos[:, keep], f[:, keep]
                    lat, lon, lat2, lon2 = lat[keep], lon[keep], lat2[keep], lon2[keep]
                    sd = _sphere_dist(lat, lon)
                else:
                    tags = dict(tags, kind="haversine_antipodal_nan")
            if _edge_tie(sd, edges, TIE * 4):
                _skip(rec, "tie-edge")
                return
        a = _ve(tags, pos, _field_arg(f), edges, **kw)
        b = _ve(tags, np.array([lat2, lon2]), _field_arg(f), edges, **kw)
        _same(rec, tags, "rigid-sphere", b, a)
        rec.nontrivial(not ident and _nonempty(a[2]) >= 2)
        return
    R = _orth(case)
    dim = case["dim"]
    require(
        float(np.max(np.abs(R @ R.T - np.eye(dim)))) < 1e-13, "harness: R not orthogonal", tags
    )
    rec.label("det-1" if np.linalg.det(R) < 0 else "det+1")
    t = np.array(case["shift"], dtype=float)
    pos2 = R @ pos + t[:, None]
    scale = float(np.max(np.abs(pos))) + float(np.max(np.abs(t))) + float(max(edges)) + 1.0
    dvec, dist = _pairs(pos)
    exact = case["motion"] == "signed_perm"
    if not exact and _edge_tie(dist, edges, TIE * scale):
        _skip(rec, "tie-edge")
        return
    kwb = dict(kw)
    if case.get("dirs"):
        d = np.array(case["dirs"], dtype=float)
        if _dir_tie(dvec, dist, d, case["tol"], case.get("bw"), scale):
            _skip(rec, "tie-dir")
            return
        kwb["direction"] = (R @ d.T).T
    a = _ve(tags, pos, _field_arg(f), edges, **kw)
    b = _ve(tags, pos2, _field_arg(f), edges, **kwb)
    _same(rec, tags, "rigid", b, a)
    ident = bool(np.array_equal(R, np.eye(dim)) and not np.any(t))
    rec.nontrivial(not ident and _nonempty(a[2]) >= 2)


# ---------------------------------------------------------------------------
# 3. field shift / scale (vario_estimate and vario_estimate_axis)


@st.composite
def g_grid_field(draw, max_cells=120, nan=True, fkind=None):
    dim = draw(st.sampled_from([1, 2, 2, 3]))
    shape = draw(st.lists(st.integers(2, 7), min_size=dim, max_size=dim))
    while int(np.prod(shape)) > max_cells:
        shape[int(np.argmax(shape))] -= 1
    size = int(np.prod(shape))
    fk, vals, nanm = draw(g_fieldvals(1, size, nan=nan, fkind=fkind))
    return {"gdim": dim, "shape": shape, "fkind": fk, "gvals": vals[0], "gnan": nanm[0] if nanm else None}


def _grid_field(case):
    f = np.array(case["gvals"], dtype=float).reshape(case["shape"])
    if case.get("gnan"):
        f = f.copy()
        f[np.array(case["gnan"], dtype=bool).reshape(case["shape"])] = np.nan
    return f


@st.composite
def gen_affine(draw, tier="quick"):
    target = draw(st.sampled_from(["ve", "ve", "axis"]))
    if target == "ve":
        case = draw(g_base(modes=("iso", "dir", "latlon"), fkind=("int", "dyadic", "decimal", "decimal")))
    else:
        case = draw(g_grid_field(fkind=("int", "dyadic", "decimal", "decimal")))
        case["axis"] = draw(st.integers(0, case["gdim"] - 1))
        case["estimator"] = draw(st.sampled_from(["matheron", "cressie"]))
        case["mode"] = "axis"
    case["target"] = target
    if case["fkind"] in ("int", "dyadic") and draw(st.integers(0, 3)) > 0:
        case["exact"] = True
        case["c"] = draw(st.integers(-8000, 8000)) / 8.0
        case["s"] = draw(st.sampled_from([-1.0, 1.0])) * 2.0 ** draw(st.integers(-6, 6))
    else:
        case["exact"] = False
        case["c"] = draw(st.floats(-100, 100))
        case["s"] = draw(st.sampled_from([-1.0, 1.0])) * draw(logfloat(1e-3, 1e3))
    return case


def check_affine(case, rec):
    tags = _tags(case, "affine", target=case["target"], exact=case["exact"])
    c, s = case["c"], case["s"]
    rec.label(case["target"], case["estimator"], "exact" if case["exact"] else "float")
    if case["target"] == "axis":
        f = _grid_field(case)
        rec.label("nan" if case.get("gnan") else "nonan")

        def run(x):
            return (
                None,
                np.asarray(
                    lib(
                        gs.vario_estimate_axis,
                        np.array(x, copy=True),
                        direction=case["axis"],
                        estimator=case["estimator"],
                        _tags=tags,
                    ),
                    dtype=float,
                ),
                None,
            )

        base = run(f)
        nonempty = int(np.sum(base[1] > 0))
    else:
        _base_labels(rec, case)
        pos, f = _pos(case), _fields(case)
        kw = _base_kw(case)

        def run(x):
            return _ve(tags, pos, _field_arg(x), case["edges"], **kw)

        base = run(f)
        nonempty = _nonempty(base[2])
    fmax = float(np.nanmax(np.abs(f))) if np.any(~np.isnan(f)) else 0.0
    if case["exact"]:
        r_shift = r_scale = r_both = RT
    else:
        r_shift = _cond_rtol(f, fmax + abs(c))
        r_scale = _cond_rtol(f, fmax)
        r_both = _cond_rtol(f, fmax + abs(c) / abs(s))
    for name, g, fac, rtol in (
        ("shift", f + c, 1.0, r_shift),
        ("scale", s * f, s * s, r_scale),
        ("affine", s * f + c, s * s, r_both),
    ):
        if rtol > 1e-9:  # ill-conditioned differences: nothing can be said
            rec.exclude("illcond-" + name)
            continue
        got = run(g)
        if case["target"] == "axis":
            _vals(rec, dict(tags, rel=name), name + "-axis", got[1], fac * base[1], rtol)
        else:
            _same(rec, dict(tags, rel=name), name, got, base, rtol=rtol, factor=fac)
    rec.nontrivial((c != 0 or abs(s) != 1) and nonempty >= 2)


# ---------------------------------------------------------------------------
# 4. mask == no_data == NaN == removal


@st.composite
def gen_missing(draw, tier="quick"):
    case = draw(g_base(modes=("iso", "iso", "dir", "latlon"), nan=False, n_min=5))
    n = len(case["pos"][0])
    nf = case["nf"]
    # points missing in every field (removable) and per-field extra holes
    case["miss_all"] = draw(st.lists(st.integers(0, 3).map(lambda k: k == 0), min_size=n, max_size=n))
    case["miss_f"] = draw(
        st.lists(
            st.lists(st.integers(0, 5).map(lambda k: k == 0), min_size=n, max_size=n),
            min_size=nf,
            max_size=nf,
        )
    )
    # how each missing value is encoded in the mixed run: 0 NaN, 1 no_data, 2 field mask, 3 mask argument
    case["enc"] = draw(st.lists(st.integers(0, 3), min_size=n, max_size=n))
    case["nd_off"] = draw(st.floats(10.0, 1e4))
    case["nd_sign"] = draw(st.sampled_from([-1.0, 1.0]))
    case["nd_jitter"] = draw(st.lists(st.integers(-2, 2), min_size=n, max_size=n))
    case["container"] = draw(st.sampled_from(["array", "list"]))
    case["stdbins"] = draw(st.integers(0, 4)) == 0
    return case


def check_missing(case, rec):
    tags = _tags(case, "missing")
    _base_labels(rec, case)
    pos, f = _pos(case), _fields(case)
    nf, n = f.shape
    kw = _base_kw(case)
    edges = case["edges"]
    mall = np.array(case["miss_all"], dtype=bool)
    if n - int(mall.sum()) < 3:
        mall[:] = False
        mall[0] = True
    mf = np.array(case["miss_f"], dtype=bool).reshape(nf, n)
    if nf == 1:
        mf[:] = False  # a hole in the only field is a removable point
    mf = mf & ~mall[None, :]
    if nf > 1:
        # a point missing in all fields belongs to miss_all
        extra = np.all(mf, axis=0)
        mall = mall | extra
        mf = mf & ~mall[None, :]
        if n - int(mall.sum()) < 3:
            _skip(rec, "too-few-points")
            return
    miss = mf | mall[None, :]
    rec.label("perfield" if mf.any() else "common")
    fmax = float(np.max(np.abs(f)))
    nd = case["nd_sign"] * (fmax + case["nd_off"])
    # values that np.isclose(., nd) accepts (rounding-level jitter)
    ndv = nd * (1.0 + 1e-11 * np.array(case["nd_jitter"], dtype=float))
    if np.any(ndv != nd):
        rec.label("nd_jitter")

    def wrap(x):
        if case["container"] == "list" and nf > 1:
            return [row for row in x]
        return _field_arg(x) if not isinstance(x, np.ma.MaskedArray) else (x[0] if nf == 1 else x)

    # reference: removal of common-missing points, NaN for the per-field holes
    keep = ~mall
    f_ref = f.copy()
    f_ref[mf] = np.nan
    ref = _ve(tags, pos[:, keep], _field_arg(f_ref[:, keep]), edges, **kw)
    if nf == 1 or not mf.any():
        rec.label("pure-removal")
    # (a) NaN
    fa = f.copy()
    fa[miss] = np.nan
    _same(rec, dict(tags, enc="nan"), "nan-vs-removal", _ve(tags, pos, wrap(fa), edges, **kw), ref)
    # (b) no_data
    fb = f.copy()
    fb[miss] = np.broadcast_to(ndv, f.shape)[miss]
    _same(
        rec,
        dict(tags, enc="no_data"),
        "nodata-vs-removal",
        _ve(tags, pos, wrap(fb), edges, no_data=nd, **kw),
        ref,
    )
    # (c) masked array (per-field masks); masked slots hold garbage values
    fc = np.ma.array(np.where(miss, 12345.678, f), mask=miss)
    _same(rec, dict(tags, enc="ma"), "maskedarray-vs-removal", _ve(tags, pos, wrap(fc), edges, **kw), ref)
    if nf > 1:
        lst = [np.ma.array(np.where(miss[i], -777.0, f[i]), mask=miss[i]) for i in range(nf)]
        _same(rec, dict(tags, enc="ma-list"), "list-of-masked-vs-removal", _ve(tags, pos, lst, edges, **kw), ref)
    # (d) mask argument for the common part, NaN for the per-field holes
    if mall.any():
        fd = f.copy()
        fd[mf] = np.nan
        fd[:, mall] = 4321.0
        _same(
            rec,
            dict(tags, enc="mask"),
            "maskarg-vs-removal",
            _ve(tags, pos, wrap(fd), edges, mask=mall.copy(), **kw),
            ref,
        )
    # (e) all four encodings mixed in one call
    enc = np.array(case["enc"], dtype=int)
    fe = f.copy()
    e_nan = miss & (enc[None, :] == 0)
    e_nd = miss & (enc[None, :] == 1)
    e_ma = miss & (enc[None, :] == 2)
    e_arg = mall & (enc == 3)
    rest = miss & (enc[None, :] == 3) & ~e_arg[None, :]  # per-field holes cannot use the mask argument
    e_nan = e_nan | rest
    fe[e_nan] = np.nan
    fe[e_nd] = np.broadcast_to(ndv, f.shape)[e_nd]
    fe[:, e_arg] = -55.5
    fe_m = np.ma.array(np.where(e_ma, 999.0, fe), mask=e_ma)
    kwe = dict(kw, no_data=nd)
    if e_arg.any():
        kwe["mask"] = e_arg.copy()
    _same(rec, dict(tags, enc="mixed"), "mixed-vs-removal", _ve(tags, pos, wrap(fe_m), edges, **kwe), ref)
    # the caller keeps the objects and estimates again without the sentinel: the result is the one for freshly built equal inputs
    held_f, held_p = _copy_field(wrap(fe_m)), _copy_pos(pos)
    kwh = {k: (np.array(v, copy=True) if isinstance(v, np.ndarray) else v) for k, v in kwe.items()}
    with common.quiet():
        lib(gs.vario_estimate, held_p, held_f, np.array(edges, dtype=float), return_counts=True, _what="vario_estimate", _tags=tags, **kwh)
        kw_plain = {k: v for k, v in kwh.items() if k != "no_data"}
        o2 = lib(gs.vario_estimate, held_p, held_f, np.array(edges, dtype=float), return_counts=True, _what="vario_estimate", _tags=tags, **kw_plain)
    o3 = _ve(tags, pos, wrap(fe_m), edges, **{k: v for k, v in kwe.items() if k != "no_data"})
    require(bool(np.array_equal(np.asarray(o2[1], dtype=float), o3[1], equal_nan=True)) and bool(np.array_equal(np.asarray(o2[2]), o3[2])),
            "second estimate on the caller's own field / position / mask objects (after a first call with no_data) differs from the estimate for freshly built equal inputs",
            dict(tags, enc="mixed", kind="input_changed_by_call"))
    # (f) standard bins: masked points are removed before binning
    if case["stdbins"] and mall.any() and not mf.any() and case["mode"] != "dir":
        rec.label("stdbins")
        # (same retained coordinates bit for bit -> same default bins)
        r2 = _ve(tags, pos[:, keep], _field_arg(f[:, keep]), None, **kw)
        g2 = _ve(tags, pos, wrap(np.where(miss, 0.0, f)), None, mask=mall.copy(), **kw)
        _same(rec, dict(tags, enc="mask-stdbins"), "maskarg-stdbins", g2, r2)
        # NaN / no_data points still enter standard_bins (box diameter, Sturges count)
        if KNOWN["stdbins-see-nan-points"]:
            rec.exclude("stdbins-see-nan-points")
        else:
            g3 = _ve(tags, pos, wrap(fa), None, **kw)
            _same(rec, dict(tags, enc="nan-stdbins", kind="stdbins_see_nan_points"), "nan-stdbins", g3, r2)
    rec.nontrivial(bool(miss.any()) and _nonempty(ref[2]) >= 2)


# ---------------------------------------------------------------------------
# 5. structured == unstructured


@st.composite
def gen_struct(draw, tier="quick"):
    dim = draw(st.sampled_from([1, 2, 2, 3]))
    lens = draw(st.lists(st.integers(2, 6), min_size=dim, max_size=dim))
    while int(np.prod(lens)) > 60:
        lens[int(np.argmax(lens))] -= 1
    akind = draw(st.sampled_from(["int", "float"]))
    axes = []
    for ln in lens:
        if akind == "int":
            ax = draw(st.lists(st.integers(-6, 6), min_size=ln, max_size=ln, unique=True))
            ax = [float(a) for a in ax]
        else:
            ax = draw(st.lists(st.floats(-3, 3), min_size=ln, max_size=ln, unique=True))
        if draw(st.booleans()):
            ax = sorted(ax)
        axes.append(ax)
    nf = draw(st.integers(1, 3))
    stack_single = draw(st.booleans())
    fshape = tuple(lens) if (nf == 1 and not stack_single) else (nf,) + tuple(lens)
    if KNOWN["struct-equal-axes-as-1d"] and _ambiguous_struct(tuple(lens), fshape):
        lens[-1] += 1  # known misreading of equal-length axes: outside the main search
        while len(axes[-1]) < lens[-1]:
            axes[-1].append(max(axes[-1]) + 1.0)
    size = int(np.prod(lens))
    fk, vals, nanm = draw(g_fieldvals(nf, size))
    mode = draw(st.sampled_from(["iso", "dir"])) if dim > 1 else "iso"
    case = {
        "dim": dim,
        "mode": mode,
        "kind": "lattice" if akind == "int" else "cloud",
        "axes": axes,
        "nf": nf,
        "fkind": fk,
        "fields": vals,
        "nan": nanm,
        "estimator": draw(st.sampled_from(["matheron", "cressie"])),
    }
    case["edges"] = draw(st.one_of(st.none(), g_edges(case["kind"], top=6.0)))
    if mode == "dir":
        nd = draw(st.integers(1, 3))
        dirs, tol, bw = draw(g_dirs(dim, nd=nd))
        case.update(dirs=dirs, tol=tol, bw=bw)
    case["mask"] = draw(
        st.one_of(st.none(), st.lists(st.integers(0, 3).map(lambda k: k == 0), min_size=size, max_size=size))
    )
    case["stack_single"] = stack_single
    return case


def _grid_points(axes):
    """Point list of a structured mesh in C order (first axis slowest)."""
    pts = list(itertools.product(*axes))
    return np.array(pts, dtype=float).reshape(len(pts), len(axes)).T


def check_struct(case, rec):
    tags = _tags(case, "struct")
    dim = case["dim"]
    axes = [np.array(a, dtype=float) for a in case["axes"]]
    lens = tuple(len(a) for a in axes)
    rec.label(f"dim{dim}", case["mode"], f"nf{case['nf']}", "stdbins" if case["edges"] is None else "edges")
    f = _fields(case)
    nf = case["nf"]
    fshape = lens if (nf == 1 and not case["stack_single"]) else (nf,) + lens
    if _ambiguous_struct(lens, fshape):
        if KNOWN["struct-equal-axes-as-1d"]:
            _skip(rec, "struct-equal-axes-as-1d")
            return
        tags = dict(tags, kind="struct_equal_axes_as_1d")
    kw = {"estimator": case["estimator"]}
    kw.update(_dir_kw(case))
    grid = _grid_points(axes)
    mask = None
    if case.get("mask") is not None:
        mask = np.array(case["mask"], dtype=bool)
        if mask.sum() > mask.size - 3:
            mask = None
    if nf == 1 and not case["stack_single"]:
        fs = f.reshape(lens)
    else:
        fs = f.reshape((nf,) + lens)
        rec.label("stacked")
    pos_s = tuple(axes) if dim > 1 else (axes[0] if case["stack_single"] else (axes[0],))
    kws, kwu = dict(kw), dict(kw)
    if mask is not None:
        rec.label("mask")
        kws["mask"] = mask.reshape(lens)
        kwu["mask"] = mask.copy()
        # memory layouts of the same logical arrays: C order, Fortran order, transposed view (an image stored as rows = y, cols = x)
        lay = (int(mask.sum()) + len(lens) + nf) % 3
        if dim > 1 and lay == 1:
            kws["mask"] = np.asfortranarray(kws["mask"])
            fs = np.asfortranarray(fs)
            rec.label("fortran_order_mask_and_field")
        elif dim > 1 and lay == 2:
            kws["mask"] = np.ascontiguousarray(kws["mask"].T).T
            rec.label("transposed_view_mask")
    a = _ve(tags, pos_s, fs, case["edges"], mesh_type="structured", **kws)
    b = _ve(tags, grid, _field_arg(f), case["edges"], **kwu)
    _same(rec, tags, "struct-vs-unstruct", a, b)
    if dim > 1 and mask is None:
        # the point list in grid shape (dim, nx, ny[, nz]) as a Fortran-ordered array (e.g. the transposed view of a
        # coordinates-last array), the field laid out alike: the same (position, value) pairs
        gpos = np.asfortranarray(grid.reshape((dim,) + lens))
        gfld = np.asfortranarray(f.reshape(lens)) if nf == 1 else np.asfortranarray(f.reshape((nf,) + lens))
        c_ = _ve(tags, gpos, gfld, case["edges"], **kwu)
        rec.label("grid_shaped_point_list_fortran_order")
        _same(rec, dict(tags, rel="grid_shaped_point_list"), "grid-shaped Fortran-ordered point list vs flat point list", c_, b)
    # standard_bins for both mesh types
    sb_s = lib(gs.standard_bins, _copy_pos(tuple(axes)), dim, mesh_type="structured", _tags=tags)
    sb_u = lib(gs.standard_bins, grid.copy(), dim, _tags=tags)
    require(
        sb_s.shape == sb_u.shape and bool(np.allclose(sb_s, sb_u, rtol=1e-14, atol=0)),
        f"standard_bins structured {sb_s} != unstructured {sb_u}",
        dict(tags, rel="standard_bins"),
    )
    rec.nontrivial(_nonempty(a[2]) >= 2)


# ---------------------------------------------------------------------------
# 6. sampling


@st.composite
def gen_sampling(draw, tier="quick"):
    case = draw(g_base(modes=("iso", "iso", "dir", "latlon"), n_min=6, n_max=30))
    n = len(case["pos"][0])
    case["size"] = draw(
        st.one_of(
            st.integers(4, n - 1),
            st.integers(1, n - 4).map(lambda k: n - k),
            st.integers(n // 2, n - 1),
            st.integers(2, n - 1),
            st.integers(n, n + 3),
        )
    )
    case["seed"] = draw(st.one_of(st.integers(0, 2**32 - 1), st.integers(0, 20)))
    case["mask"] = draw(
        st.one_of(st.none(), st.none(), st.lists(st.integers(0, 4).map(lambda k: k == 0), min_size=n, max_size=n))
    )
    case["stdbins"] = draw(st.integers(0, 3)) == 0 and case["mode"] == "iso"
    return case


def check_sampling(case, rec):
    tags = _tags(case, "sampling")
    _base_labels(rec, case)
    pos, f = _pos(case), _fields(case)
    n = pos.shape[1]
    kw = _base_kw(case)
    edges = None if case["stdbins"] else case["edges"]
    size, seed = case["size"], case["seed"]
    mask = None
    if case.get("mask") is not None:
        mask = np.array(case["mask"], dtype=bool)
        if mask.sum() > n - 4 or not mask.any():
            mask = None
    kwl = dict(kw, sampling_size=size, sampling_seed=seed)
    if mask is not None:
        rec.label("mask")
        kwl["mask"] = mask
        pos_r, f_r = pos[:, ~mask], f[:, ~mask]
    else:
        pos_r, f_r = pos, f
    m = pos_r.shape[1]
    rec.label("size<n" if size < m else ("size=n" if size == m else "size>n"))
    got = _ve(tags, pos, _field_arg(f), edges, **kwl)
    again = _ve(tags, pos, _field_arg(f), edges, **kwl)
    require(
        bool(np.array_equal(got[2], again[2]) and np.array_equal(got[1], again[1]) and np.array_equal(got[0], again[0])),
        "seeded sampling is not repeatable",
        dict(tags, rel="repeat"),
    )
    if size < m:
        idx = np.random.RandomState(seed).choice(m, size, replace=False)
        require(len(set(idx.tolist())) == size, "harness: oracle subset has duplicates", tags)
        pos_s, f_s = pos_r[:, idx], f_r[:, idx]
    else:
        idx = np.arange(m)
        pos_s, f_s = pos_r, f_r
    want = _ve(tags, pos_s, _field_arg(f_s), edges, **kw)
    _same(rec, dict(tags, rel="subset"), "sampling-vs-subset", got, want)
    # pair-count identities (no reference subset needed): C(k, 2) pairs per
    # complete field, and no zero-distance pair when all points are distinct
    # (sampling without replacement)
    if case["mode"] != "dir":
        k = min(size, m)
        kwn = dict(kwl)
        full = _ve(tags, pos, np.zeros(n), [0.0, 1e6], **kwn)
        require(
            int(full[2][0]) == k * (k - 1) // 2,
            f"sampled pair count {int(full[2][0])} != C({k}, 2)",
            dict(tags, rel="paircount"),
        )
        dd = _sphere_dist(pos_r[0], pos_r[1]) if case["mode"] == "latlon" else _pairs(pos_r)[1]
        if dd.size and float(dd.min()) > 1e-6:
            rec.label("distinct")
            zero = _ve(tags, pos, np.zeros(n), [0.0, float(dd.min()) / 2], **kwn)
            require(
                int(zero[2][0]) == 0,
                f"{int(zero[2][0])} coincident pairs in a sample of pairwise distinct points (drawn with replacement?)",
                dict(tags, rel="distinct"),
            )
    rec.nontrivial(size < m and _nonempty(want[2]) >= 2)


# ---------------------------------------------------------------------------
# 7. angles == directions, direction normalisation, stacked directions


@st.composite
def gen_angles(draw, tier="quick"):
    dim = draw(st.sampled_from([2, 2, 3, 3]))
    nd = draw(st.integers(1, 3))
    kind, pos = draw(g_points(dim, 4, 24, ("lattice", "cloud"), unique=nd >= 2))
    n = len(pos[0])
    nf = draw(st.integers(1, 2))
    fk, vals, nanm = draw(g_fieldvals(nf, n))
    ang = st.one_of(
        st.floats(-2 * math.pi, 2 * math.pi),
        st.sampled_from([0.0, math.pi / 2, math.pi, -math.pi / 2, math.pi / 4, 0.3]),
    )
    incl = st.one_of(st.floats(0, math.pi), st.sampled_from([0.0, math.pi / 2, math.pi, 0.7]), ang)
    angles = [
        [draw(ang)] if dim == 2 else [draw(ang), draw(incl)]
        for _ in range(nd)
    ]
    tol = draw(st.one_of(st.floats(0.05, math.pi / 2), st.sampled_from([math.pi / 8, math.pi / 4])))
    bw = draw(_bandwidth())
    return {
        "mode": "dir",
        "dim": dim,
        "kind": kind,
        "pos": pos,
        "nf": nf,
        "fkind": fk,
        "fields": vals,
        "nan": nanm,
        "edges": draw(g_edges(kind)),
        "estimator": draw(st.sampled_from(["matheron", "cressie"])),
        "angles": angles,
        "tol": tol,
        "bw": bw,
        "factors": draw(
            st.lists(
                st.one_of(
                    st.sampled_from([-1.0, 2.0, 0.5, -4.0]),
                    logfloat(1e-4, 1e4),
                    logfloat(1e-4, 1e4).map(lambda x: -x),
                ),
                min_size=nd,
                max_size=nd,
            )
        ),
        "angform": draw(st.sampled_from(["flat", "nested"])),
        "hi_angles": draw(st.lists(ang, min_size=4, max_size=4)),
    }


def _iso_dir(dim, a):
    """ISO 80000-2: azimuth phi ccw from +x in the xy plane, inclination theta from +z."""
    if dim == 2:
        return [math.cos(a[0]), math.sin(a[0])]
    phi, theta = a
    return [math.sin(theta) * math.cos(phi), math.sin(theta) * math.sin(phi), math.cos(theta)]


def check_angles(case, rec):
    tags = _tags(case, "angles")
    dim = case["dim"]
    _base_labels(rec, case)
    pos, f = _pos(case), _fields(case)
    angles = case["angles"]
    nd = len(angles)
    rec.label(f"ndir{nd}")
    dirs = np.array([_iso_dir(dim, a) for a in angles], dtype=float)
    # ang2dir against the spherical formula
    arr = np.array(angles, dtype=float)
    flat = case["angform"] == "flat"
    if dim == 2:
        # one azimuth per direction: flat list (nd,) or column (nd, 1)
        ang_arg = arr[:, 0].copy() if flat else arr.copy()
    else:
        ang_arg = arr[0].copy() if (flat and nd == 1) else arr.copy()
    rec.label("ang-" + case["angform"])
    a2d_in = ang_arg.copy()
    a2d = lib(ang2dir, a2d_in, dtype=np.double, dim=dim, _tags=dict(tags, rel="ang2dir"))
    err = float(np.max(np.abs(np.asarray(a2d) - dirs))) if np.shape(a2d) == dirs.shape else math.inf
    rec.discrepancy("ang2dir", err, 1e-15 * 4)
    require(
        err <= 4e-15,
        f"ang2dir({np.asarray(a2d_in).tolist()}, dim={dim}) = {np.asarray(a2d).tolist()} != ISO formula {dirs.tolist()}",
        dict(tags, rel="ang2dir"),
    )
    # unit norm of n-D spherical directions
    for hd in (4, 5):
        v = lib(ang2dir, np.array(case["hi_angles"][: hd - 1], dtype=float), dim=hd, _tags=tags)
        require(
            abs(float(np.linalg.norm(v)) - 1.0) <= 1e-14,
            f"ang2dir in {hd}-D is not a unit vector",
            dict(tags, rel="ang2dir-norm"),
        )
    scale = float(np.max(np.abs(pos))) + float(max(case["edges"])) + 1.0
    dvec, dist = _pairs(pos)
    if _dir_tie(dvec, dist, dirs, case["tol"], case.get("bw"), scale):
        _skip(rec, "tie-dir")
        return
    kw = {"estimator": case["estimator"], "angles_tol": case["tol"]}
    if case.get("bw") is not None:
        kw["bandwidth"] = case["bw"]
    base = _ve(tags, pos, _field_arg(f), case["edges"], direction=dirs, **kw)
    by_ang = _ve(tags, pos, _field_arg(f), case["edges"], angles=ang_arg, **kw)
    _same(rec, dict(tags, rel="angles"), "angles-vs-directions", by_ang, base)
    # direction normalisation: c*d for c != 0 (the search band is a line)
    fac = np.array(case["factors"], dtype=float)
    scaled = _ve(tags, pos, _field_arg(f), case["edges"], direction=dirs * fac[:, None], **kw)
    _same(rec, dict(tags, rel="normalise"), "scaled-direction", scaled, base)
    # list-of-lists instead of ndarray
    if nd == 1:
        flat = _ve(tags, pos, _field_arg(f), case["edges"], direction=dirs[0].tolist(), **kw)
        _same(rec, dict(tags, rel="dir-flat"), "flat-direction", flat, base)
    # k directions at once == each direction alone (no coincident points here)
    if nd >= 2:
        if _has_coincident(pos):
            rec.exclude("K2-coincident-multidir")
        else:
            for i in range(nd):
                one = _ve(tags, pos, _field_arg(f), case["edges"], direction=dirs[i : i + 1], **kw)
                _same(
                    rec,
                    dict(tags, rel="stack-dirs"),
                    f"direction {i} alone vs stacked",
                    (base[0], base[1][i], base[2][i]),
                    one,
                )
    # 1-D: angles / directions have no effect
    p1 = pos[:1]
    iso1 = _ve(tags, p1, _field_arg(f), case["edges"], estimator=case["estimator"])
    a1 = _ve(tags, p1, _field_arg(f), case["edges"], angles=ang_arg, **kw)
    _same(rec, dict(tags, rel="angles-1d"), "angles in 1-D", a1, iso1)
    rec.nontrivial(_nonempty(base[2]) >= 2)


# ---------------------------------------------------------------------------
# 8. geo_scale


@st.composite
def gen_geo(draw, tier="quick"):
    case = draw(g_base(modes=("latlon",), n_min=4, n_max=24))
    case["gkind"] = draw(st.sampled_from(["degree", "km", "arbitrary", "arbitrary", "pow2", "one"]))
    case["g"] = draw(logfloat(1e-3, 1e5))
    case["bin_no"] = draw(st.one_of(st.none(), st.integers(1, 12)))
    case["max_dist"] = draw(st.one_of(st.none(), st.floats(0.05, math.pi)))
    return case


def _geo_scale(case):
    return {
        "degree": gs.DEGREE_SCALE,
        "km": gs.KM_SCALE,
        "one": 1.0,
        "pow2": 2.0 ** round(math.log2(case["g"])),
    }.get(case["gkind"], case["g"])


def _std_bins_sphere(lat, lon, g, bin_no=None, max_dist=None):
    """Documented rule: Sturges' bin number, one third of the box diameter of the
    3-D points, converted from chordal to great-circle length on radius g."""
    n = len(lat)
    if max_dist is None:
        u = g * _unit(np.asarray(lat, dtype=float), np.asarray(lon, dtype=float))
        diam = math.sqrt(sum((float(a.max()) - float(a.min())) ** 2 for a in u))
        arc = 2 * g * math.asin(min(max(diam / (2 * g), 0.0), 1.0))
        max_dist = arc / 3
    if bin_no is None:
        bin_no = int(math.ceil(2 * math.log2(n) + 1))
    return np.array([max_dist * i / bin_no for i in range(bin_no + 1)])


def check_geo(case, rec):
    tags = _tags(case, "geo", gkind=case["gkind"])
    _base_labels(rec, case)
    rec.label(case["gkind"])
    g = float(_geo_scale(case))
    require(
        abs(gs.DEGREE_SCALE - 180.0 / math.pi) <= 1e-13 and gs.KM_SCALE == 6371.0 and gs.RADIAN_SCALE == 1.0,
        "unit constants differ from their documented values",
        tags,
    )
    pos, f = _pos(case), _fields(case)
    edges = np.array(case["edges"], dtype=float)
    kw = {"estimator": case["estimator"], "latlon": True}
    dist = _sphere_dist(pos[0], pos[1])
    exact = case["gkind"] in ("one", "pow2")
    if not exact and _edge_tie(dist, edges, TIE * 4):
        _skip(rec, "tie-edge")
        return
    rad = _ve(tags, pos, _field_arg(f), edges, **kw)
    # default geo_scale is the radian scale
    rad1 = _ve(tags, pos, _field_arg(f), edges, geo_scale=1.0, **kw)
    _same(rec, dict(tags, rel="default"), "geo_scale default", rad1, rad)
    sc = _ve(tags, pos, _field_arg(f), edges * g, geo_scale=g, **kw)
    _same(rec, dict(tags, rel="edges"), "geo_scale edges", sc, rad, centers=False)
    require(
        bool(np.allclose(sc[0], g * rad[0], rtol=1e-13, atol=0)),
        f"bin centers do not scale with geo_scale: {sc[0]} vs {g}*{rad[0]}",
        dict(tags, rel="centers"),
    )
    # standard_bins in units == geo_scale * standard_bins in radians == documented rule
    bn, md = case["bin_no"], case["max_dist"]
    for label, kwb, kwr in (
        ("auto", {}, {}),
        ("bin_no", {"bin_no": bn}, {"bin_no": bn}) if bn else (None, None, None),
        ("max_dist", {"max_dist": md * g}, {"max_dist": md}) if md else (None, None, None),
        ("both", {"bin_no": bn, "max_dist": md * g}, {"bin_no": bn, "max_dist": md}) if (bn and md) else (None, None, None),
    ):
        if label is None:
            continue
        sb_g = lib(gs.standard_bins, pos.copy(), latlon=True, geo_scale=g, _tags=tags, **kwb)
        sb_1 = lib(gs.standard_bins, pos.copy(), latlon=True, _tags=tags, **kwr)
        want = _std_bins_sphere(pos[0], pos[1], 1.0, **kwr)
        ok = sb_g.shape == sb_1.shape == want.shape
        require(ok, f"standard_bins({label}) shapes differ", dict(tags, rel="standard_bins"))
        # chord -> arc uses arcsin(x), x = diam/2: relative condition x/(asin(x) sqrt(1-x^2)),
        # clipped at x = 1 where a rounding error eps moves the result by sqrt(2 eps)
        if label in ("max_dist", "both"):
            rt = 1e-12
        else:
            u = _unit(pos[0], pos[1])
            x = min(0.5 * math.sqrt(sum((float(a.max()) - float(a.min())) ** 2 for a in u)), 1.0)
            rt = 1e-12 + 8 * EPS / math.sqrt(max(1.0 - x * x, EPS))
            # the box diameter is a Euclidean norm: for extents below ~1e-140 (times the unit) the squares are
            # denormal and carry fewer digits - a rounding effect of the norm, not a scaling error (seed-4 sweep)
            ext = max(max(float(a.max()) - float(a.min()) for a in u), 0.0)
            if 0.0 < ext * min(1.0, g) < 1e-140:
                rec.exclude("denormal-box-diameter")
                continue
        e1 = float(np.max(np.abs(sb_g - g * sb_1))) / max(float(np.max(np.abs(g * sb_1))), 1e-300)
        e2 = float(np.max(np.abs(sb_1 - want))) / max(float(np.max(np.abs(want))), 1e-300)
        rec.discrepancy("standard_bins-" + label, max(e1, e2), rt)
        require(
            e1 <= rt,
            f"standard_bins({label}, geo_scale={g}) != geo_scale * standard_bins(radians): rel {e1:.3g}",
            dict(tags, rel="standard_bins"),
        )
        require(
            e2 <= rt,
            f"standard_bins({label}) deviates from the documented rule: {sb_1} vs {want}",
            dict(tags, rel="standard_bins-rule"),
        )
        # the estimate with default bins
        if _edge_tie(dist, sb_1, max(TIE * 4, 100 * rt)):
            rec.exclude("tie-edge-stdbins")
            continue
        e_g = _ve(tags, pos, _field_arg(f), None, geo_scale=g, **dict(kw, **kwb))
        e_1 = _ve(tags, pos, _field_arg(f), None, **dict(kw, **kwr))
        _same(rec, dict(tags, rel="stdbins-" + label), "geo_scale std bins " + label, e_g, e_1, centers=False)
        require(
            bool(np.allclose(e_g[0], g * e_1[0], rtol=rt, atol=0)),
            "std-bin centers do not scale with geo_scale",
            dict(tags, rel="centers-stdbins"),
        )
        e_x = _ve(tags, pos, _field_arg(f), sb_1, **kw)
        _same(rec, dict(tags, rel="stdbins-explicit"), "std bins vs explicit edges", e_1, e_x)
    rec.nontrivial(g != 1.0 and _nonempty(rad[2]) >= 2)


# ---------------------------------------------------------------------------
# 9. trend / mean / normalizer


NORMS = ["none", "LogNormal", "BoxCox", "BoxCoxShift", "YeoJohnson", "Modulus", "Manly"]


def _lmbda():
    return st.one_of(
        st.floats(-2.0, -0.05), st.floats(0.05, 3.0), st.sampled_from([0.0, 1.0, 2.0, 0.5, -1.0])
    )


@st.composite
def gen_preproc(draw, tier="quick"):
    case = draw(g_base(modes=("iso", "iso", "dir", "latlon"), fkind="decimal", nan=True))
    dim = case["dim"]
    norm = draw(st.sampled_from(NORMS))
    case["norm"] = norm
    case["lmbda"] = draw(_lmbda()) if norm not in ("none", "LogNormal") else None
    if norm == "Manly":
        case["lmbda"] = draw(st.one_of(st.floats(-0.3, 0.3), st.sampled_from([0.0, 0.1])))
    case["nshift"] = draw(st.floats(0.0, 5.0)) if norm == "BoxCoxShift" else None
    for key in ("trend", "mean"):
        tk = draw(st.sampled_from(["none", "const", "linear"]))
        case[key] = {
            "kind": tk,
            "c": draw(st.floats(-3, 3)),
            "a": draw(st.lists(st.floats(-0.5, 0.5), min_size=dim, max_size=dim)),
        }
    case["oor"] = draw(st.integers(0, 4)) == 0  # a few values out of the normalizer's range
    case["pass_class"] = draw(st.booleans())
    case["fit"] = draw(st.integers(0, 2)) == 0
    return case


def _lin(spec):
    if spec["kind"] == "none":
        return None, (lambda p: 0.0)
    if spec["kind"] == "const":
        return float(spec["c"]), (lambda p: float(spec["c"]))
    a = [float(x) for x in spec["a"]]
    c = float(spec["c"])

    def fn(*xs):
        out = c
        for ai, xi in zip(a, xs):
            out = out + ai * np.asarray(xi, dtype=float)
        return out

    return fn, (lambda p: fn(*p))


def _normalize_ref(norm, x, lm, sh):
    """Documented transformation formulas (out-of-range data -> NaN)."""
    x = np.asarray(x, dtype=float)
    out = np.full_like(x, np.nan)
    ok = ~np.isnan(x)
    if norm == "none":
        out[ok] = x[ok]
        return out
    if norm in ("LogNormal", "BoxCox", "BoxCoxShift"):
        y = x + (sh if norm == "BoxCoxShift" else 0.0)
        ok &= np.where(np.isnan(y), False, y > 0)
        v = y[ok]
        if norm == "LogNormal" or lm == 0:
            out[ok] = np.log(v)
        else:
            out[ok] = (v**lm - 1.0) / lm
        return out
    v = x[ok]
    if norm == "YeoJohnson":
        r = np.empty_like(v)
        p = v >= 0
        r[p] = np.log(v[p] + 1.0) if lm == 0 else ((v[p] + 1.0) ** lm - 1.0) / lm
        q = ~p
        r[q] = -np.log(np.abs(v[q]) + 1.0) if lm == 2 else -((np.abs(v[q]) + 1.0) ** (2.0 - lm) - 1.0) / (2.0 - lm)
        out[ok] = r
    elif norm == "Modulus":
        a = np.abs(v)
        out[ok] = np.sign(v) * (np.log(a + 1.0) if lm == 0 else ((a + 1.0) ** lm - 1.0) / lm)
    elif norm == "Manly":
        out[ok] = v if lm == 0 else np.expm1(lm * v) / lm
    return out


def _mk_norm(case):
    norm = case["norm"]
    if norm == "none":
        return None
    cls = getattr(gs.normalizer, norm)
    if norm == "LogNormal":
        return cls if case["pass_class"] else cls()
    if norm == "BoxCoxShift":
        return cls(lmbda=case["lmbda"], shift=case["nshift"])
    return cls(lmbda=case["lmbda"])


def check_preproc(case, rec):
    tags = _tags(case, "preproc", norm=case["norm"])
    _base_labels(rec, case)
    rec.label("norm-" + case["norm"], "trend-" + case["trend"]["kind"], "mean-" + case["mean"]["kind"])
    pos, f0 = _pos(case), _fields(case)
    kw = _base_kw(case)
    norm, lm, sh = case["norm"], case["lmbda"], case["nshift"]
    t_arg, t_fn = _lin(case["trend"])
    m_arg, m_fn = _lin(case["mean"])
    tr = np.asarray(t_fn(pos), dtype=float) * np.ones(pos.shape[1])
    mn = np.asarray(m_fn(pos), dtype=float) * np.ones(pos.shape[1])
    # raw data such that (raw - trend) lies in the normalizer's domain
    f = f0.copy()
    if norm in ("LogNormal", "BoxCox", "BoxCoxShift"):
        f = np.abs(f0) + 0.05 + tr[None, :]
        if case["oor"]:
            rec.label("out-of-range")
            neg = (np.arange(f.size).reshape(f.shape) % 5) == 1
            f = np.where(neg, tr[None, :] - 1.0 - np.abs(f0) - (sh or 0.0), f)
            if case["trend"]["kind"] == "none":
                # values exactly on the (open) end of the normalizer's domain, e.g. exact zeros under LogNormal / BoxCox
                onb = (np.arange(f.size).reshape(f.shape) % 5) == 3
                f = np.where(onb, 0.0 - (sh or 0.0), f)
                rec.label("values_on_domain_bound")
    if norm == "Manly":
        f = f0 * 0.5 + tr[None, :]
    det = f - tr[None, :]
    if norm in ("BoxCox", "BoxCoxShift", "YeoJohnson", "Modulus", "Manly") and case["pass_class"] and not case["oor"] and bool(np.all(np.isfinite(det))) \
            and (norm not in ("BoxCox", "BoxCoxShift") or float(np.min(det)) > 0.0) and np.unique(det).size >= 4:
        # a normalizer given as a class stands for its documented default parameters in every call - also after another call fitted one
        Cls_ = getattr(gs.normalizer, norm)
        # (reference: a default instance built here; a comparison "before vs after" alone would not reproduce once process-wide state is spoilt)
        r_b = _ve(tags, pos, _field_arg(det), case["edges"], normalizer=Cls_(), **kw)
        try:
            with common.quiet():
                gs.vario_estimate(_copy_pos(pos), _copy_field(_field_arg(det)), None if case["edges"] is None else np.array(case["edges"], dtype=float),
                                  normalizer=Cls_, fit_normalizer=True, **kw)
        except Exception:  # noqa: BLE001 - the fitted run itself is not what is looked at here
            pass
        r_a = _ve(tags, pos, _field_arg(det), case["edges"], normalizer=Cls_, **kw)
        rec.label("class_form_after_fitted_run")
        require(bool(np.array_equal(r_b[1], r_a[1], equal_nan=True)) and bool(np.array_equal(r_b[2], r_a[2])),
                f"vario_estimate(normalizer={norm} given as class), after an earlier call with fit_normalizer=True, differs from the result for a default instance {norm}() "
                f"(max difference {float(np.nanmax(np.abs(r_b[1] - r_a[1]))):.3g})",
                dict(tags, rel="class_form_default", kind="shared_default_normalizer"))
    kwp = dict(kw)
    if t_arg is not None:
        kwp["trend"] = t_arg
    if m_arg is not None:
        kwp["mean"] = m_arg
    fit = case["fit"] and norm not in ("none", "LogNormal")
    if fit and np.unique(det[np.isfinite(det)]).size < 4:
        fit = False  # nothing to fit a transformation to
    nrm = _mk_norm(case)
    if nrm is not None:
        kwp["normalizer"] = nrm
    if fit:
        rec.label("fit")
        kwp["fit_normalizer"] = True
    got = _ve(tags, pos, _field_arg(f), case["edges"], **kwp)
    # ... also when the normalizer is fitted on the way: a NaN / no_data entry of a single field is a removed point, for the
    # fitted parameters as well as for the variogram
    if fit:
        rec.label(f"fitcase:nf{f.shape[0]}:n{min(f.shape[1], 9)}:oor{int(bool(case['oor']))}:edges{int(case['edges'] is not None)}")
    if fit and f.shape[0] == 1 and f.shape[1] >= 8 and not case["oor"] and case["edges"] is not None and not isinstance(kwp.get("mean"), np.ndarray) \
            and not isinstance(kwp.get("trend"), np.ndarray):
        missp = ((np.arange(f.shape[1]) * 5 + case.get("seed", 0)) % 6) == 2
        keep = (~missp) & np.isfinite(f[0])  # the reference sees complete data only
        if missp.any() and keep.sum() >= 6 and np.unique(det[0, keep]).size >= 4:
            kw_fit = dict(kwp)
            kw_fit["normalizer"] = _mk_norm(case)
            ref_r = _ve(tags, np.asarray(pos)[:, keep], f[:, keep][0], case["edges"], **kw_fit)
            for enc in ("nan", "no_data"):
                kw_fit = dict(kwp)
                kw_fit["normalizer"] = _mk_norm(case)
                if enc == "nan":
                    got_r = _ve(tags, pos, np.where(missp, np.nan, f[0]), case["edges"], **kw_fit)
                else:
                    got_r = _ve(tags, pos, np.where(missp, -999.25, f[0]), case["edges"], no_data=-999.25, **kw_fit)
                l1, l2 = float(got_r[3].lmbda), float(ref_r[3].lmbda)
                if not math.isfinite(l2):
                    rec.label("missing+fit:reference_fit_degenerate")
                    continue
                require(
                    (l1 == l2) or abs(l1 - l2) <= 1e-6 * (1 + abs(l2)),
                    f"normalizer fitted with missing values given as {enc}: lmbda = {l1!r}, with those points removed: {l2!r}",
                    dict(tags, rel="preproc", enc=enc + "+fit"),
                )
                require(bool(np.array_equal(got_r[2], ref_r[2])), f"fit_normalizer with missing values given as {enc}: pair counts {got_r[2].tolist()} vs removal {ref_r[2].tolist()}",
                        dict(tags, rel="preproc", enc=enc + "+fit"))
            rec.label("missing+fit", "missing+fit:" + norm)
    if fit:
        require(len(got) == 4, "fit_normalizer=True did not return the normalizer", tags)
        fitted = got[3]
        lm = float(fitted.lmbda)
        if norm == "BoxCoxShift":
            sh = float(fitted.shift)
        if not math.isfinite(lm) or abs(lm) > 50 or (sh is not None and not math.isfinite(sh)):
            _skip(rec, "fit-degenerate")
            return
        # fitting beforehand on the detrended data gives the same parameters
        ref_n = _mk_norm(case)  # same starting parameters
        lib(ref_n.fit, det.copy(), _tags=tags)
        require(
            ref_n == fitted,
            f"normalizer fitted inside vario_estimate ({fitted}) differs from fitting on field - trend ({ref_n})",
            dict(tags, rel="fit"),
        )
    # the library switches to the lambda = 0 (2) branch with np.isclose
    if lm is not None and (
        (lm != 0 and abs(lm) < 1e-4) or (norm == "YeoJohnson" and lm != 2 and abs(lm - 2) < 1e-3)
    ):
        _skip(rec, "lmbda-near-branch")
        return
    pre = _normalize_ref(norm, det, lm, sh) - mn[None, :]
    want = _ve(tags, pos, _field_arg(pre), case["edges"], **kw)
    fin = pre[np.isfinite(pre)]
    big = float(np.max(np.abs(fin))) if fin.size else 0.0
    # library and reference transformations may differ by a few ulp of |y|
    rtol = _cond_rtol(pre, big + float(np.max(np.abs(mn))) + (float(np.nanmax(np.abs(f))) if norm == "none" else 0.0))
    if rtol > 1e-9:
        _skip(rec, "illcond-preproc")
        return
    _same(rec, dict(tags, rel="preproc"), "preprocessing inside vs beforehand", got, want, rtol=rtol)
    # missing values combined with preprocessing: a no_data marker / mask / NaN planted in the *raw* data must act
    # like removed points whatever trend / mean / normalizer is applied afterwards
    if not fit and f.shape[1] >= 4:
        miss = ((np.arange(f.size).reshape(f.shape) * 7 + case.get("seed", 0)) % 4) == 1
        if miss.any() and not miss.all():
            nd = -999.25
            pre_m = np.where(miss, np.nan, pre)
            want_m = _ve(tags, pos, _field_arg(pre_m), case["edges"], **kw)
            kwn = {k: v for k, v in kwp.items() if k != "fit_normalizer"}
            got_nd = _ve(tags, pos, _field_arg(np.where(miss, nd, f)), case["edges"], no_data=nd, **kwn)
            _same(rec, dict(tags, rel="preproc", enc="no_data+preproc"), "no_data marker with trend/mean/normalizer vs removal", got_nd, want_m, rtol=rtol)
            got_nan = _ve(tags, pos, _field_arg(np.where(miss, np.nan, f)), case["edges"], **kwn)
            _same(rec, dict(tags, rel="preproc", enc="nan+preproc"), "NaN with trend/mean/normalizer vs removal", got_nan, want_m, rtol=rtol)
            rec.label("missing+preproc")
    ident = norm == "none" and t_arg is None and m_arg is None
    rec.nontrivial(not ident and _nonempty(want[2]) >= 2)


# ---------------------------------------------------------------------------
# 10. multi-field pooling


@st.composite
def gen_multi(draw, tier="quick"):
    case = draw(g_base(modes=("iso", "dir", "latlon"), nf_max=4))
    if case["nf"] == 1:
        case["nf"] = 2
        case["fields"] = case["fields"] * 2 if draw(st.booleans()) else [case["fields"][0], [v * 0.5 + 1 for v in case["fields"][0]]]
        if case.get("nan"):
            case["nan"] = case["nan"] * 2
    case["container"] = draw(st.sampled_from(["array", "list", "masked"]))
    case["dup"] = draw(st.integers(2, 3))
    return case


def _cressie_den(n):
    n = np.maximum(np.asarray(n, dtype=float), 1.0)
    return 0.457 + 0.494 / n + 0.045 / n**2


def check_multi(case, rec):
    tags = _tags(case, "multi")
    _base_labels(rec, case)
    rec.label(case["container"])
    pos, f = _pos(case), _fields(case)
    nf = case["nf"]
    kw = _base_kw(case)
    edges = case["edges"]
    if case["container"] == "list":
        arg = [row.copy() for row in f]
    elif case["container"] == "masked":
        arg = np.ma.array(np.where(np.isnan(f), 1e3, f), mask=np.isnan(f))
        if not np.isnan(f).any():
            arg = np.ma.array(f.copy())
    else:
        arg = f
    allf = _ve(tags, pos, arg, edges, **kw)
    plain = _ve(tags, pos, f, edges, **kw)
    _same(rec, dict(tags, rel="container"), "container type", allf, plain)
    singles = [_ve(tags, pos, f[i], edges, **kw) for i in range(nf)]
    cnt = sum(s[2] for s in singles)
    require(
        bool(np.array_equal(allf[2], cnt)),
        f"stack counts {allf[2].tolist()} != sum of single-field counts {cnt.tolist()}",
        dict(tags, rel="pool-counts"),
    )
    tot = np.maximum(cnt, 1).astype(float)
    if case["estimator"] == "matheron":
        pooled = sum(s[2] * s[1] for s in singles) / tot
    else:
        # invert gamma = 0.5 m^4 / den(N) per field, pool the means m, re-apply
        ms = [(2.0 * s[1] * _cressie_den(s[2])) ** 0.25 for s in singles]
        m = sum(s[2] * mi for s, mi in zip(singles, ms)) / tot
        pooled = 0.5 * m**4 / _cressie_den(cnt)
        pooled = np.where(cnt > 0, pooled, 0.0)
    _vals(rec, dict(tags, rel="pool-values"), "pooled values", allf[1], pooled, rtol=1e-11)
    # the same field k times: counts * k, value as for one copy (Matheron) /
    # re-normalised (Cressie)
    k = case["dup"]
    rep = _ve(tags, pos, np.repeat(f[:1], k, axis=0), edges, **kw)
    require(
        bool(np.array_equal(rep[2], k * singles[0][2])),
        "k copies of a field do not give k times the pair counts",
        dict(tags, rel="dup-counts"),
    )
    if case["estimator"] == "matheron":
        want = singles[0][1]
    else:
        want = np.where(
            singles[0][2] > 0,
            singles[0][1] * _cressie_den(singles[0][2]) / _cressie_den(k * singles[0][2]),
            0.0,
        )
    _vals(rec, dict(tags, rel="dup-values"), "duplicated field values", rep[1], want, rtol=1e-11)
    rec.nontrivial(_nonempty(allf[2]) >= 2)


# ---------------------------------------------------------------------------
# 11. along-axis estimator


@st.composite
def gen_axis(draw, tier="quick"):
    case = draw(g_grid_field(max_cells=90))
    dim = case["gdim"]
    case["axis"] = draw(st.integers(0, dim - 1))
    case["estimator"] = draw(st.sampled_from(["matheron", "cressie"]))
    size = int(np.prod(case["shape"]))
    case["enc"] = draw(st.lists(st.integers(0, 2), min_size=size, max_size=size))
    case["nd_off"] = draw(st.floats(10.0, 1e4))
    case["nd_jitter"] = draw(st.lists(st.integers(-2, 2), min_size=size, max_size=size))
    case["axperm"] = draw(st.permutations(list(range(dim))))
    case["flip"] = draw(st.lists(st.booleans(), min_size=dim, max_size=dim))
    case["colperm_seed"] = draw(st.integers(0, 2**31 - 1))
    return case


def _va(tags, f, **kw):
    if isinstance(f, np.ma.MaskedArray):
        arg = np.ma.array(f.data.copy(), mask=np.ma.getmaskarray(f).copy())
    else:
        arg = np.array(f, copy=True)
    return np.asarray(lib(gs.vario_estimate_axis, arg, _what="vario_estimate_axis", _tags=tags, **kw), dtype=float)


def check_axis(case, rec):
    tags = _tags(case, "axis")
    dim, shape, ax = case["gdim"], tuple(case["shape"]), case["axis"]
    est = case["estimator"]
    f = _grid_field(case)
    miss = np.isnan(f)
    rec.label(f"dim{dim}", est, "missing" if miss.any() else "complete", f"axis{ax}")
    base = _va(tags, f, direction=ax, estimator=est)
    require(base.shape == (shape[ax],), f"result length {base.shape} != axis length {shape[ax]}", tags)
    require(base[0] == 0.0, "lag 0 must be 0", tags)
    # str == int direction
    if ax < 3:
        s = _va(tags, f, direction="xyz"[ax], estimator=est)
        require(bool(np.array_equal(s, base)), "direction given as str differs from int", dict(tags, rel="str"))
    # encodings of missing data
    if miss.any():
        filled = np.where(miss, 0.0, f)
        fmax = float(np.max(np.abs(filled)))
        nd = -(fmax + case["nd_off"])
        ndv = nd * (1.0 + 1e-11 * np.array(case["nd_jitter"], dtype=float).reshape(shape))
        b = _va(tags, np.where(miss, ndv, f), direction=ax, estimator=est, no_data=nd)
        _vals(rec, dict(tags, rel="no_data"), "axis no_data vs NaN", b, base)
        c = _va(tags, np.ma.array(np.where(miss, 77.0, f), mask=miss), direction=ax, estimator=est)
        _vals(rec, dict(tags, rel="masked"), "axis masked vs NaN", c, base)
        enc = np.array(case["enc"], dtype=int).reshape(shape)
        tg = dict(tags, rel="mixed")
        if np.any(miss & (enc == 0)):
            if KNOWN["axis-nan-with-nodata"]:
                rec.exclude("axis-nan-with-nodata")
                enc = np.where(enc == 0, 2, enc)  # NaN cells -> masked cells
            else:
                tg = dict(tags, rel="mixed", kind="axis_nan_with_nodata")
        mixed = np.where(miss & (enc == 1), ndv, f)
        mm = miss & (enc == 2)
        mixed = np.ma.array(np.where(mm, -3.0, mixed), mask=mm)
        d = _va(tags, mixed, direction=ax, estimator=est, no_data=nd)
        _vals(rec, tg, "axis mixed encodings vs NaN", d, base)
        # the caller keeps one masked array and estimates twice on it: with the sentinel declared, then without (the sentinel cells
        # are ordinary data then) - each result is the one for a freshly built equal input
        keep_ = np.ma.array(np.array(mixed.data, dtype=np.double), mask=np.ma.getmaskarray(mixed).copy())
        first = np.asarray(lib(gs.vario_estimate_axis, keep_, direction=ax, estimator=est, no_data=nd, _what="vario_estimate_axis", _tags=tags), dtype=float)
        require(bool(np.array_equal(first, d, equal_nan=True)), "the same masked input gives another result when the array object is kept by the caller", dict(tags, rel="reused_input"))
        again = np.asarray(lib(gs.vario_estimate_axis, keep_, direction=ax, estimator=est, _what="vario_estimate_axis", _tags=tags), dtype=float)
        fresh = _va(tags, mixed, direction=ax, estimator=est)
        rec.label("axis_reused_masked_input")
        require(bool(np.array_equal(again, fresh, equal_nan=True)),
                f"second estimate on the caller's masked array (after a first call with no_data={nd!r}) {again.tolist()} differs from the estimate for a freshly built equal input {fresh.tolist()}",
                dict(tags, rel="reused_input", kind="input_changed_by_call"))
    # axis permutation: the variogram axis travels with the data
    p = list(case["axperm"])
    ft = np.transpose(f, p)
    t = _va(tags, ft, direction=p.index(ax), estimator=est)
    _vals(rec, dict(tags, rel="transpose"), "axis transposed", t, base)
    # reflections of any axis
    fl = f
    for a, do in enumerate(case["flip"]):
        if do:
            fl = np.flip(fl, axis=a)
    r = _va(tags, fl, direction=ax, estimator=est)
    _vals(rec, dict(tags, rel="flip"), "axis flipped", r, base)
    # permuting the transversal columns
    if dim > 1:
        moved = np.moveaxis(f, ax, 0).reshape(shape[ax], -1)
        cp = np.random.RandomState(case["colperm_seed"]).permutation(moved.shape[1])
        q = _va(tags, moved[:, cp], direction=0, estimator=est)
        _vals(rec, dict(tags, rel="columns"), "transversal columns permuted", q, base)
    # == directional vario_estimate on the unit grid: a narrow cone keeps only
    # the pairs along the axis (smallest off-axis angle on the grid is atan(1/6))
    axes = [np.arange(n, dtype=float) for n in shape]
    edges = np.arange(shape[ax] + 1, dtype=float) - 0.5
    edges[0] = 0.25  # lag 0 is not a pair
    tv = dict(tags, rel="vs-directional")
    if _ambiguous_struct(shape, shape):
        tv["kind"] = "struct_equal_axes_as_1d"
    if _ambiguous_struct(shape, shape) and KNOWN["struct-equal-axes-as-1d"]:
        rec.exclude("struct-equal-axes-as-1d")
        ve = (None, base, None)
    elif dim == 1:
        ve = _ve(tags, axes[0], f, edges, mesh_type="structured", estimator=est)
    else:
        dvec = [0.0] * dim
        dvec[ax] = 1.0
        ve = _ve(
            tags,
            tuple(axes),
            f,
            edges,
            mesh_type="structured",
            estimator=est,
            direction=[dvec],
            angles_tol=0.05,
        )
    _vals(rec, tv, "axis vs directional estimate", ve[1][1:], base[1:])
    nontrivial = int(np.sum(base > 0)) >= 2
    rec.nontrivial(nontrivial)


# ---------------------------------------------------------------------------

SUBS = [
    Sub("perm", gen_perm, check_perm, quick=600, thorough=10000, shards_quick=1, shards_thorough=2),
    Sub("rigid", gen_rigid, check_rigid, quick=1000, thorough=20000, shards_quick=2, shards_thorough=4),
    Sub("affine", gen_affine, check_affine, quick=600, thorough=10000, shards_quick=1, shards_thorough=2),
    Sub("missing", gen_missing, check_missing, quick=800, thorough=16000, shards_quick=2, shards_thorough=4),
    Sub("struct", gen_struct, check_struct, quick=600, thorough=10000, shards_quick=1, shards_thorough=2),
    Sub("sampling", gen_sampling, check_sampling, quick=600, thorough=8000, shards_quick=1, shards_thorough=2),
    Sub("angles", gen_angles, check_angles, quick=1000, thorough=20000, shards_quick=2, shards_thorough=4),
    Sub("geo", gen_geo, check_geo, quick=800, thorough=10000, shards_quick=2, shards_thorough=2),
    Sub("preproc", gen_preproc, check_preproc, quick=1000, thorough=20000, shards_quick=2, shards_thorough=4),
    Sub("multi", gen_multi, check_multi, quick=500, thorough=8000, shards_quick=1, shards_thorough=2),
    Sub("axis", gen_axis, check_axis, quick=500, thorough=8000, shards_quick=1, shards_thorough=2),
]

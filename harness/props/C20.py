"""C20 - Operations never modify caller arrays or previously stored results."""

import math

import numpy as np
from hypothesis import strategies as st

import common
from common import Sub, Violation, lib, require, quiet
import gens
from gens import logfloat

import gstools as gs
from gstools import transform as gtf
from gstools.normalizer import tools as ntools
from gstools.tools import geometric as ggeo

ID = "C20"
LEVEL = "exploration"
RULE = (
    "Hypothesis draws (public entry point from an explicit registry, option set, array layout C/F/read-only, seed for the "
    "array contents); every array handed to the library is float64, contiguous and already of the internal target shape so "
    "that aliasing is possible; a bitwise (NaN-aware) snapshot of each caller-held argument is compared after the call. "
    "Histories: generated sequences of generate / transform(store=True|new name, process) / krige / set_condition on one "
    "object with snapshots of every array handed in, every array returned earlier and every stored field that is not the "
    "named target of the current call. Non-trivial: the option set enables arithmetic on the argument (mean/trend/"
    "normalizer, geo_scale != 1, process=True, no_data, mask) or the history has >= 2 storing calls; distinct by "
    "(entry, role options) hash."
)
ASSUMPTIONS = [
    "a ValueError('read-only') raised by an in-place write into a read-only caller array is itself a detection",
    "dict arguments (init_guess, curve_fit_kwargs) are outside the property's wording (arrays) and are not asserted",
]


class Snaps:
    """Bitwise snapshots of caller-held arrays."""

    def __init__(self, entry, tags):
        self.items = []
        self.entry = entry
        self.tags = tags

    def add(self, role, arr):
        if isinstance(arr, np.ma.MaskedArray):
            self.items.append((role + ".data", arr.data, arr.data.tobytes(), arr.data.shape))
            m = np.ma.getmaskarray(arr)
            self.items.append((role + ".mask", arr, m.tobytes(), m.shape))
        elif isinstance(arr, np.ndarray):
            self.items.append((role, arr, arr.tobytes(), arr.shape))
        return arr

    def verify(self, after, kind="caller_array_modified"):
        for role, arr, blob, shape in self.items:
            if role.endswith(".mask"):
                cur = np.ma.getmaskarray(arr)
            else:
                cur = arr
            if cur.shape != shape or cur.tobytes() != blob:
                old = np.frombuffer(blob, dtype=cur.dtype)
                diff = ""
                if cur.size == old.size and cur.dtype.kind == "f":
                    d = np.abs(np.nan_to_num(cur.ravel()) - np.nan_to_num(old))
                    diff = f" (max change {float(d.max()):.3g})"
                raise Violation(
                    f"{self.entry}: {role} was modified by {after}{diff}",
                    dict(self.tags, kind=kind, role=role.split(".")[0], entry=self.entry),
                )


def _layout(a, layout):
    a = np.array(a, dtype=np.double)
    if layout == "F":
        a = np.asfortranarray(a)
    elif layout == "ro":
        a = np.ascontiguousarray(a)
        a.setflags(write=False)
    else:
        a = np.ascontiguousarray(a)
    return a


def _call(fn, *a, _tags=None, **k):
    """Library call; a read-only write error is a violation like any other."""
    return lib(fn, *a, _tags=_tags, **k)


NORMS = ["None", "LogNormal", "BoxCox", "YeoJohnson", "Manly"]


def _norm(name):
    if name == "None":
        return None
    if name == "BoxCox":
        return gs.normalizer.BoxCox(lmbda=0.5)
    if name == "YeoJohnson":
        return gs.normalizer.YeoJohnson(lmbda=0.7)
    if name == "Manly":
        return gs.normalizer.Manly(lmbda=0.3)
    return getattr(gs.normalizer, name)()


def _mt(kind, dim):
    """mean / trend: None, constant, callable."""
    if kind == "none":
        return None
    if kind == "const":
        return 1.5
    return lambda *x: 0.5 + 0.25 * x[0]


ENTRIES = [
    "vario_estimate",
    "vario_estimate_dir",
    "vario_estimate_latlon",
    "vario_estimate_struct",
    "vario_estimate_axis",
    "standard_bins",
    "krige",
    "srf",
    "condsrf",
    "field_call",
    "fit_variogram",
    "normalizer",
    "mean_norm_trend",
    "transform_array",
    "generator",
    "geometry",
    "covmodel",
]


@st.composite
def gen_call(draw, tier="quick"):
    entry = draw(st.sampled_from(ENTRIES))
    case = {
        "entry": entry,
        "seed": draw(st.integers(0, 2**31 - 1)),
        "layout": draw(st.sampled_from(["C", "C", "F", "ro"])),
        "dim": draw(st.sampled_from([1, 2, 3])),
        "n": draw(st.integers(3, 12)),
        "mean": draw(st.sampled_from(["none", "const", "call"])),
        "trend": draw(st.sampled_from(["none", "const", "call"])),
        "norm": draw(st.sampled_from(NORMS)),
        "geo_scale": draw(st.sampled_from([1.0, gs.DEGREE_SCALE, gs.KM_SCALE, 2.5])),
        "nfields": draw(st.integers(1, 3)),
        "no_data": draw(st.sampled_from([None, -999.0])),
        "mask": draw(st.booleans()),
        "flag": draw(st.integers(0, 7)),
        "method": draw(st.integers(0, 20)),
    }
    return case


def _nontrivial_call(case):
    return (
        case["mean"] != "none"
        or case["trend"] != "none"
        or case["norm"] != "None"
        or case["geo_scale"] != 1.0
        or case["mask"]
        or case["no_data"] is not None
    )


def _positive_field(rs, shape):
    return np.exp(0.3 * rs.standard_normal(shape)) + 0.5


def check_call(case, rec):
    entry = case["entry"]
    rs = np.random.RandomState(case["seed"])
    lay = case["layout"]
    dim = case["dim"]
    n = case["n"]
    tags = {"entry": entry, "layout": lay}
    rec.label(entry, "layout_" + lay)
    sn = Snaps(entry, tags)
    norm = _norm(case["norm"])
    mean = _mt(case["mean"], dim)
    trend = _mt(case["trend"], dim)
    A = lambda role, a: sn.add(role, _layout(a, lay))  # noqa: E731

    if entry in ("vario_estimate", "vario_estimate_dir"):
        pos = A("pos", rs.uniform(-3, 3, (dim, n)))
        k = case["nfields"]
        fld = _positive_field(rs, (k, n)) + 3.0
        if case["no_data"] is not None:
            fld[0, 0] = case["no_data"]
        field = A("field", fld if k > 1 else fld[0])
        bins = A("bin_edges", np.linspace(0.0, 4.0, 6))
        kw = dict(mean=mean, trend=trend, normalizer=norm, return_counts=bool(case["flag"] & 1))
        if case["no_data"] is not None:
            kw["no_data"] = case["no_data"]
        if case["mask"]:
            kw["mask"] = sn.add("mask", np.ascontiguousarray(rs.rand(n) < 0.3))
        if case["flag"] & 2:
            kw["sampling_size"] = max(2, n - 2)
            kw["sampling_seed"] = 7
        if entry == "vario_estimate_dir" and dim > 1:
            if case["flag"] & 4:
                kw["direction"] = A("direction", rs.standard_normal((2, dim)) + 0.1)
            else:
                kw["angles"] = A("angles", rs.uniform(0, 3, (2, dim - 1)) if dim == 3 else rs.uniform(0, 3, 2))
            kw["bandwidth"] = 1.5
        _call(gs.vario_estimate, pos, field, bins, _tags=tags, **kw)
        sn.verify("vario_estimate")
    elif entry == "vario_estimate_latlon":
        lat = rs.uniform(-80, 80, n)
        lon = rs.uniform(-170, 170, n)
        pos = A("pos", np.array([lat, lon]))
        field = A("field", _positive_field(rs, n) + 3.0)
        g = case["geo_scale"]
        bins = A("bin_edges", np.linspace(0.0, 2.0, 6) * g)
        _call(
            gs.vario_estimate, pos, field, bins, latlon=True, geo_scale=g,
            mean=mean, trend=trend, normalizer=norm, _tags=tags,
        )
        sn.verify("vario_estimate(latlon=True)")
        _call(gs.standard_bins, pos, latlon=True, geo_scale=g, _tags=tags)
        sn.verify("standard_bins(latlon=True)")
    elif entry == "vario_estimate_struct":
        d = max(dim, 2)
        axes = [sn.add(f"axis{i}", _layout(np.arange(3 + i, dtype=float), "C" if lay == "F" else lay)) for i in range(d)]
        shape = tuple(len(a) for a in axes)
        field = A("field", _positive_field(rs, shape) + 3.0)
        bins = A("bin_edges", np.linspace(0.0, 4.0, 5))
        kw = dict(mesh_type="structured", mean=mean, trend=trend, normalizer=norm)
        if case["mask"]:
            kw["mask"] = sn.add("mask", np.ascontiguousarray(rs.rand(*shape) < 0.3))
        _call(gs.vario_estimate, axes, field, bins, _tags=tags, **kw)
        sn.verify("vario_estimate(structured)")
    elif entry == "vario_estimate_axis":
        shape = tuple([5, 4, 3][:dim])
        f = rs.standard_normal(shape)
        if case["no_data"] is not None:
            f.flat[1] = case["no_data"]
        if case["mask"]:
            fld = np.ma.array(_layout(f, lay), mask=rs.rand(*shape) < 0.3)
            sn.add("field", fld)
        else:
            fld = A("field", f)
        kw = {}
        if case["no_data"] is not None:
            kw["no_data"] = case["no_data"]
        _call(gs.vario_estimate_axis, fld, direction=case["flag"] % dim, estimator=["matheron", "cressie"][case["flag"] & 1], _tags=tags, **kw)
        sn.verify("vario_estimate_axis")
    elif entry == "standard_bins":
        pos = A("pos", rs.uniform(-3, 3, (dim, n)))
        _call(gs.standard_bins, pos, dim=dim, _tags=tags)
        sn.verify("standard_bins")
    elif entry == "krige":
        model = gs.Exponential(dim=dim, var=1.3, len_scale=2.0, nugget=0.1 if case["flag"] & 1 else 0.0)
        cpos = A("cond_pos", rs.uniform(-3, 3, (dim, n)))
        cv = _positive_field(rs, n) + 3.0
        if case["flag"] & 2 and case["method"] % 3 != 1:
            cv[0] = np.nan  # (ext. drift values must match the finite conditions: not combined)
        cval = A("cond_val", cv)
        if not (case["flag"] & 2) and case["method"] % 2 == 0 and case["method"] % 3 != 1:
            # measurements kept as a float64 masked array (an outlier hidden under the mask): data and mask stay as they are
            mk_ = np.zeros(n, dtype=bool)
            mk_[n // 2] = True
            raw_ = sn.add("cond_raw", np.array(cv, dtype=np.double))
            cval = sn.add("cond_val_masked", np.ma.masked_array(raw_, mask=mk_))
        kw = dict(mean=_mt(case["mean"], dim) if case["mean"] != "none" else None, trend=trend, normalizer=norm)
        variant = case["method"] % 3
        tpos = A("pos", rs.uniform(-3, 3, (dim, 5)))
        ckw = {}
        if variant == 1:
            kw["ext_drift"] = A("ext_drift", rs.standard_normal((1, n)))
            kw["unbiased"] = True
            ckw["ext_drift"] = A("target_ext_drift", rs.standard_normal((1, 5)))
        elif variant == 2:
            kw["drift_functions"] = "linear"
        if case["flag"] & 4 and not (case["flag"] & 2):
            kw["cond_err"] = A("cond_err", rs.uniform(0.01, 0.1, n))
        k = _call(gs.Krige, model, cpos, cval, _tags=tags, **kw)
        sn.verify("Krige constructor")
        f1, v1 = _call(k, tpos, _tags=tags, **ckw)
        sn.verify("Krige.__call__")
        sn.add("returned_field", f1)
        sn.add("returned_var", v1)
        _call(k, tpos, store=["second", "second_var"], chunk_size=2, _tags=tags, **ckw)
        sn.verify("second Krige.__call__ with new store names", kind="stored_field_modified")
        newv = A("new_cond_val", _positive_field(rs, n) + 3.0)
        _call(k.set_condition, cpos, newv, kw.get("ext_drift"), _tags=tags)
        sn.verify("Krige.set_condition")
        _call(k, tpos, store="third", return_var=False, _tags=tags, **ckw)
        sn.verify("Krige.__call__ after set_condition", kind="stored_field_modified")
    elif entry == "srf":
        model = gs.Gaussian(dim=dim, var=1.2, len_scale=1.5)
        srf = gs.SRF(model, mean=1.0 if case["mean"] == "none" else mean, trend=trend, normalizer=norm, mode_no=16, seed=case["seed"] % 1000)
        if case["flag"] & 1:
            axes = [sn.add(f"axis{i}", _layout(np.linspace(0, 2, 3 + i), "C" if lay == "F" else lay)) for i in range(dim)]
            f1 = _call(srf.structured, axes, _tags=tags)
            sn.verify("SRF.structured")
        else:
            pos = A("pos", rs.uniform(-3, 3, (dim, n)))
            kw = {}
            if case["flag"] & 2:
                kw["point_volumes"] = A("point_volumes", rs.uniform(0.1, 1.0, n))
                srf.upscaling = "coarse_graining"
            f1 = _call(srf, pos, _tags=tags, **kw)
            sn.verify("SRF.__call__")
        sn.add("returned_field", f1)
        _call(srf, seed=3, store="other", _tags=tags)
        sn.verify("SRF.__call__(store='other')", kind="stored_field_modified")
        _call(srf, seed=4, store="raw", post_process=False, _tags=tags)
        sn.verify("SRF.__call__(post_process=False)", kind="stored_field_modified")
    elif entry == "condsrf":
        # with and without a nugget (the scaling of the random part has a branch of its own for nugget > 0)
        model = gs.Gaussian(dim=dim, var=1.2, len_scale=1.5, nugget=[0.0, 0.3, 0.0, 0.05][(case["flag"] >> 1) % 4])
        cpos = A("cond_pos", rs.uniform(-3, 3, (dim, 4)))
        cval = A("cond_val", _positive_field(rs, 4) + 3.0)
        if case["flag"] & 1:
            k = gs.krige.Ordinary(model, cpos, cval, normalizer=norm, trend=trend)
        else:
            k = gs.krige.Simple(model, cpos, cval, mean=2.0, normalizer=norm, trend=trend)
        sn.verify("Krige constructor")
        cs = gs.CondSRF(k, mode_no=16)
        pos = A("pos", rs.uniform(-3, 3, (dim, n)))
        f1 = _call(cs, pos, seed=1, _tags=tags)
        sn.verify("CondSRF.__call__")
        sn.add("returned_field", f1)
        sn.add("krige_field", k["field"]) if "field" in k.field_names else None
        # every array the object holds after the first call (raw field, raw kriging field, kriging variance) stays as it is,
        # whatever a later realisation stores or does not store
        for nm_ in cs.field_names:
            sn.add("stored_" + nm_, cs[nm_])
        for nm_ in k.field_names:
            sn.add("stored_krige_" + nm_, k[nm_])
        store2 = [["f2", "r2", "k2"], ["real0", False, False], "only_field", False, ["f2", False, "k2"], [False, "r2", False]][case["method"] % 6]
        _call(cs, seed=2, store=store2, _tags=tags)
        sn.verify(f"second CondSRF.__call__ with store={store2!r}", kind="stored_field_modified")
        _call(cs, pos, seed=3, _tags=tags)
        sn.verify("third CondSRF.__call__ (same pos passed again)", kind="stored_field_modified")
        # the public scaling helper on an array of the caller
        kv = A("own_krige_var", np.abs(rs.standard_normal(n)) * 0.7)
        _call(cs.get_scaling, kv, (n,), _tags=tags)
        sn.verify("CondSRF.get_scaling(krige_var, shape)")
    elif entry == "field_call":
        fld = gs.field.Field(dim=dim, mean=mean, trend=trend, normalizer=norm)
        pos = A("pos", rs.uniform(-3, 3, (dim, n)))
        vals = A("field", 0.2 * rs.standard_normal(n))
        out = _call(fld, pos, field=vals, _tags=tags)
        sn.verify("Field.__call__(pos, field=a)")
        sn.add("returned_field", out)
        _call(fld, field=vals, store="again", _tags=tags)
        sn.verify("second Field.__call__(field=a, store='again')", kind="stored_field_modified")
    elif entry == "fit_variogram":
        model = gs.Exponential(dim=dim if dim > 1 or not (case["flag"] & 1) else 2)
        x = A("x_data", np.linspace(0.2, 5, 9))
        ydat = 1.3 * (1 - np.exp(-np.linspace(0.2, 5, 9) / 1.7)) + 0.1
        if case["flag"] & 1 and model.dim > 1:
            y = A("y_data", np.vstack([ydat * (1 + 0.05 * i) for i in range(model.dim)]))
        else:
            y = A("y_data", ydat)
        w = [None, "inv", A("weights", np.linspace(1, 2, 9))][case["method"] % 3]
        _call(model.fit_variogram, x, y, weights=w, sill=[None, 1.5, False][case["flag"] % 3], _tags=tags)
        sn.verify("fit_variogram")
        if case["flag"] & 4:
            # lat-lon model: great-circle lags laid out up to (and a little beyond) half the circumference
            gsc = [1.0, gs.KM_SCALE, gs.DEGREE_SCALE][case["method"] % 3]
            mll = gs.Exponential(latlon=True, geo_scale=gsc, len_scale=0.4 * gsc)
            xl = A("latlon_lags", np.linspace(0.05, 1.1 * np.pi, 9) * gsc)
            yl = A("latlon_vario", 1.3 * (1 - np.exp(-np.linspace(0.05, 1.1 * np.pi, 9) / 0.5)) + 0.1)
            for nm_ in ("vario_yadrenko", "cov_yadrenko", "cor_yadrenko"):
                _call(getattr(mll, nm_), xl, _tags=tags)
                sn.verify(f"CovModel.{nm_}(zeta)")
            _call(mll.fit_variogram, xl, yl, nugget=False, _tags=tags)
            sn.verify("fit_variogram of a lat-lon model")
    elif entry == "normalizer":
        nms = [gs.normalizer.LogNormal(), gs.normalizer.BoxCox(lmbda=0.4), gs.normalizer.BoxCoxShift(lmbda=0.4, shift=0.5),
               gs.normalizer.YeoJohnson(lmbda=0.3), gs.normalizer.Modulus(lmbda=0.6), gs.normalizer.Manly(lmbda=0.2)]
        d = _positive_field(rs, n)
        if case["flag"] & 1:
            d[0] = np.nan
        if case["flag"] & 2:
            # values outside the domain / image of some of the normalizers (documented: they are treated as NaN, with a warning)
            d[1], d[2] = -0.3, -7.5
        data = A("data", d)
        for nm in nms:
            for meth in ("normalize", "denormalize", "derivative", "loglikelihood", "kernel_loglikelihood", "likelihood"):
                _call(getattr(nm, meth), data, _tags=tags)
                sn.verify(f"{nm.name}.{meth}")
            if not (case["flag"] & 3) and nm.name != "LogNormal":
                _call(nm.fit, data, skip=["shift"] if nm.name == "BoxCoxShift" else None, _tags=tags)
                sn.verify(f"{nm.name}.fit")
    elif entry == "mean_norm_trend":
        vec = bool(case["flag"] & 1) and dim > 1
        stacked = bool(case["flag"] & 2) and not vec
        struct = bool(case["flag"] & 4)
        if struct:
            axes = [np.linspace(0, 2, 3 + i) for i in range(dim)]
            pos = [sn.add(f"axis{i}", _layout(a, "C" if lay == "F" else lay)) for i, a in enumerate(axes)]
            shape = tuple(len(a) for a in axes)
        else:
            pos = A("pos", rs.uniform(-3, 3, (dim, n)))
            shape = (n,)
        if vec:
            shape = (dim,) + shape
        if stacked:
            shape = (2,) + shape
        fld = A("field", _positive_field(rs, shape) + 3.0)
        kw = dict(mean=mean, normalizer=norm, trend=trend, mesh_type="structured" if struct else "unstructured",
                  value_type="vector" if vec else "scalar", check_shape=not vec, stacked=stacked)
        if vec:
            kw["mean"] = None if case["mean"] == "none" else 1.5
            kw["trend"] = None if case["trend"] == "none" else 0.5
        _call(ntools.remove_trend_norm_mean, pos, fld, _tags=tags, **kw)
        sn.verify("remove_trend_norm_mean")
        fld2 = A("field2", 0.2 * rs.standard_normal(shape))
        _call(ntools.apply_mean_norm_trend, pos, fld2, _tags=tags, **kw)
        sn.verify("apply_mean_norm_trend")
    elif entry == "transform_array":
        f = A("field", rs.standard_normal(n) * 1.3 + 0.4)
        vals = A("values", [1.0, 2.0, 4.0])
        vals_u = A("values_unsorted", np.array([4.0, 1.0, 2.0]))
        thr = A("thresholds", np.array([-0.5, 0.5]))
        calls = [
            ("array_discrete", lambda: gtf.array_discrete(f, [1.0, 2.0, 4.0])),
            ("array_discrete(unsorted ndarray values)", lambda: gtf.array_discrete(f, vals_u)),
            ("array_discrete(unsorted values, equal)", lambda: gtf.array_discrete(f, vals_u, thresholds="equal")),
            ("array_discrete(ndarray thresholds)", lambda: gtf.array_discrete(f, vals_u, thresholds=thr)),
            ("array_discrete(equal)", lambda: gtf.array_discrete(f, vals, thresholds="equal")),
            ("array_discrete(list thresholds)", lambda: gtf.array_discrete(f, vals, thresholds=[-0.5, 0.5])),
            ("array_boxcox", lambda: gtf.array_boxcox(f, lmbda=0.5, shift=10.0)),
            ("array_zinnharvey(high)", lambda: gtf.array_zinnharvey(f, conn="high")),
            ("array_zinnharvey(low)", lambda: gtf.array_zinnharvey(f, conn="low", mean=0.1, var=2.0)),
            ("array_force_moments", lambda: gtf.array_force_moments(f, mean=2.0, var=3.0)),
            ("array_to_lognormal", lambda: gtf.array_to_lognormal(f)),
            ("array_to_uniform", lambda: gtf.array_to_uniform(f, low=1.0, high=3.0)),
            ("array_to_arcsin", lambda: gtf.array_to_arcsin(f)),
            ("array_to_uquad", lambda: gtf.array_to_uquad(f, a=-1.0, b=2.0)),
        ]
        for nm_, fn in calls:
            _call(fn, _what=nm_, _tags=tags)
            sn.verify(nm_)
    elif entry == "generator":
        for gi in range(3):
            model = gs.Gaussian(dim=max(dim, 2) if gi == 1 else dim, len_scale=1.5)
            d = model.dim
            pos = A(f"pos{gi}", rs.uniform(-3, 3, (d, n)))
            g = [
                lambda: gs.field.generator.RandMeth(model, mode_no=16, seed=1),
                lambda: gs.field.generator.IncomprRandMeth(model, mode_no=16, seed=1),
                lambda: gs.field.generator.Fourier(model, period=6.0, mode_no=4, seed=1),
            ][gi]()
            _call(g, pos, _tags=tags)
            sn.verify(f"{g.name}.__call__")
    elif entry == "geometry":
        d = max(dim, 2)
        model = gs.Exponential(dim=d, anis=[0.5] * (d - 1), angles=[0.4] * (d * (d - 1) // 2))
        pos = A("pos", rs.uniform(-3, 3, (d, n)))
        for meth in ("isometrize", "anisometrize", "cov_spatial", "vario_spatial"):
            _call(getattr(model, meth), pos, _tags=tags)
            sn.verify(f"CovModel.{meth}")
        ll = A("latlon", np.array([rs.uniform(-80, 80, n), rs.uniform(-170, 170, n)]))
        p3 = _call(ggeo.latlon2pos, ll, radius=case["geo_scale"], _tags=tags)
        sn.verify("latlon2pos")
        p3 = sn.add("pos3", _layout(p3, lay))
        _call(ggeo.pos2latlon, p3, radius=case["geo_scale"], _tags=tags)
        sn.verify("pos2latlon")
        axes = [sn.add(f"axis{i}", np.linspace(0, 1, 3 + i)) for i in range(d)]
        _call(ggeo.generate_grid, axes, _tags=tags)
        tt = A("time", np.linspace(0, 1, 3))
        _call(ggeo.generate_st_grid, pos, tt, _tags=tags)
        sn.verify("generate_grid / generate_st_grid")
        ml = gs.Gaussian(latlon=True, geo_scale=case["geo_scale"], len_scale=0.5 * case["geo_scale"])
        _call(ml.isometrize, ll, _tags=tags)
        sn.verify("latlon CovModel.isometrize")
    elif entry == "covmodel":
        # parameter arrays handed to a model (constructor and setters): never written to, and not kept by reference
        cfgk = ["plain", "latlon", "temporal", "latlon_temporal"][case["method"] % 4]
        d = 3 if cfgk.startswith("latlon") else max(dim, 2)
        fd = d + (1 if cfgk == "latlon_temporal" else 0)
        base = {}
        if cfgk.startswith("latlon"):
            base.update(latlon=True, geo_scale=case["geo_scale"])
        else:
            base["dim"] = d
        if "temporal" in cfgk:
            base["temporal"] = True
        n_an = fd - 1
        n_ang = fd * (fd - 1) // 2
        anis = sn.add("anis", _layout(rs.uniform(0.3, 3.0, n_an), "C" if lay == "F" else lay))
        angles = sn.add("angles", _layout(rs.uniform(-1, 1, n_ang), "C" if lay == "F" else lay))
        cls = [gs.Gaussian, gs.Exponential, gs.Matern, gs.TPLStable][case["flag"] % 4]
        how = case["flag"] // 4  # 0: constructor keywords, 1: setters
        rec.label("covmodel_" + cfgk, "ctor" if how == 0 else "setters")
        if how == 0:
            m = _call(cls, anis=anis, angles=angles, _tags=tags, **base)
            sn.verify("CovModel(anis=ndarray, angles=ndarray)")
        else:
            m = _call(cls, _tags=tags, **base)
            m.anis = anis
            sn.verify("CovModel.anis = ndarray")
            m.angles = angles
            sn.verify("CovModel.angles = ndarray")
        lsv = sn.add("len_scale", _layout(rs.uniform(0.5, 2.0, fd), "C" if lay == "F" else lay))
        state0 = (np.array(m.anis), np.array(m.angles), float(m.len_scale))
        m2 = _call(cls, len_scale=lsv, _tags=tags, **base)
        sn.verify("CovModel(len_scale=ndarray)")
        state2 = (np.array(m2.anis), np.array(m2.angles), float(m2.len_scale))
        # the caller goes on using its own (writeable) arrays
        for arr in (anis, angles, lsv):
            if arr.flags.writeable:
                arr *= -3.0
        for mm, st0, what in ((m, state0, "anis / angles"), (m2, state2, "len_scale")):
            st1 = (np.array(mm.anis), np.array(mm.angles), float(mm.len_scale))
            same = all(np.array_equal(a, b) for a, b in zip(st0[:2], st1[:2])) and st0[2] == st1[2]
            require(same, f"covmodel: the model changed when the caller's {what} array was edited afterwards: anis {st0[0].tolist()} -> {st1[0].tolist()}, "
                    f"angles {st0[1].tolist()} -> {st1[1].tolist()}", dict(tags, kind="keeps_reference_to_caller_array", entry=entry))
    rec.nontrivial(_nontrivial_call(case) or entry in ("geometry", "generator", "transform_array", "normalizer", "covmodel"))


# ---------------------------------------------------------------------------
# histories on one field object

TRANSFORMS = [
    ("zinnharvey", {}),
    ("zinnharvey", {"conn": "low"}),
    ("normal_force_moments", {}),
    ("normal_to_lognormal", {}),
    ("normal_to_uniform", {"low": 1.0, "high": 3.0}),
    ("normal_to_arcsin", {}),
    ("normal_to_uquad", {}),
    ("discrete", {"values": [1.0, 2.0, 4.0]}),
    ("discrete", {"values": [1.0, 2.0, 4.0], "thresholds": "equal"}),
    ("binary", {}),
    ("boxcox", {"lmbda": 0.5, "shift": 20.0}),
]
NAMES = ["field", "a", "b", "c"]


@st.composite
def gen_history(draw, tier="quick"):
    n_ops = draw(st.integers(2, 8 if tier == "quick" else 16))
    ops = []
    for _ in range(n_ops):
        k = draw(st.sampled_from(["generate", "transform", "transform", "post_field"]))
        if k == "generate":
            ops.append({"op": "generate", "seed": draw(st.integers(0, 99)), "store": draw(st.sampled_from(NAMES)), "pp": draw(st.booleans())})
        elif k == "transform":
            ops.append({
                "op": "transform",
                "method": draw(st.integers(0, len(TRANSFORMS) - 1)),
                "field": draw(st.sampled_from(NAMES)),
                "store": draw(st.sampled_from([True, False] + NAMES)),
                "process": draw(st.booleans()),
                "keep_mean": draw(st.booleans()),
            })
        else:
            ops.append({"op": "post_field", "name": draw(st.sampled_from(NAMES)), "process": draw(st.booleans())})
    return {
        "dim": draw(st.sampled_from([1, 2])),
        "mean": draw(st.sampled_from(["const", "const", "call"])),
        "trend": draw(st.sampled_from(["none", "const", "call"])),
        "norm": draw(st.sampled_from(["None", "None", "YeoJohnson", "Manly"])),
        "struct": draw(st.booleans()),
        "seed": draw(st.integers(0, 2**31 - 1)),
        "ops": ops,
    }


def check_history(case, rec):
    dim = case["dim"]
    tags = {"entry": "field_history"}
    rs = np.random.RandomState(case["seed"])
    model = gs.Gaussian(dim=dim, var=1.5, len_scale=1.2)
    mean = 0.7 if case["mean"] == "const" else _mt("call", dim)
    srf = gs.SRF(model, mean=mean, trend=_mt(case["trend"], dim), normalizer=_norm(case["norm"]), mode_no=16, seed=1)
    sn = Snaps("Field history", tags)
    if case["struct"]:
        pos = [sn.add(f"axis{i}", np.linspace(0, 3, 4 + i)) for i in range(dim)]
        mt = "structured"
    else:
        pos = sn.add("pos", np.ascontiguousarray(rs.uniform(-3, 3, (dim, 7))))
        mt = "unstructured"
    with quiet():
        srf.set_pos(pos, mt)
    stored = {}  # name -> (array object, bytes)
    returned = []  # (label, array, bytes)
    n_store = 0

    def verify(after, target):
        sn.verify(after)
        for name, (arr, blob) in stored.items():
            if name == target:
                continue
            cur = getattr(srf, name, None)
            if name in srf.field_names and (cur is None or cur.tobytes() != blob):
                raise Violation(
                    f"stored field '{name}' changed by {after} (target was '{target}')",
                    dict(tags, kind="stored_field_modified", role="stored"),
                )
        for label, arr, blob in returned:
            if arr.tobytes() != blob:
                raise Violation(
                    f"array returned earlier by {label} changed by {after}",
                    dict(tags, kind="returned_array_modified", role="returned"),
                )

    for i, op in enumerate(case["ops"]):
        rec.label(op["op"])
        if op["op"] == "generate":
            what = f"op {i} SRF.__call__(seed={op['seed']}, store='{op['store']}', post_process={op['pp']})"
            out = _call(srf, seed=op["seed"], store=op["store"], post_process=op["pp"], _tags=tags)
            target = op["store"]
        elif op["op"] == "transform":
            if op["field"] not in srf.field_names:
                continue
            meth, kw = TRANSFORMS[op["method"]]
            what = f"op {i} transform('{meth}', field='{op['field']}', store={op['store']!r}, process={op['process']}, keep_mean={op['keep_mean']})"
            try:
                with quiet():
                    out = srf.transform(meth, field=op["field"], store=op["store"], process=op["process"], keep_mean=op["keep_mean"], **kw)
            except (ValueError, TypeError) as e:
                msg = str(e)
                if "need a normal field" in msg or "read-only" not in msg:
                    # documented refusal (non-normal field without process) or domain error of the transform
                    verify(what + " (raised ValueError)", None)
                    continue
                raise Violation(f"{what}: {e}", dict(tags, kind="caller_array_modified", role="stored"))
            if op["store"] is True:
                target = op["field"]
            elif op["store"] is False:
                target = None
            else:
                target = op["store"]
        else:
            if op["name"] not in srf.field_names:
                continue
            src = np.array(getattr(srf, op["name"]))
            what = f"op {i} post_field(copy of '{op['name']}', name='c', process={op['process']})"
            inp = sn.add(f"post_field_input_{i}", src)
            out = _call(srf.post_field, inp, "c", op["process"], True, _tags=tags)
            target = "c"
        verify(what, target)
        if target is not None and target in srf.field_names:
            arr = getattr(srf, target)
            stored[target] = (arr, arr.tobytes())
            n_store += 1
        if isinstance(out, np.ndarray) and target is None:
            returned.append((what, out, out.tobytes()))
    rec.nontrivial(n_store >= 2)


SUBS = [
    Sub("call", gen_call, check_call, quick=1600, thorough=30000, shards_quick=8, shards_thorough=12, nontrivial=_nontrivial_call),
    Sub("history", gen_history, check_history, quick=500, thorough=10000, shards_quick=4, shards_thorough=4),
]

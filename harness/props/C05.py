"""C05 - Kriging estimates and variances solve the kriging equations."""

import math

import numpy as np
from hypothesis import strategies as st

import common
from common import Sub, Violation, lib, require, quiet
import gens
from gens import build_model, logfloat
import kcommon as kc

import gstools as gs

ID = "C05"
LEVEL = "exploration"
RULE = (
    "Hypothesis draws a complete kriging problem: variant (Simple, Ordinary, Universal with polynomial order 1-2 or named callables, "
    "ExtDrift with 1-2 drifts, Detrended, base Krige with unbiased x drift combinations), any of the 17 classes, dim 1-3 / lat-lon / "
    "space-time, anisotropy and rotation, 2-12 (thorough: up to 40) separated conditioning points with values (incl. NaN), mean "
    "(const/callable), trend, normalizer (LogNormal, BoxCox, YeoJohnson with several lambda), exact flag, nugget, cond_err "
    "(nugget/scalar/per point), pseudo_inv on/off and type, chunk size, mesh type, only_mean / return_var flags, targets. Oracle: "
    "the kriging system assembled from scratch and solved with numpy (oracles/kriging.py) with independent geometry; then "
    "metamorphic relations on the real object (linearity in the prepared data, reproduction of constants and of the drift functions, "
    "invariance under chunk size, mesh type, permutation of conditions and targets). Non-trivial: >= 3 conditioning points, a target "
    "farther than 0.05 len_scale from every datum and nearer than 3 len_scale to one, and a non-default option; distinct by hash "
    "of the rounded case. Systems with cond(A) > 1e10 are discarded and counted."
)
ASSUMPTIONS = [
    "model.covariance(r) is the radial covariance (checked against closed forms in C03)",
    "numpy.linalg.solve / cond; tolerance max(1e-8, 50 eps cond(A)) relative to data scale resp. sill",
]


@st.composite
def gen_solve(draw, tier="quick"):
    units = draw(st.integers(0, 5)) == 0
    if units:
        # a plain simple-kriging configuration (scale-equivariant to rounding), used for variables of very small / large units below
        case = draw(kc.configs(tier, max_cond=12 if tier == "quick" else 40, variants=["simple"]))
        c0 = case["cfg"]
        c0["norm"], c0["trend"] = "None", "none"
        if c0.get("mean", "none") not in ("none", "const"):
            c0["mean"] = "const"
        nv = len(case["cond_val"])
        if not c0["exact"] and all(v == v for v in case["cond_val"]) and draw(st.booleans()):
            c0["cond_err"] = "vector"
            c0["err_val"] = draw(st.lists(logfloat(1e-3, 0.5), min_size=nv, max_size=nv))
        case["cond_val"] = [min(max(float(v), -2.0), 3.0) if v == v else v for v in case["cond_val"]]
        if c0["geo"] == "euclid" and not case["spec"].get("latlon"):
            # unit of length: coordinates and correlation length of order 10^e
            case["len_unit_exp"] = draw(st.sampled_from([0, 0, -9, -12, 7]))
    else:
        case = draw(kc.configs(tier, max_cond=12 if tier == "quick" else 40))
    fdim = kc.field_dim(case["spec"])
    spec = case["spec"]
    c1 = case["cfg"]
    has_err = (c1.get("cond_err") == "nugget" and spec["nugget"] > 0) or (c1.get("cond_err") == "scalar" and c1.get("err_val", 0) > 0)
    if has_err and not c1["exact"] and all(isinstance(v, float) and v == v for v in case["cond_val"]) and draw(st.integers(0, 3)) == 0:
        # repeated measurements: a second value at the location of the first conditioning point (regular system thanks to the
        # measurement error / nugget on the diagonal)
        for row in case["cond_pos"]:
            row.append(row[0])
        case["cond_val"].append(float(case["cond_val"][0] + draw(st.sampled_from([0.7, -0.4, 0.0]))))
        case["dup"] = True
    m = draw(st.integers(1, 6))
    if spec.get("latlon"):
        lat = draw(st.lists(st.floats(-90, 90), min_size=m, max_size=m))
        lon = draw(st.lists(st.floats(-360, 360), min_size=m, max_size=m))
        case["pos"] = [lat, lon]
    else:
        ls = spec["len_scale"] / (spec.get("rescale") or 1.0)
        case["pos"] = draw(gens.point_cloud(fdim, n_min=m, n_max=m, kinds=("cloud",), scale=max(1.0, ls)))
    cfg = case["cfg"]
    if (cfg.get("norm", "None") == "None" and cfg.get("trend", "none") == "none" and cfg.get("mean", "none") in ("none", "const")
            and not kc.is_unbiased(cfg) and not kc.has_functional_drift(cfg) and not cfg.get("n_ext", 0)):
        # unit of the variable: variance, nugget and measurement errors of order 10^e, data and constant mean of order 10^(e/2)
        ue = draw(st.sampled_from([0, 0, 0, -10, -16, 6])) if not units else draw(st.sampled_from([-10, -16, 6, -10]))
        if ue:
            u = 10.0 ** (ue / 2)
            spec["var"] = float(spec["var"] * 10.0**ue)
            spec["nugget"] = float(spec["nugget"] * 10.0**ue)
            if cfg.get("cond_err") == "scalar":
                cfg["err_val"] = float(cfg["err_val"] * 10.0**ue)
            elif cfg.get("cond_err") == "vector":
                cfg["err_val"] = [float(e * 10.0**ue) for e in cfg["err_val"]]
            case["cond_val"] = [v if isinstance(v, str) or v != v else float(v * u) for v in case["cond_val"]]
            if "mean_val" in cfg:
                cfg["mean_val"] = float(cfg["mean_val"] * u)
            case["unit"] = u
    case["chunk"] = draw(st.sampled_from([None, None, 1, 2, 3]))
    c2 = case["cfg"]
    if (not spec.get("latlon") and c2["geo"] == "euclid" and c2.get("norm", "None") == "None" and c2.get("trend", "none") == "none" and c2.get("mean", "none") in ("none", "const")
            and not kc.has_functional_drift(c2) and not c2.get("n_ext", 0) and "unit" not in case and draw(st.integers(0, 5)) == 0):
        # one large request in map-like coordinates: all points translated far from the origin, tens of thousands of targets in one call
        case["far"] = {"mag": draw(st.sampled_from([1e3, 1e5, 3e6])), "dir": [draw(st.sampled_from([1.0, -0.7, 0.45])) for _ in range(4)],
                       "cells": draw(st.sampled_from([70000, 140000]))}
        case["chunk"] = None
    case["struct"] = draw(st.booleans())
    case["only_mean"] = draw(st.sampled_from([False, False, False, True]))
    case["return_var"] = draw(st.sampled_from([True, True, False]))
    case["perm_seed"] = draw(st.integers(0, 10**6))
    return case


def _scale(case, ref):
    v = common.farr(case["cond_val"])
    u = float(case.get("unit", 1.0))
    return max(u, float(np.nanmax(np.abs(v))), float(np.max(np.abs(ref))) if np.all(np.isfinite(ref)) else u)


def _nontrivial(case, cond_pos, pos, model):
    spec, cfg = case["spec"], case["cfg"]
    v = common.farr(case["cond_val"])
    if int(np.isfinite(v).sum()) < 3:
        return False
    d = kc.okr.pairwise(kc.iso(spec, cond_pos[:, np.isfinite(v)]), kc.iso(spec, pos))
    ls = spec["len_scale"] / (spec.get("rescale") or 1.0)
    dmin = d.min(axis=0)
    geo_ok = bool(np.any((dmin > 0.05 * ls) & (dmin < 3 * ls)))
    nondefault = (
        cfg["variant"] != "simple"
        or cfg.get("norm", "None") != "None"
        or cfg.get("trend", "none") != "none"
        or cfg.get("cond_err", "nugget") != "nugget"
        or any(a != 1.0 for a in spec.get("anis", []))
        or case.get("chunk") is not None
        or cfg["exact"]
    )
    return geo_ok and nondefault


def check_solve(case, rec):
    spec, cfg = case["spec"], case["cfg"]
    fdim = kc.field_dim(spec)
    tags = dict(gens.spec_tags(spec), variant=cfg["variant"], geo=cfg["geo"], norm=cfg.get("norm", "None"),
                exact=cfg["exact"], cond_err=cfg.get("cond_err"), pseudo_inv=cfg["pseudo_inv"])
    rec.label(cfg["variant"], cfg["geo"], spec["cls"], "exact" if cfg["exact"] else "inexact", "err_" + str(cfg.get("cond_err")))
    if case.get("unit"):
        rec.label(f"unit_{case['unit']:g}", f"unit_{case['unit']:g}_err_{cfg.get('cond_err')}")
    if case.get("dup"):
        rec.label("repeated_measurement_at_one_location")
    cond_pos = np.array(case["cond_pos"], dtype=float).reshape(fdim, -1)
    pos = np.array(case["pos"], dtype=float).reshape(fdim, -1)
    if case.get("len_unit_exp"):
        lu = 10.0 ** case["len_unit_exp"]
        cond_pos, pos = cond_pos * lu, pos * lu
        spec = dict(spec, len_scale=float(spec["len_scale"] * lu))
        if spec["opt"].get("len_low"):
            spec["opt"] = dict(spec["opt"], len_low=float(spec["opt"]["len_low"] * lu))
        case = dict(case, spec=spec, cond_pos=cond_pos.tolist(), pos=pos.tolist())
        rec.label(f"len_unit_1e{case['len_unit_exp']}", f"len_unit_1e{case['len_unit_exp']}_exact_{cfg['exact']}")
    if case.get("far"):
        fr = case["far"]
        ls_ = max(1.0, float(spec["len_scale"]))
        off = np.array(fr["dir"], dtype=float)[:fdim, None] * fr["mag"] * ls_
        nfill = int(math.ceil(fr["cells"] / max(cond_pos.shape[1], 1)))
        j_ = np.arange(1, nfill + 1, dtype=float)
        al_ = [0.6180339887498949, 0.7548776662466927, 0.5698402909980532, 0.8191725133961645][:fdim]
        span = 3.0 * ls_ + float(np.max(np.ptp(cond_pos, axis=1)))
        fill = np.array([(np.mod(j_ * a_, 1.0) - 0.5) * span for a_ in al_]) + cond_pos.mean(axis=1, keepdims=True)
        pos = np.concatenate([pos, fill], axis=1) + off
        cond_pos = cond_pos + off
        case = dict(case, cond_pos=cond_pos.tolist(), pos=pos.tolist())
        rec.label("large_request_far_from_origin")
    only_mean = case["only_mean"]
    if cfg["exact"] and kc.zero_lag_ambiguous(case, pos):
        rec.exclude("target_on_edge_of_isclose_zero_window")
        return
    if spec.get("latlon") and kc.has_functional_drift(cfg) and (kc.lon_wrapped(pos) or kc.lon_wrapped(cond_pos)):
        # (fixed finding F18: drift functions saw wrapped longitudes at the targets only)
        rec.label("latlon_drift_lon_outside_pm180")
    with quiet():
        model = lib(build_model, spec, _tags=tags)
        ref = kc.oracle(case, pos, model, only_mean=only_mean)
    cnd = ref["cond"]
    if not np.isfinite(cnd) or cnd > 1e10:
        rec.exclude("cond>1e10")
        return
    if not np.all(np.isfinite(ref["field"])):
        rec.exclude("oracle_outside_normalizer_range")
        return
    with quiet():
        k = lib(kc.build_krige, case, model=model, _what="Krige constructor", _tags=tags)
        kw = dict(kc.target_kwargs(cfg, pos))
        if case["chunk"] is not None:
            kw["chunk_size"] = case["chunk"]
        res = lib(k, pos.copy(), only_mean=only_mean, return_var=case["return_var"], _what="Krige.__call__", _tags=tags, **kw)
    with_var = case["return_var"] and not only_mean
    f = res[0] if with_var else res
    sc = _scale(case, ref["field"])
    nm = cfg.get("norm", "None")
    amp = 1.0 if nm == "None" else 4.0 * (1.0 + float(np.max(np.abs(ref["field"]))))
    t = kc.tol(case, cnd, sc) * amp
    err = float(np.max(np.abs(np.asarray(f) - ref["field"])))
    rec.discrepancy("estimate", err, t)
    require(
        err <= t,
        f"{'mean' if only_mean else 'kriging'} estimate differs from the direct solve of the kriging system by {err:.3g} "
        f"(tol {t:.3g}, cond {cnd:.3g}): got {np.asarray(f).ravel()[:8].tolist()}, direct {np.asarray(ref['field']).ravel()[:8].tolist()} (first entries)",
        dict(tags, kind="estimate" if not case.get("probe") else "latlon_drift_lon_wrap", only_mean=only_mean),
    )
    if with_var:
        sill = spec["var"] + spec["nugget"]
        # (with drift terms the variance of an extrapolation can exceed the sill by orders of magnitude)
        tv = kc.tol(case, cnd, max(sill, float(np.max(np.abs(ref["var"])))))
        errv = float(np.max(np.abs(res[1] - ref["var"])))
        rec.discrepancy("variance", errv, tv)
        require(
            errv <= tv,
            f"kriging variance differs from sill - b'A^-1 b (direct solve) by {errv:.3g} (tol {tv:.3g}): got {np.asarray(res[1]).ravel()[:8].tolist()}, direct {np.asarray(ref['var']).ravel()[:8].tolist()} (first entries)",
            dict(tags, kind="variance"),
        )
    # get_mean: generalised least squares mean for constant-mean systems
    if cfg["variant"] in ("ordinary",) and nm == "None" and cfg.get("trend", "none") == "none":
        v = common.farr(case["cond_val"])
        msk = np.isfinite(v)
        ce = cfg.get("cond_err", "nugget")
        e = spec["nugget"] if ce == "nugget" else (cfg["err_val"] if ce == "scalar" else np.asarray(cfg["err_val"])[msk])
        gm = kc.okr.gls_mean(model.covariance, kc.iso(spec, cond_pos[:, msk]), v[msk], err=e)
        with quiet():
            lm = lib(k.get_mean, _tags=tags)
        require(abs(lm - gm) <= kc.tol(case, cnd, sc), f"get_mean() {lm} != generalised least squares mean {gm}", dict(tags, kind="get_mean"))
    rec.nontrivial(_nontrivial(case, cond_pos, pos, model))


# ---------------------------------------------------------------------------
# metamorphic relations on the real object


@st.composite
def gen_meta(draw, tier="quick"):
    case = draw(kc.configs(tier, max_cond=10, geo_kinds=("euclid", "euclid", "temporal")))
    fdim = kc.field_dim(case["spec"])
    spec = case["spec"]
    ls = spec["len_scale"] / (spec.get("rescale") or 1.0)
    case["axes"] = [draw(st.lists(st.floats(-2.5, 2.5).map(lambda x: x * max(1.0, ls)), min_size=1, max_size=3, unique=True)) for _ in range(fdim)]
    n = len(case["cond_val"])
    lo, hi = (1.2, 4.0) if case["cfg"].get("norm") in ("LogNormal", "BoxCox") else (-2.0, 3.0)
    case["vals2"] = draw(st.lists(st.floats(lo, hi), min_size=n, max_size=n))
    case["alpha"] = draw(st.floats(-2, 2))
    case["beta"] = draw(st.floats(-2, 2))
    case["const"] = draw(st.floats(1.3, 3.5))
    case["perm_seed"] = draw(st.integers(0, 10**6))
    case["chunk"] = draw(st.sampled_from([1, 2, 3, 5]))
    return case


def check_meta(case, rec):
    spec, cfg = case["spec"], case["cfg"]
    fdim = kc.field_dim(spec)
    tags = dict(gens.spec_tags(spec), variant=cfg["variant"], geo=cfg["geo"])
    rec.label(cfg["variant"], cfg["geo"])
    cond_pos = np.array(case["cond_pos"], dtype=float).reshape(fdim, -1)
    vals = common.farr(case["cond_val"])
    axes = [np.array(a, dtype=float) for a in case["axes"]]
    grid = np.array(np.meshgrid(*axes, indexing="ij")).reshape(fdim, -1)
    shape = tuple(len(a) for a in axes)
    with quiet():
        model = lib(build_model, spec, _tags=tags)
        ref = kc.oracle(case, grid, model)
    cnd = ref["cond"]
    if not np.isfinite(cnd) or cnd > 1e9:
        rec.exclude("cond>1e9")
        return
    sc = max(1.0, float(np.nanmax(np.abs(vals))))
    sill = spec["var"] + spec["nugget"]
    t = kc.tol(case, cnd, sc) * 10
    tv = kc.tol(case, cnd, max(sill, float(np.max(np.abs(ref["var"]))))) * 10
    prs = np.random.RandomState(case["perm_seed"])
    with quiet():
        k = lib(kc.build_krige, case, model=model, _tags=tags)
        kw = kc.target_kwargs(cfg, grid)
        f0, v0 = lib(k, grid.copy(), post_process=False, _tags=tags, **kw)
        if not (np.all(np.isfinite(f0)) and np.all(np.isfinite(ref["field"]))):
            rec.exclude("data_outside_normalizer_range")
            return
        # chunking
        f1, v1 = lib(k, grid.copy(), post_process=False, chunk_size=case["chunk"], _tags=tags, **kw)
        require(float(np.max(np.abs(f1 - f0))) <= t and float(np.max(np.abs(v1 - v0))) <= tv,
                f"chunk_size={case['chunk']} changes the result (field {float(np.max(np.abs(f1 - f0))):.3g}, variance {float(np.max(np.abs(v1 - v0))):.3g})",
                dict(tags, kind="chunk"))
        # structured mesh
        if not cfg.get("n_ext", 0):
            f2, v2 = lib(k.structured, axes, post_process=False, _tags=tags)
            require(f2.shape == shape and v2.shape == shape, f"structured result has shape {f2.shape}, expected {shape}", dict(tags, kind="mesh_shape"))
            require(float(np.max(np.abs(f2.reshape(-1) - f0))) <= t and float(np.max(np.abs(v2.reshape(-1) - v0))) <= tv,
                    "structured mesh gives a different result than the equivalent point list", dict(tags, kind="mesh"))
            # structured mesh evaluated chunk by chunk (the drift / covariance columns of every chunk must be those of its own nodes)
            f5, v5 = lib(k.structured, axes, post_process=False, chunk_size=case["chunk"], _tags=tags)
            rec.label("structured_chunked" + ("_multi" if grid.shape[1] > case["chunk"] else "_single"))
            require(float(np.max(np.abs(f5.reshape(-1) - f0))) <= t and float(np.max(np.abs(v5.reshape(-1) - v0))) <= tv,
                    f"structured mesh with chunk_size={case['chunk']} differs from the unchunked point list (field {float(np.max(np.abs(f5.reshape(-1) - f0))):.3g}, "
                    f"variance {float(np.max(np.abs(v5.reshape(-1) - v0))):.3g})", dict(tags, kind="mesh_chunk"))
        # permutation of targets
        p = prs.permutation(grid.shape[1])
        kwp = {kk: vv[:, p] for kk, vv in kw.items()}
        f3, v3 = lib(k, grid[:, p].copy(), post_process=False, _tags=tags, **kwp)
        require(float(np.max(np.abs(f3 - f0[p]))) <= t and float(np.max(np.abs(v3 - v0[p]))) <= tv,
                "permuting the target points changes their values", dict(tags, kind="perm_targets"))
        # permutation of conditioning points
        q = prs.permutation(cond_pos.shape[1])
        c2 = dict(case, cond_pos=cond_pos[:, q].tolist(), cond_val=common.jsonable(vals[q]))
        if cfg.get("cond_err") == "vector":
            c2["cfg"] = dict(cfg, err_val=list(np.asarray(cfg["err_val"])[q]))
        k4 = lib(kc.build_krige, c2, model=model, _tags=tags)
        f4, v4 = lib(k4, grid.copy(), post_process=False, _tags=tags, **kw)
        require(float(np.max(np.abs(f4 - f0))) <= t and float(np.max(np.abs(v4 - v0))) <= tv,
                f"permuting the conditioning points changes the result by {float(np.max(np.abs(f4 - f0))):.3g}", dict(tags, kind="perm_cond"))
        # linearity in the prepared data (no normalizer / trend: prepared data = values - mean)
        if cfg.get("norm", "None") == "None" and not np.any(np.isnan(vals)):
            va = vals
            vb = np.array(case["vals2"], dtype=float)
            a, b = case["alpha"], case["beta"]
            mean_shift = 0.0
            ka = f0
            kb = lib(lib(kc.build_krige, dict(case, cond_val=vb.tolist()), model=model, _tags=tags), grid.copy(), post_process=False, return_var=False, _tags=tags, **kw)
            # prepared data are linear in the values up to the constant (trend + mean); use differences to cancel it
            kcmb = lib(lib(kc.build_krige, dict(case, cond_val=(va + a * (vb - va)).tolist()), model=model, _tags=tags), grid.copy(), post_process=False, return_var=False, _tags=tags, **kw)
            want = ka + a * (kb - ka)
            e = float(np.max(np.abs(kcmb - want)))
            require(e <= t * (1 + abs(a)) * 3, f"estimate is not affine in the data: deviation {e:.3g}", dict(tags, kind="linearity"))
        # unbiased variants reproduce constants and their drift functions
        if kc.is_unbiased(cfg) and cfg.get("norm", "None") == "None" and cfg.get("trend", "none") == "none":
            n = cond_pos.shape[1]
            kcst = lib(kc.build_krige, dict(case, cond_val=[case["const"]] * n), model=model, _tags=tags)
            fc = lib(kcst, grid.copy(), return_var=False, _tags=tags, **kw)
            e = float(np.max(np.abs(fc - case["const"])))
            require(e <= t * 5, f"unbiased kriging does not reproduce a constant field: deviation {e:.3g}", dict(tags, kind="reproduce_const"))
            rows_c = kc.drift_rows(cfg, fdim, cond_pos)
            rows_t = kc.drift_rows(cfg, fdim, grid)
            if rows_c is not None:
                for rc, rt in zip(rows_c, rows_t):
                    kd = lib(kc.build_krige, dict(case, cond_val=rc.tolist()), model=model, _tags=tags)
                    fd = lib(kd, grid.copy(), return_var=False, _tags=tags, **kw)
                    e = float(np.max(np.abs(fd - rt)))
                    s2 = max(1.0, float(np.max(np.abs(rt))))
                    require(e <= kc.tol(case, cnd, s2) * 50, f"kriging with drift does not reproduce its own drift function: deviation {e:.3g}", dict(tags, kind="reproduce_drift"))
    rec.nontrivial(cond_pos.shape[1] >= 3 and grid.shape[1] >= 2)


# ---------------------------------------------------------------------------
# histories: in-place model changes + documented refresh, new conditions, fitted variograms


def _spec_from_model(spec, m):
    """Spec describing the model as it is now (after in-place changes or a variogram fit)."""
    s2 = dict(spec)
    s2["var"] = float(m.var)
    s2["len_scale"] = float(m.len_scale)
    s2["nugget"] = float(m.nugget)
    s2["anis"] = [float(a) for a in m.anis]
    s2["angles"] = [float(a) for a in m.angles]
    s2["rescale"] = float(m.rescale)
    s2["opt"] = {k: float(getattr(m, k)) for k in m.opt_arg}
    return s2


@st.composite
def gen_khist(draw, tier="quick"):
    case = draw(kc.configs(tier, max_cond=10, geo_kinds=("euclid", "euclid", "temporal"),
                           variants=["simple", "ordinary", "universal", "detrended", "base"]))
    spec, cfg = case["spec"], case["cfg"]
    cfg["norm"] = "None" if cfg["variant"] != "detrended" else cfg.get("norm")
    if cfg.get("norm") is None:
        cfg.pop("norm", None)
    cfg["n_ext"] = 0
    fdim = kc.field_dim(spec)
    ls = spec["len_scale"] / (spec.get("rescale") or 1.0)
    case["pos"] = draw(gens.point_cloud(fdim, n_min=2, n_max=4, kinds=("cloud",), scale=max(1.0, ls)))
    case["cond_val"] = [0.3 * i if isinstance(v, str) or v != v else v for i, v in enumerate(case["cond_val"])]
    n = len(case["cond_val"])
    ops = []
    kinds = ["anis", "angles", "len_scale", "var", "new_values", "new_positions", "refresh_only", "call", "call", "nudge_targets"]
    if cfg["variant"] == "simple":
        kinds += ["mean", "mean"]
    for _ in range(draw(st.integers(1, 6))):
        k = draw(st.sampled_from(kinds))
        op = {"op": k}
        if k == "call":
            op["return_var"] = draw(st.booleans())
            op["nopos"] = draw(st.booleans())
        if k == "nudge_targets":
            # the next request is for slightly different targets (relative move inside numpy.allclose's default window)
            op["rel"] = draw(st.sampled_from([3e-6, 8e-6, -5e-6]))
        if k == "mean":
            # a new constant mean; the conditions are re-read on every call, with or without the refresh
            op["v"] = draw(st.floats(-2.0, 3.0))
            op["refresh"] = draw(st.booleans())
        if k in ("anis", "len_scale", "var"):
            op["factor"] = draw(st.one_of(logfloat(1.3, 3.0), logfloat(0.3, 0.8)))
            op["idx"] = draw(st.integers(0, 2))
        elif k == "angles":
            op["delta"] = draw(st.floats(0.2, 1.3))
            op["idx"] = draw(st.integers(0, 2))
        elif k == "new_values":
            op["vals"] = draw(st.lists(st.floats(-2.0, 3.0), min_size=n, max_size=n))
        elif k == "new_positions":
            op["shift"] = draw(st.lists(st.floats(-0.4, 0.4), min_size=fdim, max_size=fdim))
        ops.append(op)
    last = {"op": "call", "return_var": draw(st.booleans())}
    if draw(st.integers(0, 3)) == 0:
        # motif: a call, then the same kind of call for slightly moved targets
        ops.append(dict(last))
        ops.append({"op": "nudge_targets", "rel": draw(st.sampled_from([3e-6, 8e-6, -5e-6]))})
    if cfg["variant"] == "simple" and draw(st.integers(0, 2)) == 0:
        # motif: the same kind of call before and after a property change
        ops.append(dict(last))
        ops.append({"op": "mean", "v": draw(st.floats(-2.0, 3.0)), "refresh": draw(st.booleans())})
    if fdim > 1 and draw(st.integers(0, 2)) == 0:
        # motif: a call, a change of the anisotropy / orientation with the documented refresh, then a call that relies on the stored targets
        ops.append(dict(last))
        ops.append(draw(st.sampled_from([{"op": "anis", "factor": 2.5, "idx": 0}, {"op": "anis", "factor": 0.4, "idx": 1}, {"op": "angles", "delta": 0.9, "idx": 0}])))
        last = dict(last, nopos=True)
    ops.append(last)
    case["ops"] = ops
    case["fit"] = draw(st.sampled_from([False, False, True]))
    if case["fit"] and fdim > 1 and all(a == 1.0 for a in spec["anis"]) and not spec.get("temporal"):
        # an anisotropic start model makes the fit directional (it then changes the anisotropy)
        spec["anis"] = [draw(st.sampled_from([0.4, 2.5])) for _ in spec["anis"]]
    return case


def check_khist(case, rec):
    spec, cfg = dict(case["spec"]), dict(case["cfg"])
    fdim = kc.field_dim(spec)
    tags = dict(gens.spec_tags(spec), variant=cfg["variant"], geo=cfg["geo"])
    rec.label(cfg["variant"], cfg["geo"])
    cond_pos = np.array(case["cond_pos"], dtype=float).reshape(fdim, -1)
    cond_val = np.array(case["cond_val"], dtype=float)
    pos = np.array(case["pos"], dtype=float).reshape(fdim, -1)
    changed = 0
    last_pos, changed_at_call = None, 0
    with quiet():
        model = lib(build_model, spec, _tags=tags)
        cc = dict(case, spec=spec, cfg=cfg)
        if case["fit"] and cond_pos.shape[1] >= 6 and cfg["variant"] in ("simple", "ordinary"):
            # variogram fitted inside the constructor: the kriging system has to use the *fitted* model
            try:
                k = kc.build_krige(cc, model=model)
                k.set_condition(cond_pos.copy(), cond_val.copy(), fit_variogram=True)
            except (ValueError, RuntimeError):
                rec.exclude("variogram_fit_failed")
                return
            rec.label("fit_variogram")
            changed += 1
            # look at the result right after the fit, before any refresh can repair a stale system
            case = dict(case, ops=[{"op": "call"}] + list(case["ops"]))
        else:
            k = lib(kc.build_krige, cc, model=model, _what="Krige constructor", _tags=tags)
        for i, op in enumerate(case["ops"]):
            o = op["op"]
            where = f"op {i} {op}"
            try:
                m = k.model
                if o == "anis" and fdim > 1:
                    a = np.array(m.anis)
                    a[op["idx"] % len(a)] *= op["factor"]
                    m.anis = a
                    k.set_condition()
                    changed += 1
                elif o == "angles" and fdim > 1 and not spec.get("temporal"):
                    a = np.array(m.angles)
                    a[op["idx"] % len(a)] += op["delta"]
                    m.angles = a
                    k.set_condition()
                    changed += 1
                elif o == "len_scale":
                    m.len_scale = m.len_scale * op["factor"]
                    k.set_condition()
                    changed += 1
                elif o == "var":
                    m.var = m.var * op["factor"]
                    k.set_condition()
                    changed += 1
                elif o == "new_values":
                    cond_val = np.array(op["vals"], dtype=float)
                    k.set_condition(cond_pos.copy(), cond_val.copy())
                    changed += 1
                elif o == "new_positions":
                    cond_pos = cond_pos + np.array(op["shift"])[:, None]
                    k.set_condition(cond_pos.copy(), cond_val.copy())
                    changed += 1
                elif o == "refresh_only":
                    k.set_condition()
                elif o == "nudge_targets":
                    pos = pos * (1.0 + op["rel"])
                    rec.label("targets_nudged")
                elif o == "mean":
                    k.mean = op["v"]
                    cfg["mean"], cfg["mean_val"] = "const", float(op["v"])
                    rec.label("mean_reassigned_" + ("refresh" if op["refresh"] else "no_refresh"))
                    if op["refresh"]:
                        k.set_condition()
                    changed += 1
                elif o == "call":
                    cur = kc.spec_from_model(spec, k.model)
                    c2 = dict(case, spec=cur, cfg=cfg, cond_pos=cond_pos.tolist(), cond_val=cond_val.tolist())
                    ref = kc.oracle(c2, pos, k.model)
                    if not np.isfinite(ref["cond"]) or ref["cond"] > 1e9 or not np.all(np.isfinite(ref["field"])):
                        rec.exclude("cond>1e9")
                        return
                    args = (pos.copy(),)
                    if op.get("nopos") and last_pos is not None and np.array_equal(last_pos, pos):
                        # the targets of the previous call are kept by the object
                        args = ()
                        rec.label("call_without_positions" + ("_after_change" if changed > changed_at_call else ""))
                    if op.get("return_var", True):
                        f, v = k(*args)
                    else:
                        f, v = k(*args, return_var=False), ref["var"]
                        rec.label("call_without_variance")
                    last_pos = pos.copy()
                    changed_at_call = changed
                    sc = max(1.0, float(np.max(np.abs(cond_val))), float(np.max(np.abs(ref["field"]))))
                    t = kc.tol(c2, ref["cond"], sc) * 10
                    tv = kc.tol(c2, ref["cond"], max(cur["var"] + cur["nugget"], float(np.max(np.abs(ref["var"]))))) * 10
                    ef = float(np.max(np.abs(f - ref["field"])))
                    ev = float(np.max(np.abs(v - ref["var"])))
                    rec.discrepancy("history_estimate", ef, t)
                    require(
                        ef <= t and ev <= tv,
                        f"{where}: after the history the kriging result differs from a direct solve with the current model, data and "
                        f"positions (estimate {ef:.3g}, variance {ev:.3g}; tol {t:.3g})",
                        dict(tags, kind="stale_after_history"),
                    )
            except Violation:
                raise
            except Exception as e:  # noqa: BLE001
                raise Violation(f"{where}: raised {type(e).__name__}: {e}", dict(tags, kind="exception"))
    rec.nontrivial(changed >= 1 and cond_pos.shape[1] >= 3)


SUBS = [
    Sub("solve", gen_solve, check_solve, quick=1600, thorough=40000, shards_quick=8, shards_thorough=12),
    Sub("meta", gen_meta, check_meta, quick=400, thorough=8000, shards_quick=4, shards_thorough=4),
    Sub("history", gen_khist, check_khist, quick=400, thorough=8000, shards_quick=4, shards_thorough=4),
]

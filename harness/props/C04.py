"""C04 - Spectral representation is the Fourier pair of the covariance.

Convention (CovModel.spectrum docstring):

    S(k) = (2 pi)^-d  int C(r) exp(i k.r) d^d r ,   spectral_density = S / var

Sub-checks

parseval   Gaussian-weighted Parseval identity, for every a > 0

               int S(k) exp(-a k^2) d^d k = (4 pi a)^(-d/2) int rho(r) exp(-r^2/4a) d^d r

           Both sides are smooth radial integrals evaluated with fixed composite
           Gauss-Legendre rules (oracles/spectra.py); spectral_density is called
           once per case on one array.  The right side uses the public
           ``correlation`` (C03 checks it against closed forms).  The same
           identity with ``spectrum`` / ``covariance`` checks the factor var.
           Also: spectral_density >= 0 and finite for the analytic classes,
           the spectrum of a model whose ``dim`` was assigned after construction.
pointwise  S(k) itself through QUADPACK's Fourier-weight rules (d = 1, 3) and
           through integration between zeros of J0 with Wynn's epsilon algorithm
           (d = 2); continuity of the analytic spectra at the origin.
radial     spectral_rad_pdf = (2, 2 pi r, 4 pi r^2) * |S|, its mass, cdf/ppf where
           offered, dist_func, has_cdf / has_ppf, ln_spectral_rad_pdf.
"""

import math

import numpy as np
from hypothesis import strategies as st

import common
import gstools as gs
from common import Sub, Violation, lib, require
import gens
from gens import build_model, logfloat
from oracles import spectra as sp

ID = "C04"
LEVEL = "exploration"
RULE = (
    "Hypothesis draws (class of all 17, dim 1-3 valid for the class, var, len_scale in [1e-2,1e2], "
    "rescale, nugget, anisotropy (must not matter), optional arguments in gens 'accuracy' mode, TPL "
    "len_low in {0} u [1e-3,1e2]) and per sub-check: a shift of the 12-point grid a/len^2 in [1e-3,1e2] "
    "(parseval), wave numbers k*len in {0} u [1e-3,1e2] (pointwise), radii and probabilities in "
    "(1e-6,1-1e-6) (radial). Oracle: independent quadrature of the model's public correlation "
    "(Gaussian-weighted Parseval identity, QUADPACK Fourier rules, J0-zero summation), re-derived "
    "surface factors, integrals of the pdf for cdf/ppf. Non-trivial: parameters off the defaults and "
    "a Gaussian window (or wave number) overlapping the bulk of the spectrum (window mass in "
    "(0.05,0.95)); distinct by hash of the rounded case (class, dim, parameters, grid shift / k / r)."
)
ASSUMPTIONS = [
    "model.correlation(r) is the correlation function of the model (checked against closed forms in C03)",
    "numpy Gauss-Legendre / scipy Gauss-Jacobi nodes, scipy.integrate.quad (QUADPACK QAWO/QAWF) and "
    "scipy.special.j0/jn_zeros are correct",
    "near the origin rho(r1) <= rho(r) <= 1 for r <= r1 = 2e-8 len (used to bracket the innermost ball, "
    "where the library clamps rho to 1)",
]

# ---------------------------------------------------------------------------
# Regions excluded from the main search because of findings on the unchanged
# tree (reported; probes re-execute them).  Turn a switch off to search there.
KNOWN = {
    # Matern nu > 20: correlation is the Gaussian limit, spectral_density an
    # asymptotic expansion of the true Matern spectrum: not a Fourier pair
    # (+23 % at k len = 2).  gens "accuracy" mode keeps nu <= 20.
    "matern_large_nu_pair": True,
    # JBessel: the divisor min(gamma(nu - d/2 + 1), 100) is also cut for *large*
    # arguments (gamma(x) > 100 for x > 5.89): density too large by
    # gamma(nu-d/2+1)/100 for nu > d/2 + 4.89.
    # (fixed in /repo by 9ae9f1e: switch off, assertion live)
    "jbessel_gamma_cap": False,
    # default Hankel transform: heavy spectral tails are not resolved
    # (Stable / TPLStable alpha < 0.6, Rational alpha < 1 in d >= 2): window
    # mass off by 7 % ... 150 %, negative densities.
    "hankel_heavy_tail": True,
    # default Hankel transform: S(k) collapses for k * (integral scale) < ~0.1
    # (exact at k = 0, then 0 ... +90 % off)
    "hankel_small_k": True,
    # Integral, nu > ~30: correlation(r) = inf/nan for 1e-10 < r/len < 10^(-308/nu)
    # (overflow of x**s in inc_gamma); a C03 matter, the quadrature stays above it
    "integral_small_r_overflow": True,
    # Integral, large nu: spectral_density(k) = nan / 0 for 0 < k len/2 < 10^(-308/(nu+d))
    "integral_small_k_underflow": True,
    # Exponential, d = 2: spectral_rad_ppf(u) = sqrt(1/u^2 - 1)/len is the inverse of
    # the *survival* function: cdf(ppf(u)) = 1 - u, decreasing in u.  (Sampling with
    # uniform u is unaffected.)  The main search checks the reflected relation there;
    # a case with "strict": true checks the stated one (probe).
    "exp2d_ppf_survival": True,
    # TPLGaussian with len_low > 0: the first-order branch (z <= 0.1) is switched
    # separately for the two terms of the difference; in the band between the two
    # switches the error of one term is amplified by the cancellation (+28 % at
    # len_low/len_scale = 300).  The main search uses the rigorous bound of the
    # documented approximation (eps * kT, see tplgaussian_eps).
    "tplgau_branch_band": True,
    # default Hankel transform at k = 0 (scipy quad over [0, inf)): a correlation
    # that has decayed at r = 0.0043 (outermost node of the first 15-point rule)
    # is not seen: spectral_density(0) = 0 for compact models with range < ~0.004
    "hankel_k0_narrow_support": True,
}

ANALYTIC = set(gens.ANALYTIC_SPECTRUM)
DIM_BOUND_CLASSES = ("SuperSpherical", "JBessel", "TPLSimple")  # opt-arg bounds depend on dim (C14/K6)

# accuracy budgets ----------------------------------------------------------
# Analytic classes: closed forms evaluated in double precision; both sides of
# the identity are computed to ~1e-15 by the quadrature (measured: Gaussian,
# Exponential, Matern 1e-15, Integral / HyperSpherical / JBessel 1e-14,
# TPLExponential 1e-13 (scipy hyp2f1 is good to ~1e-12 there)).  1e-9 is the
# "rounding level" budget of the guide.  It is scaled by the conditioning of the
# formulas the library documents: the TPL spectra with len_low > 0 are
# differences (fac_up*S_up - fac_low*S_low)/(fac_up - fac_low) -> factor
# kT = (fac_up+fac_low)/(fac_up-fac_low); sums with cancellation (hole-effect
# correlation of JBessel) add COND_EPS * sum|terms|.
BUDGET_ANALYTIC = 1e-9
COND_EPS = 1e-12
# Numerical (Hankel) classes: HANKEL_DEFAULT (N=200, h=1e-3) reaches 1e-8..1e-3
# in 2-D/3-D and 0.3 % .. 2.8 % in 1-D (measured).  Declared budget 5e-2 of the
# window mass for a/len^2 >= 1e-2; windows holding less than 5 % of the
# spectral mass are held to the absolute budget of a 5 % window (the relative
# error of S near k = 0 is the small-k finding, its mass is negligible).
BUDGET_HANKEL = 5e-2
MASS_FLOOR = 0.05
HANKEL_A_MIN = 1e-2
N_A = 12


def tplgaussian_eps(dim, hurst):
    """Relative error bound of the documented first-order branch of tpl_gau_spec_dens.

    For z = (k len/2)^2 <= 0.1 the code uses gamma(a,z)/z^a ~ 1/a - z/(a+1),
    a = hurst + d/2; the series is alternating with decreasing terms, the
    dropped part is at most z^2/(2(a+2)) <= 0.005/(a+2), i.e. 0.005 a/(a+2)
    relative to the value ~1/a.  (1.2e-3 ... 2.8e-3 for d = 1..3.)

    With len_low > 0 the density is (fu S_up - fl S_low)/(fu - fl), each term
    with that relative error, so |error| <= eps (fu S_up + fl S_low)/(fu - fl).
    Window masses and S(0) of the single-scale terms increase with the scale and
    are therefore bounded by the value of the truncated model, which gives the
    rigorous bounds  eps * kT * (window mass)  and  eps * kT * S(0)  with
    kT = (fu + fl)/(fu - fl).  Inside the band where only one of the two terms
    uses the approximation (2 sqrt(0.1)/len_up < k < 2 sqrt(0.1)/len_low) this
    bound is actually reached: +28 % at len_low = 90, len_scale = 0.29 (finding
    "tplgau_branch_band"; a probe with "strict": true holds the density to eps).
    """
    a = hurst + dim / 2.0
    return 0.005 * a / (a + 2.0)


# ---------------------------------------------------------------------------
# generators


def _sanitize(spec, pointwise=False):
    """Move a drawn spec out of the regions with known findings (by construction)."""
    cls, dim, opt = spec["cls"], spec["dim"], spec["opt"]
    if cls == "JBessel" and "nu" in opt and KNOWN["jbessel_gamma_cap"]:
        opt["nu"] = float(min(opt["nu"], dim / 2.0 + 4.85))
    if cls in ("Stable", "TPLStable") and "alpha" in opt and KNOWN["hankel_heavy_tail"]:
        opt["alpha"] = float(max(opt["alpha"], 0.6))
    if cls == "Rational" and "alpha" in opt:
        if KNOWN["hankel_heavy_tail"] and dim >= 2:
            opt["alpha"] = float(max(opt["alpha"], 1.0))
    if cls == "Rational" and pointwise:
        # S(0) must exist for the pointwise tolerance: r^(d-1) rho integrable
        opt["alpha"] = float(max(opt.get("alpha", 1.0), dim / 2.0 + 0.5))
    return spec


@st.composite
def _specs(draw, classes=None, pointwise=False):
    spec = draw(
        gens.model_specs(
            classes=classes,
            dims=(1, 2, 3),
            mode="accuracy",
            aniso=True,
            rotate=False,
            nugget=True,
            rescale=True,
        )
    )
    if spec["cls"] in gens.TPL and draw(st.sampled_from([True, False, False])):
        # lower truncation: gens draws it rarely; the difference formula deserves more
        spec["opt"]["len_low"] = draw(logfloat(1e-3, 1e2))
        if draw(st.sampled_from([True, False, False])):
            # a lower cut-off that is tiny relative to the length scale (but far above the documented 1e-8 zero window)
            spec["opt"]["len_low"] = float(spec["len_scale"] * 10.0 ** draw(st.sampled_from([-3, -4, -5, -5.5, -6, -6.5])))
    return _sanitize(spec, pointwise=pointwise)


@st.composite
def gen_parseval(draw, tier="quick", classes=None):
    spec = draw(_specs(classes=classes))
    case = {"spec": spec, "shift": draw(st.floats(0.0, 0.999))}
    # now and then: construct in another dimension and assign model.dim
    if spec["cls"] not in DIM_BOUND_CLASSES and draw(st.sampled_from([True, False, False, False, False])):
        dims = [d for d in gens.valid_dims(spec["cls"]) if d != spec["dim"]]
        if dims:
            case["dim0"] = draw(st.sampled_from(dims))
    if spec["cls"] in gens.HANKEL_SPECTRUM and draw(st.sampled_from([True, False, False])):
        case["other_hankel"] = draw(st.sampled_from([{"N": 12, "h": 0.1}, {"N": 30, "h": 0.05}, {"a": 0, "b": 1}]))
    if spec["cls"] not in DIM_BOUND_CLASSES and spec["dim"] < gens.max_valid_dim(spec["cls"]) and spec["dim"] < 3 and not case.get("dim0") \
            and draw(st.sampled_from([True, False, False])):
        # a dimension change that the model rejects (the ratio 1 of the new axis lies outside user-restricted anis bounds)
        case["rejected_dim"] = True
    return case


def _kl_values(draw, n, lo, hi):
    return draw(
        st.lists(
            st.one_of(logfloat(lo, hi), st.sampled_from([1.0, 2.0, 0.5])),
            min_size=n,
            max_size=n,
        )
    )


@st.composite
def gen_pointwise(draw, tier="quick"):
    classes = [c for c in gens.CLASSES if c != "JBessel"]  # hole-effect rho: QAWF not reliable
    spec = draw(_specs(classes=classes, pointwise=True))
    case = {"spec": spec}
    if spec["cls"] in ANALYTIC:
        case["kl"] = [0.0] + _kl_values(draw, 3, 1e-3, 1e2)
        case["kl_tiny"] = draw(st.lists(logfloat(1e-9, 1e-3), min_size=2, max_size=2))
    else:
        lo = 0.3 if KNOWN["hankel_small_k"] else 1e-3
        case["kl"] = [0.0] + _kl_values(draw, 3, lo, 30.0)
        case["kl_tiny"] = []
    return case


@st.composite
def gen_radial(draw, tier="quick"):
    # half of the cases from the two classes that offer cdf / ppf
    if draw(st.floats(0, 1)) < 0.5:
        classes = ["Gaussian", "Exponential"]
    else:
        classes = None
    spec = draw(_specs(classes=classes))
    if spec["dim"] == 3 and spec["cls"] in ("Gaussian", "Exponential", "Matern") and draw(st.booleans()):
        # geographic model (internal dimension 3, two field coordinates): the same spectral functions as the plain 3-D model
        spec["latlon"] = True
        spec["geo_scale"] = draw(st.sampled_from([1.0, 6371.0, 57.29577951308232]))
        spec["anis"], spec["angles"] = [1.0, 1.0], [0.0, 0.0, 0.0]
    rl = [0.0] + sorted(_kl_values(draw, 5, 1e-3, 1e2))
    u = sorted(
        draw(
            st.lists(
                st.one_of(
                    st.floats(1e-6, 1 - 1e-6),
                    logfloat(1e-6, 0.5),
                    logfloat(1e-6, 0.5).map(lambda x: 1.0 - x),
                ),
                min_size=5,
                max_size=5,
            )
        )
    )
    return {"spec": spec, "rl": rl, "u": u, "shift": draw(st.floats(0.0, 0.999))}


# ---------------------------------------------------------------------------
# context shared by the checks


class Ctx:
    pass


def _ctx(case):
    spec = case["spec"]
    c = Ctx()
    c.spec = spec
    c.cls = spec["cls"]
    c.dim = spec["dim"]
    c.opt = spec.get("opt", {})
    c.tags = dict(gens.spec_tags(spec))
    c.analytic = c.cls in ANALYTIC
    if case.get("other_hankel"):
        # another model with its own (coarse) Hankel settings exists in the process: settings are per model
        build_model({"cls": "Rational", "dim": 3, "hankel_kw": dict(case["other_hankel"])})
    dim0 = case.get("dim0")
    if dim0:
        c.model = lib(
            build_model,
            spec,
            dim=dim0,
            anis=[1.0] * (dim0 - 1),
            angles=[0.0] * (dim0 * (dim0 - 1) // 2),
            _what="model construction",
            _tags=c.tags,
        )
        lib(setattr, c.model, "dim", c.dim, _what="model.dim = d", _tags=c.tags)
        c.tags["dim0"] = dim0
    else:
        c.model = lib(build_model, spec, _what="model construction", _tags=c.tags)
    if case.get("rejected_dim") and all(0.1 < float(a) < 0.9 for a in c.model.anis):
        with common.quiet():
            c.model.set_arg_bounds(check_args=False, anis=[0.1, 0.9])
            try:
                c.model.dim = c.dim + 1
                refused = False
            except ValueError:
                refused = True
        require(refused and c.model.dim == c.dim, f"model.dim = {c.dim + 1} with anis bounds [0.1, 0.9] was not refused cleanly (dim now {c.model.dim})", dict(c.tags, kind="dim_not_refused"))
        c.tags["after_refused_dim"] = True
    m = c.model
    c.var = float(spec["var"])
    # scale of the correlation (only places nodes / windows; not part of the oracle's truth)
    resc = float(m.rescale)
    c.len_low = float(c.opt.get("len_low", 0.0)) if c.cls in gens.TPL else 0.0
    c.L = (float(spec["len_scale"]) + c.len_low) / resc
    c.support = c.L if c.cls in gens.COMPACT else None
    c.nu = float(m.nu) if hasattr(m, "nu") else None
    c.jb_p = (c.nu - c.dim / 2.0) if c.cls == "JBessel" else None
    # conditioning of the documented TPL difference formula
    c.kT = 1.0
    if c.cls in ("TPLGaussian", "TPLExponential") and c.len_low > 1e-8 * resc:
        h2 = 2.0 * float(m.hurst)
        fu, fl = (c.len_low + spec["len_scale"]) ** h2, c.len_low**h2
        c.kT = (fu + fl) / (fu - fl)
    c.strict = bool(case.get("strict"))  # probes: no exclusion of known regions
    c.r_floor = 2e-8 * c.L
    if c.cls == "Integral" and c.nu > 8.0:
        if KNOWN["integral_small_r_overflow"] and not c.strict:
            c.r_floor = 1e-5 * c.L  # rho = 1 - O(h^2) there: the bracket stays ~1e-15
        elif c.nu > 30.0:
            c.tags["kind"] = "integral_small_r_overflow"
    # distinctive tags inside the regions with known findings (reached by probes only)
    if c.cls == "Matern" and c.nu > 20.0:
        c.tags["kind"] = "matern_large_nu_pair"
    if c.cls == "JBessel" and c.nu - c.dim / 2.0 + 1.0 > 5.89:
        c.tags["kind"] = "jbessel_gamma_cap"
    if c.cls == "TPLGaussian" and c.kT > 1.0 and c.strict:
        c.tags["kind"] = "tplgau_branch_band"
    alpha = float(getattr(m, "alpha", 2.0))
    if (c.cls in ("Stable", "TPLStable") and alpha < 0.6) or (c.cls == "Rational" and alpha < 1.0 and c.dim >= 2):
        c.tags["kind"] = "hankel_heavy_tail"
    return c


def _with_model(c, model):
    c2 = Ctx()
    c2.__dict__.update(c.__dict__)
    c2.model = model
    return c2


def _budget(c):
    """Relative budget of the analytic classes."""
    if c.cls == "TPLGaussian":
        return tplgaussian_eps(c.dim, float(c.model.hurst)) * (1.0 if c.strict else c.kT)
    return BUDGET_ANALYTIC * c.kT


def _a_grid(c, shift, lo=-3.0, hi=2.0, n=N_A):
    rel = [10.0 ** (lo + (hi - lo) * (i + shift) / n) for i in range(n)]
    return rel, [r * c.L * c.L for r in rel]


def _k_side(c, a_list, n):
    """Nodes K (one array) and, per a, (slice, coefficient vector) such that
    int f(k) exp(-a k^2) dk = sum coef * f(K[slice]) for a *radial density* f dk,
    the d-dimensional integral of S is coef * rad_weight * S."""
    parts, out, off = [], [], 0
    if c.jb_p is not None:
        k, w, t = sp.jacobi_rule(1.0 / c.L, c.jb_p)
        for a in a_list:
            out.append((slice(0, k.size), w * np.exp(-a * k * k) / t**c.jb_p))
        return k, out
    for a in a_list:
        k, w = sp.k_rule(a, c.L, n=n)
        parts.append(k)
        out.append((slice(off, off + k.size), w * np.exp(-a * k * k)))
        off += k.size
    return np.concatenate(parts), out


def _r_side(c, a_list, n=16):
    parts, out, off = [], [], 0
    for a in a_list:
        r, w, r1 = sp.r_rule(a, c.L, n=n, r_floor=c.r_floor, support=c.support)
        r = np.concatenate((r, [r1]))
        parts.append(r)
        out.append((slice(off, off + r.size), w, r1))
        off += r.size
    return np.concatenate(parts), out


def _rhs(c, a_list, R, rules, rho):
    """Per a: (value, half width of the origin bracket, sum |terms|)."""
    res = []
    for a, (sl, w, r1) in zip(a_list, rules):
        rr, vv = R[sl], rho[sl]
        r, v, rho1 = rr[:-1], vv[:-1], float(vv[-1])
        norm = (4.0 * math.pi * a) ** (c.dim / 2.0)
        terms = w * sp.rad_weight(c.dim, r) * np.exp(-(r * r) / (4.0 * a)) * v / norm
        mid, half = sp.origin_bracket(c.dim, a, r1, rho1)
        res.append((float(np.sum(terms)) + mid, half, float(np.sum(np.abs(terms)))))
    return res


def _call(c, name, x, what=None):
    out = lib(getattr(c.model, name), x, _what=what or f"{c.cls}.{name}", _tags=c.tags)
    out = np.asarray(out, dtype=float)
    require(
        out.shape == np.shape(x),
        f"{name} returns shape {out.shape} for input shape {np.shape(x)}",
        dict(c.tags, kind=c.tags.get("kind", "shape")),
    )
    return out


def _tol_parseval(c, a_rel, rhs, half, cond):
    """(tolerance, asserted?) for |lhs - rhs| of one window."""
    if c.analytic:
        return _budget(c) * abs(rhs) + COND_EPS * c.kT * cond + 2.0 * half, True
    tol = BUDGET_HANKEL * max(abs(rhs), MASS_FLOOR) + 2.0 * half
    return tol, a_rel >= HANKEL_A_MIN


# ---------------------------------------------------------------------------
# parseval


def check_parseval(case, rec):
    c = _ctx(case)
    m, dim, tags = c.model, c.dim, c.tags
    grp = c.cls if c.analytic else "hankel"
    rec.label(c.cls, f"dim{dim}", "analytic" if c.analytic else "hankel")
    if c.len_low > 0:
        rec.label("len_low>0")
    if c.kT > 10.0:
        rec.label("TPL kT>10")  # strongly cancelling difference formula: wide tolerance
    if case.get("dim0"):
        rec.label("dim_assigned")
    a_rel, a_list = _a_grid(c, case["shift"])
    K, krules = _k_side(c, a_list, n=16 if c.analytic else 6)
    R, rrules = _r_side(c, a_list)
    dens = _call(c, "spectral_density", K)
    rho = _call(c, "correlation", R)
    require(bool(np.all(np.isfinite(rho))), "correlation not finite on the quadrature nodes", dict(tags, kind=tags.get("kind", "cor_nonfinite")))
    if c.analytic:
        bad = ~np.isfinite(dens)
        require(
            not bad.any(),
            f"spectral_density not finite at k={K[bad][:3]} ({int(bad.sum())} of {K.size} nodes)",
            dict(tags, kind=tags.get("kind", "nonfinite")),
        )
        neg = dens < 0
        require(
            not neg.any(),
            f"spectral_density negative: {dens[neg][:3]} at k={K[neg][:3]}",
            dict(tags, kind=tags.get("kind", "negative_density")),
        )
    else:
        dens = np.where(np.isfinite(dens), dens, 0.0)
    if c.jb_p is not None:
        _check_input_forms(c, tags)
        kout = (1.0 + np.array([1e-6, 0.1, 1.0, 10.0])) / c.L
        dout = _call(c, "spectral_density", kout)
        require(
            bool(np.all(dout == 0.0)),
            f"JBessel spectral density not zero outside k < 1/len: {dout}",
            dict(tags, kind=tags.get("kind", "jbessel_support")),
        )
    rhs_all = _rhs(c, a_list, R, rrules, rho)
    masses = []
    for i, (a, (sl, coef)) in enumerate(zip(a_list, krules)):
        k = K[sl]
        terms = coef * sp.rad_weight(dim, k) * dens[sl]
        lhs = float(np.sum(terms))
        rhs, half, cond_r = rhs_all[i]
        masses.append(rhs)
        cond = cond_r + float(np.sum(np.abs(terms)))
        tol, asserted = _tol_parseval(c, a_rel[i], rhs, half, cond)
        err = abs(lhs - rhs)
        if not asserted:
            rec.exclude("hankel_a_below_1e-2")
            continue
        rec.discrepancy(f"parseval_{grp}", err, tol)
        require(
            err <= tol,
            f"{c.cls} d={dim}: int S exp(-a k^2) d^dk = {lhs:.12g} but (4 pi a)^(-d/2) int rho exp(-r^2/4a) d^dr"
            f" = {rhs:.12g} at a/len^2 = {a_rel[i]:.3g} (|diff| {err:.3g}, rel {err / max(abs(rhs), 1e-300):.3g}, tol {tol:.3g})",
            dict(tags, kind=tags.get("kind", "parseval"), a_rel=a_rel[i]),
        )
    # --- the same identity with spectrum / covariance: factor var -------------
    idx = list(range(N_A)) if c.analytic else [3, 8]
    a_sub = [a_list[i] for i in idx]
    if c.analytic:
        K2, kr2, R2, rr2 = K, krules, R, rrules
    else:
        K2, kr2 = _k_side(c, a_sub, n=6)
        R2, rr2 = _r_side(c, a_sub)
    spec_v = _call(c, "spectrum", K2)
    cov = _call(c, "covariance", R2)
    if not c.analytic:
        spec_v = np.where(np.isfinite(spec_v), spec_v, 0.0)
    rhs2 = _rhs(c, a_sub, R2, rr2, cov / c.var)
    for j, (a, (sl, coef)) in enumerate(zip(a_sub, kr2)):
        k = K2[sl]
        terms = coef * sp.rad_weight(dim, k) * spec_v[sl] / c.var
        lhs = float(np.sum(terms))
        rhs, half, cond_r = rhs2[j]
        cond = cond_r + float(np.sum(np.abs(terms)))
        tol, asserted = _tol_parseval(c, a_rel[idx[j]], rhs, half, cond)
        if not asserted:
            continue
        err = abs(lhs - rhs)
        rec.discrepancy(f"parseval_var_{grp}", err, tol)
        require(
            err <= tol,
            f"{c.cls} d={dim}: int spectrum exp(-a k^2) d^dk = {lhs * c.var:.12g} but the transform of "
            f"covariance gives {rhs * c.var:.12g} (var = {c.var:.6g}, a/len^2 = {a_rel[idx[j]]:.3g})",
            dict(tags, kind=tags.get("kind", "parseval_var"), a_rel=a_rel[idx[j]]),
        )
    nontriv = (not gens.spec_is_default(case["spec"])) and any(0.05 < x < 0.95 for x in masses)
    rec.nontrivial(nontriv)


# ---------------------------------------------------------------------------
# pointwise


def _oracle_S(c, k):
    m, L = c.model, c.L

    def rho_s(r):
        with common.quiet():
            return float(m.correlation(np.array([r], dtype=float))[0])

    def rho_v(r):
        with common.quiet():
            return np.asarray(m.correlation(np.asarray(r, dtype=float)), dtype=float)

    if c.dim == 1:
        return sp.ft_1d(rho_s, k, L, c.support)
    if c.dim == 3:
        return sp.ft_3d(rho_s, k, L, c.support)
    return sp.ft_2d(rho_v, k, L, c.support)


def _check_input_forms(c, tags):
    """Integer list / integer array / integer scalar / float list of wave numbers give the float-array result."""
    ki = [0, 1, 2, 3]
    ref_i = np.asarray(_call(c, "spectral_density", np.array(ki, dtype=float)), dtype=float)
    for form, arg in (("int list", list(ki)), ("int array", np.array(ki)), ("int32 column", np.array(ki, dtype=np.int32).reshape(-1, 1)), ("float list", [float(v) for v in ki])):
        got_i = np.asarray(_call(c, "spectral_density", arg), dtype=float).reshape(-1)
        require(
            got_i.shape == ref_i.shape and bool(np.allclose(got_i, ref_i, rtol=1e-12, atol=0, equal_nan=True)),
            f"spectral_density({form} {ki}) = {got_i.tolist()} differs from the float array result {ref_i.tolist()}",
            dict(tags, kind="input_form", form=form),
        )
    for j, kv in enumerate(ki):
        sv = float(np.asarray(_call(c, "spectral_density", int(kv))))
        require(bool(np.isclose(sv, ref_i[j], rtol=1e-12, atol=0, equal_nan=True)), f"spectral_density(int {kv}) = {sv!r}, float array gives {ref_i[j]!r}", dict(tags, kind="input_form", form="int scalar"))
    sp_i = np.asarray(_call(c, "spectrum", list(ki)), dtype=float).reshape(-1)
    sp_f = np.asarray(_call(c, "spectrum", np.array(ki, dtype=float)), dtype=float).reshape(-1)
    require(bool(np.allclose(sp_i, sp_f, rtol=1e-12, atol=0, equal_nan=True)), f"spectrum(int list) = {sp_i.tolist()} differs from spectrum(float array) = {sp_f.tolist()}",
            dict(tags, kind="input_form", form="spectrum int list"))


def check_pointwise(case, rec):
    c = _ctx(case)
    tags = c.tags
    rec.label(c.cls, f"dim{c.dim}", "analytic" if c.analytic else "hankel")
    grp = c.cls if c.analytic else "hankel"
    # length that places the wave numbers: len for the closed forms; for the
    # numerical classes the integral scale of rho (Hankel accuracy depends on
    # k times the *effective* correlation length, e.g. len/nu for TPLSimple)
    ell = c.L
    if not c.analytic:
        with common.quiet():
            v, _e = sp.half_line_integral(lambda r: float(c.model.correlation(np.array([r]))[0]), c.L, c.support)
        ell = max(float(v), 1e-6 * c.L)
    ks = [kl / ell for kl in case["kl"]]
    lib_S = _call(c, "spectral_density", np.array(ks, dtype=float))
    if not c.analytic and len(ks) >= 2:
        # the density follows in-place updates of the model: evaluate, change the rescale factor (and back), evaluate the very
        # same wave-number array again - it must be what a freshly built model with that state reports
        import copy as _copy

        karr = np.array(ks, dtype=float)
        mm = _copy.deepcopy(c.model)
        with common.quiet():
            mm.spectral_density(karr)
            mm.rescale = float(mm.rescale) * 3.0
            s_upd = np.asarray(mm.spectral_density(karr), dtype=float)
            fresh = build_model(dict(case["spec"], rescale=float(mm.rescale)))
            s_new = np.asarray(fresh.spectral_density(karr), dtype=float)
        rec.label("density_after_inplace_rescale")
        fin = np.isfinite(s_new) & np.isfinite(s_upd)
        require(
            bool(np.all(np.isfinite(s_new) == np.isfinite(s_upd))) and bool(np.allclose(s_upd[fin], s_new[fin], rtol=1e-9, atol=1e-12 * float(np.max(np.abs(s_new[fin]), initial=0.0)))),
            f"spectral_density after `model.rescale *= 3` on a used model {s_upd.tolist()} differs from a freshly built model with that rescale {s_new.tolist()}",
            dict(tags, kind="stale_density_after_update"),
        )
    if c.analytic:
        _check_input_forms(c, tags)
    S0_or, e0 = _oracle_S(c, 0.0)
    require(S0_or > 0 and np.isfinite(S0_or), f"oracle: S(0) = {S0_or} (harness)", dict(tags, kind="oracle"))
    interesting = False
    narrow = False
    if not c.analytic:
        with common.quiet():
            narrow = float(c.model.correlation(np.array([0.0044]))[0]) < 1e-3
    for kl, k, s in zip(case["kl"], ks, lib_S):
        if k == 0.0 and narrow and KNOWN["hankel_k0_narrow_support"] and not c.strict:
            rec.exclude("hankel_k0_narrow_support")
            continue
        if k == 0.0:
            o, e = S0_or, e0
        else:
            o, e = _oracle_S(c, k)
        if c.analytic:
            # rounding level, scaled by the conditioning of the TPL difference;
            # TPLGaussian: bound of its documented first-order branch
            tol = BUDGET_ANALYTIC * c.kT * (S0_or + abs(o)) + 10.0 * e
            if 0.0 < c.len_low < 1e-3 * float(case["spec"]["len_scale"]):
                # the oracle's quadrature of rho cannot resolve a cut-off scale that small (its own error estimate misses it)
                tol += 1e-6 * S0_or
            if c.cls == "TPLGaussian":
                tol += _budget(c) * S0_or
        else:
            # accuracy budget of HANKEL_DEFAULT away from the small-k region
            tol = 2e-2 * S0_or + 10.0 * e
        err = abs(float(s) - o)
        if not np.isfinite(err):
            err = float("inf")
        rec.discrepancy(f"pointwise_{grp}", err, tol)
        if 0.05 * S0_or < abs(o) < 0.95 * S0_or:
            interesting = True
        kind = tags.get("kind", "pointwise")
        if not c.analytic and 0.0 < kl < 0.3 and "kind" not in tags:
            kind = "hankel_small_k"  # k * (integral scale) < 0.3, default Hankel transform
        if not c.analytic and k == 0.0 and narrow and "kind" not in tags:
            kind = "hankel_k0_narrow_support"
        require(
            err <= tol,
            f"{c.cls} d={c.dim}: spectral_density(k) = {float(s):.12g} at k*len = {k * c.L:.4g}, transform of "
            f"correlation = {o:.12g} (S(0) = {S0_or:.6g}; rel. to S(k) {err / max(abs(o), 1e-300):+.3g})",
            dict(tags, kind=kind, kl=kl),
        )
    # continuity at the origin (analytic classes): S(k) = S(0) (1 + O((k len)^2))
    if c.analytic and case.get("kl_tiny"):
        xs = np.array(case["kl_tiny"], dtype=float)
        under = np.zeros(xs.size, dtype=bool)
        if c.cls == "Integral":
            # (k len / 2)^(nu + d) underflows: library returns nan / 0 (finding)
            under = (c.nu + c.dim) * np.log10(xs / 2.0) < -280.0
        st_ = _call(c, "spectral_density", xs / c.L)
        for x, s, un in zip(xs, st_, under):
            if un and KNOWN["integral_small_k_underflow"] and not c.strict:
                rec.exclude("integral_small_k_underflow")
                continue
            # curvature of S at 0 in units of len: second moment of rho; 1e3 covers
            # Matern nu=0.2 (8.5), the TPL models and the end point exponent of JBessel
            tol = (1e3 * x * x + 1e-9) * S0_or + 10 * e0
            if 0.0 < c.len_low < 1e-3 * float(case["spec"]["len_scale"]):
                # the oracle's quadrature of rho cannot resolve a cut-off scale that small (same allowance as for S(k) above)
                tol += 1e-6 * S0_or
            kind = "integral_small_k_underflow" if un else tags.get("kind", "origin_continuity")
            require(
                bool(np.isfinite(s)) and abs(float(s) - S0_or) <= tol,
                f"{c.cls} d={c.dim}: spectral_density({x:.3g}/len) = {float(s)!r} but S(0) = {S0_or:.12g}",
                dict(tags, kind=kind, kl=float(x)),
            )
    rec.nontrivial((not gens.spec_is_default(case["spec"])) and interesting)


# ---------------------------------------------------------------------------
# radial pdf / cdf / ppf


def _own_rad_fac(dim, r):
    r = np.asarray(r, dtype=float)
    if dim == 1:
        return 2.0 * np.ones_like(r)
    if dim == 2:
        return 2.0 * math.pi * r
    return 4.0 * math.pi * r * r


def _pdf_panels(lo, hi, L):
    """Breaks for integrating a radial pdf over [lo, hi]: width <= 1/len up to
    32/len (bulk), doubling panels beyond (power-law or Gaussian tail), grading
    towards 0 when the interval starts there."""
    core = min(hi, max(lo, 32.0 / L))
    br = [np.array([lo, hi])]
    if core > lo:
        br.append(np.linspace(lo, core, int(math.ceil((core - lo) * L)) + 1))
    x = core
    while x < hi:
        br.append(np.array([x]))
        x *= 2.0
    if lo == 0.0:
        br.append(sp.dyadic(min(hi, 1.0 / L), 8))
    b = np.concatenate(br)
    return b[(b >= lo) & (b <= hi)]


def _method_offered(model, name, probe):
    fn = getattr(model, name, None)
    if fn is None:
        return False
    with common.quiet():
        try:
            return fn(probe) is not None
        except Exception:  # noqa: BLE001
            return True  # it exists; a raise is reported by the value checks


def check_radial(case, rec):
    c = _ctx(case)
    m, dim, tags, L = c.model, c.dim, c.tags, c.L
    rec.label(c.cls, f"dim{dim}")
    r = np.array(case["rl"], dtype=float) / L
    # --- pdf = surface factor * |density| -------------------------------------
    pdf = _call(c, "spectral_rad_pdf", r)
    dens = _call(c, "spectral_density", r)
    want = _own_rad_fac(dim, r) * np.abs(dens)
    want = np.where(np.isfinite(want), want, 0.0)  # documented: non-finite Hankel noise -> 0
    scale = max(float(np.max(np.abs(want))), 1e-300)
    err = float(np.max(np.abs(pdf - want)))
    rec.discrepancy("pdf_factor", err, 1e-13 * scale)
    require(
        err <= 1e-13 * scale,
        f"spectral_rad_pdf != rad_fac(d, r) * |spectral_density| (d={dim}): {pdf} vs {want}",
        dict(tags, kind=tags.get("kind", "rad_pdf_factor")),
    )
    require(bool(np.all(pdf >= 0) and np.all(np.isfinite(pdf))), f"pdf negative / not finite: {pdf}", dict(tags, kind="pdf_sign"))
    if dim > 1:
        require(pdf[0] == 0.0, f"pdf(0) = {pdf[0]} in d={dim}", dict(tags, kind="pdf_origin"))
    with common.quiet():
        lnp = np.asarray(m.ln_spectral_rad_pdf(r), dtype=float)
    pos = pdf > 0
    require(
        bool(np.all(np.abs(lnp[pos] - np.log(pdf[pos])) <= 1e-12 * (1 + np.abs(np.log(pdf[pos])))))
        and bool(np.all(np.isneginf(lnp[~pos]))),
        "ln_spectral_rad_pdf != log(spectral_rad_pdf)",
        dict(tags, kind="ln_pdf"),
    )
    # --- mass: int pdf(k) exp(-a k^2) dk = window mass (-> 1 for a -> 0) --------
    sh = case["shift"]
    a_rel = [1e-4 * 10.0**sh, 10.0 ** (sh - 0.5)] if c.analytic else [HANKEL_A_MIN * 10.0**sh, 10.0 ** (sh - 0.5) * 3]
    a_list = [x * L * L for x in a_rel]
    K, krules = _k_side(c, a_list, n=16 if c.analytic else 6)
    R, rrules = _r_side(c, a_list)
    pk = _call(c, "spectral_rad_pdf", K)
    rho = _call(c, "correlation", R)
    rhs_all = _rhs(c, a_list, R, rrules, rho)
    masses = []
    for i, (a, (sl, coef)) in enumerate(zip(a_list, krules)):
        terms = coef * pk[sl]
        lhs = float(np.sum(terms))
        rhs, half, cond_r = rhs_all[i]
        masses.append(rhs)
        tol, _ = _tol_parseval(c, a_rel[i], rhs, half, cond_r + float(np.sum(np.abs(terms))))
        e = abs(lhs - rhs)
        rec.discrepancy("pdf_mass_" + ("analytic" if c.analytic else "hankel"), e, tol)
        require(
            e <= tol,
            f"{c.cls} d={dim}: int spectral_rad_pdf(k) exp(-a k^2) dk = {lhs:.12g}, window mass from the "
            f"correlation = {rhs:.12g} (a/len^2 = {a_rel[i]:.3g}; total mass must be 1)",
            dict(tags, kind=tags.get("kind", "pdf_mass"), a_rel=a_rel[i]),
        )
    if c.jb_p is not None:
        # compact spectrum: the plain integral of the pdf
        k, w, t = sp.jacobi_rule(1.0 / L, c.jb_p)
        tot = float(np.sum(w * _call(c, "spectral_rad_pdf", k) / t**c.jb_p))
        rec.discrepancy("pdf_total_jbessel", abs(tot - 1.0), 1e-9)
        require(abs(tot - 1.0) <= 1e-9, f"JBessel d={dim}: int pdf = {tot:.12g}", dict(tags, kind=tags.get("kind", "pdf_mass")))
    # --- has_cdf / has_ppf / dist_func ------------------------------------------
    probe_r = np.array([0.5 / L])
    probe_u = np.array([0.5])
    off_cdf = _method_offered(m, "spectral_rad_cdf", probe_r)
    off_ppf = _method_offered(m, "spectral_rad_ppf", probe_u)
    has_cdf = lib(lambda: m.has_cdf, _tags=tags)
    has_ppf = lib(lambda: m.has_ppf, _tags=tags)
    require(bool(has_cdf) == off_cdf, f"has_cdf = {has_cdf} but spectral_rad_cdf {'returns values' if off_cdf else 'is not defined'} in d={dim}", dict(tags, kind="has_cdf"))
    require(bool(has_ppf) == off_ppf, f"has_ppf = {has_ppf} but spectral_rad_ppf {'returns values' if off_ppf else 'is not defined'} in d={dim}", dict(tags, kind="has_ppf"))
    exp_cdf = c.cls in ("Gaussian", "Exponential")
    exp_ppf = exp_cdf and dim in (1, 2)
    require(off_cdf == exp_cdf and off_ppf == exp_ppf, f"documented: cdf for Gaussian/Exponential d<=3, ppf d<=2; got cdf={off_cdf} ppf={off_ppf}", dict(tags, kind="cdf_ppf_offer"))
    dfn = lib(lambda: m.dist_func, _tags=tags)
    require(isinstance(dfn, tuple) and len(dfn) == 3, f"dist_func is {type(dfn)}", dict(tags, kind="dist_func"))
    require(dfn[0] == m.spectral_rad_pdf, "dist_func[0] is not spectral_rad_pdf", dict(tags, kind="dist_func"))
    require(
        (dfn[1] == m.spectral_rad_cdf) if off_cdf else (dfn[1] is None),
        f"dist_func[1] = {dfn[1]} (cdf offered: {off_cdf})",
        dict(tags, kind="dist_func"),
    )
    require(
        (dfn[2] == m.spectral_rad_ppf) if off_ppf else (dfn[2] is None),
        f"dist_func[2] = {dfn[2]} (ppf offered: {off_ppf})",
        dict(tags, kind="dist_func"),
    )
    rec.label(f"cdf={int(off_cdf)} ppf={int(off_ppf)}")
    # --- cdf ---------------------------------------------------------------------
    if off_cdf:
        cdf = _call(c, "spectral_rad_cdf", r)
        require(cdf[0] == 0.0, f"cdf(0) = {cdf[0]}", dict(tags, kind="cdf_origin"))
        # (adjacent floats as radii: monotone up to the rounding of the closed form)
        require(bool(np.all(np.diff(cdf) >= -8 * np.finfo(float).eps * np.max(np.abs(cdf)))), f"cdf not monotone: {cdf}", dict(tags, kind="cdf_monotone"))
        require(bool(np.all((cdf >= 0) & (cdf <= 1))), f"cdf outside [0,1]: {cdf}", dict(tags, kind="cdf_range"))
        # cdf(r_{i+1}) - cdf(r_i) = int pdf : panels of width <= 1/len, 16-point rule
        for i in range(len(r) - 1):
            lo, hi = r[i], r[i + 1]
            if hi <= lo:
                continue
            x, w = sp.composite_gl(_pdf_panels(lo, hi, L), 16)
            integ = float(np.sum(w * _call(c, "spectral_rad_pdf", x)))
            e = abs((cdf[i + 1] - cdf[i]) - integ)
            rec.discrepancy("cdf_increment", e, 1e-11)
            require(
                e <= 1e-11,
                f"{c.cls} d={dim}: cdf({hi:.6g}) - cdf({lo:.6g}) = {cdf[i + 1] - cdf[i]:.14g} but int pdf = {integ:.14g}",
                dict(tags, kind="cdf_increment"),
            )
        # cdf' = pdf by Richardson extrapolation of central differences
        for ri, pi_ in zip(r[1:], pdf[1:]):
            h = min(1e-2 / L, 0.25 * ri)
            f = lambda x: float(_call(c, "spectral_rad_cdf", np.array([x]))[0])  # noqa: E731
            d1 = (f(ri + h) - f(ri - h)) / (2 * h)
            d2 = (f(ri + h / 2) - f(ri - h / 2)) / h
            der = (4 * d2 - d1) / 3
            # truncation ~ h^4 f^(5)/ 480 ~ 1e-10 L, rounding ~ eps/h = 1e-14 L... 1e-7 L is ample
            tol = 1e-7 * max(L, float(pi_))
            rec.discrepancy("cdf_derivative", abs(der - pi_), tol)
            require(abs(der - pi_) <= tol, f"{c.cls} d={dim}: cdf'({ri:.6g}) = {der:.10g} but pdf = {pi_:.10g}", dict(tags, kind="cdf_derivative"))
        # cdf(inf) -> 1: tails are O(1/(r len)) (Exponential) or Gaussian
        big = float(_call(c, "spectral_rad_cdf", np.array([1e15 / L]))[0])
        require(abs(big - 1.0) <= 1e-12, f"cdf(1e15/len) = {big!r}, expected 1", dict(tags, kind="cdf_limit"))
    # --- ppf ---------------------------------------------------------------------
    if off_ppf:
        u = np.array(case["u"], dtype=float)
        ptags = dict(tags)
        if c.cls == "Exponential" and dim == 2:
            if KNOWN["exp2d_ppf_survival"] and not c.strict:
                rec.exclude("exp2d_ppf_survival")
                inner = m.spectral_rad_ppf

                class _Reflected:  # ppf as it would be with u -> 1 - u
                    @staticmethod
                    def spectral_rad_ppf(x):
                        return inner(1.0 - np.asarray(x, dtype=float))

                    spectral_rad_cdf = m.spectral_rad_cdf
                    spectral_rad_pdf = m.spectral_rad_pdf

                c = _with_model(c, _Reflected)
            else:
                ptags["finding"] = "exp2d_ppf_survival"  # kind = ppf_monotone / cdf_ppf / ppf_cdf / ppf_mass
        tags = ptags
        c.tags = ptags
        q = _call(c, "spectral_rad_ppf", u)
        require(bool(np.all(np.isfinite(q)) and np.all(q >= 0)), f"ppf not finite / negative: {q}", dict(tags, kind="ppf_range"))
        require(bool(np.all(np.diff(q) >= 0)), f"ppf not monotone: {q} for u={u}", dict(tags, kind="ppf_monotone"))
        back = _call(c, "spectral_rad_cdf", q)
        e = float(np.max(np.abs(back - u)))
        rec.discrepancy("cdf_ppf", e, 1e-9)
        require(e <= 1e-9, f"{c.cls} d={dim}: cdf(ppf(u)) - u = {back - u} for u = {u}", dict(tags, kind="cdf_ppf"))
        # ppf(cdf(r)) = r where cdf(r) is inside (1e-6, 1-1e-6); an error eps in
        # cdf moves the quantile by eps / pdf(r)
        cdf_r = _call(c, "spectral_rad_cdf", r)
        ok = (cdf_r > 1e-6) & (cdf_r < 1 - 1e-6)
        if ok.any():
            rr = r[ok]
            fwd = _call(c, "spectral_rad_ppf", cdf_r[ok])
            tol = 1e-9 * np.maximum(rr, 1.0 / L) + 4e-16 / np.maximum(pdf[ok], 1e-300)
            e = np.abs(fwd - rr)
            rec.discrepancy("ppf_cdf", float(np.max(e / tol)), 1.0)
            require(bool(np.all(e <= tol)), f"{c.cls} d={dim}: ppf(cdf(r)) = {fwd} for r = {rr}", dict(tags, kind="ppf_cdf"))
        # the quantile is where the integral of the pdf reaches u (independent of cdf)
        j = len(u) // 2
        x, w = sp.composite_gl(_pdf_panels(0.0, float(q[j]), L), 16)
        integ = float(np.sum(w * _call(c, "spectral_rad_pdf", x)))
        rec.discrepancy("ppf_mass", abs(integ - u[j]), 1e-9)
        require(abs(integ - u[j]) <= 1e-9, f"{c.cls} d={dim}: int_0^ppf(u) pdf = {integ:.12g} for u = {u[j]:.12g}", dict(tags, kind="ppf_mass"))
    rec.nontrivial((not gens.spec_is_default(case["spec"])) and any(0.05 < x < 0.95 for x in masses))


# ---------------------------------------------------------------------------


def _gp(classes):
    return lambda tier: gen_parseval(tier, classes=classes)


@st.composite
def gen_radial_hd(draw, tier="quick"):
    """Internal dimension 4 and 5 (x, y, z, t models): the general branch of the surface factor."""
    cls = draw(st.sampled_from(["Gaussian", "Exponential", "Matern", "Integral"]))
    dim = draw(st.sampled_from([4, 4, 5]))
    opt = {}
    if cls == "Matern":
        opt = {"nu": draw(st.sampled_from([0.5, 1.0, 1.5, 2.75]))}
    if cls == "Integral":
        opt = {"nu": draw(st.sampled_from([1.0, 2.5, 4.0]))}
    return {
        "cls": cls, "dim": dim, "opt": opt, "temporal": draw(st.booleans()),
        "len_scale": draw(st.one_of(st.just(1.0), logfloat(0.1, 20.0))), "rescale": draw(st.one_of(st.none(), logfloat(0.5, 3.0))),
        "var": draw(logfloat(0.2, 5.0)), "kl": sorted(draw(st.lists(logfloat(1e-2, 20.0), min_size=4, max_size=4))),
    }


def check_radial_hd(case, rec):
    from scipy.integrate import quad
    from scipy.special import gamma as _gamma

    cls, dim = case["cls"], case["dim"]
    tags = {"model": cls, "dim": dim, "sub": "radial_high_dim"}
    rec.label(cls, f"dim{dim}", "temporal" if case["temporal"] else "plain")
    kw = dict(var=case["var"], len_scale=case["len_scale"], **case["opt"])
    if case["rescale"] is not None:
        kw["rescale"] = case["rescale"]
    if case["temporal"]:
        kw.update(temporal=True, spatial_dim=dim - 1)
    else:
        kw["dim"] = dim
    with common.quiet():
        m = lib(getattr(gs, cls), _what="model construction", _tags=tags, **kw)
    L = float(m.len_rescaled)
    k = np.array(case["kl"], dtype=float) / L
    with common.quiet():
        pdf = np.asarray(lib(m.spectral_rad_pdf, k, _tags=tags), dtype=float)
        dens = np.asarray(lib(m.spectral_density, k, _tags=tags), dtype=float)
    surf = 2.0 * math.pi ** (dim / 2.0) / _gamma(dim / 2.0) * k ** (dim - 1)
    want = surf * np.abs(dens)
    err = float(np.max(np.abs(pdf - want)))
    require(err <= 1e-12 * float(np.max(np.abs(want))),
            f"{cls} d={dim}: spectral_rad_pdf {pdf.tolist()} != surface of the unit sphere in R^{dim} * k^{dim - 1} * |spectral_density| {want.tolist()}",
            dict(tags, kind="rad_pdf_factor"))

    def f(x):
        with common.quiet():
            return float(np.asarray(m.spectral_rad_pdf(np.array([x])))[0])

    tot, e1 = quad(f, 0.0, 8.0 / L, limit=400, points=[1.0 / L, 3.0 / L])
    tail, e2 = quad(f, 8.0 / L, np.inf, limit=400)
    mass = tot + tail
    budget = 1e-6 + 10.0 * (e1 + e2)
    rec.discrepancy("pdf_mass_high_dim", abs(mass - 1.0), budget)
    require(abs(mass - 1.0) <= budget, f"{cls} d={dim}: radial spectral pdf integrates to {mass:.9g} (quadrature error {e1 + e2:.2g}), expected 1",
            dict(tags, kind="pdf_mass"))
    rec.nontrivial(True)


SUBS = [
    Sub(
        "parseval",
        _gp(sorted(ANALYTIC)),
        check_parseval,
        quick=1200,
        thorough=36000,
        shards_quick=4,
        shards_thorough=5,
        doc="Gaussian-weighted Parseval identity, analytic spectra (+ var factor, sign, finiteness, dim assignment)",
    ),
    Sub(
        "parseval_hankel",
        _gp(sorted(gens.HANKEL_SPECTRUM)),
        check_parseval,
        quick=400,
        thorough=10000,
        shards_quick=4,
        shards_thorough=4,
        doc="the same for the default numerical (Hankel) spectra, declared accuracy budget",
    ),
    Sub(
        "pointwise",
        gen_pointwise,
        check_pointwise,
        quick=240,
        thorough=4000,
        shards_quick=4,
        shards_thorough=4,
        shrink_quick=False,
        doc="S(k) against QUADPACK Fourier rules (d=1,3) / J0-zero summation (d=2); continuity at k -> 0",
    ),
    Sub(
        "radial",
        gen_radial,
        check_radial,
        quick=600,
        thorough=15000,
        shards_quick=4,
        shards_thorough=3,
        doc="spectral_rad_pdf = surface factor * |S|, mass, cdf/ppf, dist_func, has_cdf/has_ppf",
    ),
    Sub(
        "radial_high_dim",
        gen_radial_hd,
        check_radial_hd,
        quick=200,
        thorough=3000,
        shards_quick=2,
        shards_thorough=3,
        doc="internal dimension 4 / 5 (x, y, z, t models): pdf = surface factor * |S| and total mass 1",
    ),
]

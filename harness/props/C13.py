"""C13 - Geographic and spatio-temporal coordinates are consistent across modules.

Sub-checks
----------
convert    lat-lon(-time) model structure + latlon2pos / pos2latlon / chord <-> arc
           against the independent sphere geometry of oracles/geometry.py
euclid_t   Euclidean space-time models: space-time rotation planes zeroed, time
           axis scaled by the last ratio only, never mixed into space; covariance
           really used by kriging (one-datum extraction)
cov        covariance really used by Krige on lat-lon(-time) points (one-datum
           simple kriging, Krige._krige_pos / Krige._get_dists) == Yadrenko
           covariance of the oracle's great-circle distance
srf        SRF on lat-lon points == SRF of the plain 3(+1)-D model at the oracle's
           sphere positions; CondSRF honours data at lat-lon points
estimator  vario_estimate(latlon=True, geo_scale=g) counts / values == brute force
           with the oracle's great-circle distances; standard_bins(latlon=True)
fit        fit_variogram on Yadrenko variogram values at great-circle lags
           recovers the model for every geo_scale
rotation   lat-lon kriging (simple + ordinary) is invariant under rotations of
           the sphere applied to data and targets
"""

import math

import numpy as np
from hypothesis import strategies as st

import common  # noqa: F401
from common import Sub, Violation, lib, require
import gens
from gens import build_model, logfloat
from oracles import geometry as geo

import gstools as gs
from gstools.tools import geometric as gg

ID = "C13"
LEVEL = "exploration"
RULE = (
    "Hypothesis draws point sets on the sphere (lat in [-90,90] incl. +-90 and points 1e-6 deg "
    "from a pole, lon in [-720,720] incl. +-180/+-360/+-540/+-720, copies of a point shifted by "
    "k*360 deg, antipodes, regional clusters centred on a pole / the date line / anywhere and "
    "global sets), geo_scale in {1, DEGREE_SCALE, KM_SCALE, log-uniform [1e-2,1e4]}, temporal "
    "on/off with time ratio log-uniform [0.05,20], every class valid in 3(+1)-D with len_scale = "
    "[0.03,3] rad * geo_scale, kriging layouts, bin edges, lags and sphere rotations (quaternion). "
    "Oracle: oracles/geometry.py (great circle = atan2(|a x b|, a.b) on unit vectors, chord = "
    "2 sin(arc/2), explicit rotation matrices). Non-trivial: >= 2 points separated by > 1 deg not "
    "on a common meridian, or a pole / date-line point, or geo_scale != 1 (euclid_t: a time ratio "
    "!= 1 and a requested space-time angle != 0); distinct by hash of the rounded case."
)
ASSUMPTIONS = [
    "the radial covariance / variogram function of a plain (non lat-lon) model of the same class and "
    "dimension is correct (C03); only the geometry fed into it is under test here",
    "libm sin/cos/atan2 and numpy.linalg are accurate to a few ulp",
    "the n-D angle convention of oracles/geometry.py (C12) restricted to the spatial block",
]

# Documented exclusions (see final report of the C13 check):
#  polar_roundtrip: pos2latlon uses arcsin(z/r); within ~0.06 deg of a pole (but
#    not exactly at it) the latitude coming back from the 3-D point is only
#    accurate to sqrt(eps) ~ 1e-8 rad (up to 1.5e-9 observed on the unit sphere)
#    instead of rounding level.  With the switch on, such points are checked
#    against the conditioning bound of arcsin and counted as excluded; switch
#    off to hold them to the 1e-12 of every other point.
#  antipodal_nan: the compiled haversine kernel (variogram/estimator.pyx,
#    dist_haversine) evaluates 2*atan2(sqrt(arg), sqrt(1-arg)) without clamping
#    arg = sin^2(dlat/2) + cos cos sin^2(dlon/2) to [0, 1]; for exactly antipodal
#    pairs arg rounds to 1.0000000000000002 in ~4 % of the cases, the distance is
#    NaN and, because both bin tests are false for NaN, the pair is counted in
#    *every* bin.  With the switch on, a count mismatch is accepted only if it is
#    reproduced exactly by entering a subset of the pairs with gc > pi - 1e-7 into
#    every bin (counted as excluded); everything else stays a violation.
# polar_roundtrip: fixed in /repo by 7dac2c5 (switch off, assertion live); antipodal_nan: known finding K9 (kernel)
KNOWN = {"polar_roundtrip": False, "antipodal_nan": True}

EPS = float(np.finfo(float).eps)
TINY = 1e-290  # absolute floor: t / anis underflows gradually for subnormal times
DEG = float(gs.DEGREE_SCALE)
KM = float(gs.KM_SCALE)

LAT_SPECIAL = [90.0, -90.0, 0.0, 89.999999, -89.999999, 45.0, -60.0]
LON_SPECIAL = [
    180.0, -180.0, 0.0, 360.0, -360.0, 540.0, -540.0, 720.0, -720.0,
    179.999999, -179.999999, 90.0, -270.0, 450.0,
]
# octahedron + cube vertices: mutual separation >= 54 deg
FALLBACK = [
    (0.0, 0.0), (0.0, 90.0), (0.0, 180.0), (0.0, -90.0), (90.0, 0.0), (-90.0, 0.0),
    (35.264, 45.0), (35.264, 135.0), (35.264, -45.0), (35.264, -135.0),
    (-35.264, 45.0), (-35.264, 135.0), (-35.264, -45.0), (-35.264, -135.0),
]


# ---------------------------------------------------------------------------
# strategies


def _geo_scale():
    return st.one_of(st.sampled_from([1.0, DEG, KM]), logfloat(1e-2, 1e4))


def _geo_label(g):
    if g == 1.0:
        return "geo=rad"
    if g == DEG:
        return "geo=deg"
    if g == KM:
        return "geo=km"
    return "geo=random"


def _lat():
    return st.one_of(st.floats(-90, 90), st.floats(-90, 90), st.sampled_from(LAT_SPECIAL))


def _lon():
    return st.one_of(st.floats(-720, 720), st.floats(-180, 180), st.sampled_from(LON_SPECIAL))


def _gc(la1, lo1, la2, lo2):
    return float(geo.great_circle(la1, lo1, la2, lo2))


def _separate(lat, lon, min_sep, n_min):
    """Greedy pruning to pairwise great-circle separation >= min_sep (rad)."""
    keep = []
    for la, lo in zip(lat, lon):
        if all(_gc(la, lo, a, b) >= min_sep for a, b in keep):
            keep.append((la, lo))
    for la, lo in FALLBACK:
        if len(keep) >= n_min:
            break
        if all(_gc(la, lo, a, b) >= min_sep for a, b in keep):
            keep.append((la, lo))
    return [p[0] for p in keep], [p[1] for p in keep]


@st.composite
def sphere_points(draw, n_min, n_max, spread=None, min_sep=0.0, ops=True):
    """{'lat': [...], 'lon': [...]} in degrees.

    spread (rad): if given, 2/3 of the sets are clusters of that angular radius
    around a centre (pole, date line, anywhere); otherwise global sets with the
    special latitudes / longitudes.  min_sep > 0: pruned to that separation.
    """
    n = draw(st.integers(n_min, n_max))
    kinds = ["global"] + (["regional", "regional"] if spread is not None else [])
    kind = draw(st.sampled_from(kinds))
    if kind == "global":
        lat = draw(st.lists(_lat(), min_size=n, max_size=n))
        lon = draw(st.lists(_lon(), min_size=n, max_size=n))
    else:
        c_lat = draw(st.one_of(st.sampled_from([90.0, -90.0, 0.0]), st.floats(-90, 90)))
        c_lon = draw(st.one_of(st.sampled_from([180.0, -180.0, 0.0]), st.floats(-180, 180)))
        rr = draw(st.lists(st.floats(0, 1), min_size=n, max_size=n))
        th = draw(st.lists(st.floats(0, 2 * math.pi), min_size=n, max_size=n))
        wr = draw(st.lists(st.sampled_from([0.0, 0.0, 360.0, -360.0]), min_size=n, max_size=n))
        u = geo.cap_points(c_lat, c_lon, np.sqrt(rr) * min(spread, math.pi), th)
        la, lo = geo.unit_to_latlon_atan2(u)
        lat = [float(min(90.0, max(-90.0, x))) for x in la]
        lon = [float(x + w) for x, w in zip(lo, wr)]
    if ops and min_sep == 0.0 and n >= 2:
        todo = draw(
            st.lists(
                st.tuples(
                    st.sampled_from(["dup", "anti", "meridian"]),
                    st.integers(0, n - 1),
                    st.integers(0, n - 1),
                    st.sampled_from([360.0, -360.0, 720.0, -720.0, 0.0]),
                ),
                max_size=2,
            )
        )
        for op, i, j, w in todo:
            if i == j:
                continue
            if op == "dup":  # same point of the sphere, other representation
                lo = lon[i] + w
                if abs(lo) > 720.0:
                    lo = lon[i] - w
                if abs(lo) > 720.0:
                    lo = lon[i]
                lat[j], lon[j] = lat[i], lo
            elif op == "anti":
                lo = lon[i] + 180.0
                if abs(lo) > 720.0:
                    lo = lon[i] - 180.0
                lat[j], lon[j] = -lat[i], lo
            else:
                lon[j] = lon[i]
    if min_sep > 0.0:
        lat, lon = _separate(lat, lon, min_sep, n_min)
    return {"lat": [float(x) for x in lat], "lon": [float(x) for x in lon], "kind": kind}


def _times(n, scale):
    return st.lists(
        st.one_of(st.floats(-2, 2), st.sampled_from([0.0, 1.0, -1.0])), min_size=n, max_size=n
    ).map(lambda v: [float(x * scale) for x in v])


@st.composite
def latlon_spec(draw, temporal=None, classes=None, nugget=True, frac=(0.03, 3.0), mode="accuracy"):
    """Model spec of a lat-lon(-time) model, len_scale = frac [rad] * geo_scale."""
    if temporal is None:
        temporal = draw(st.booleans())
    dim = 3 + int(temporal)
    cl = [c for c in (classes or gens.CLASSES) if gens.max_valid_dim(c) >= dim]
    spec = draw(
        gens.model_specs(
            classes=cl, dims=(dim,), mode=mode, aniso=False, rotate=False,
            nugget=nugget, var_range=(0.1, 10.0),
        )
    )
    g = draw(_geo_scale())
    fr = draw(logfloat(*frac))
    spec["geo_scale"] = float(g)
    spec["frac"] = float(fr)
    spec["len_scale"] = float(fr * g)
    spec["temporal"] = bool(temporal)
    spec["time_anis"] = (
        float(draw(st.one_of(logfloat(0.05, 20.0), logfloat(0.05, 20.0), st.just(1.0))))
        if temporal
        else 1.0
    )
    return spec


def _ll_model(spec, tags=None):
    """The lat-lon model under test (constructor arguments only, see C14/F1)."""
    s = {k: v for k, v in spec.items() if k not in ("anis", "angles")}
    kw = {"latlon": True, "geo_scale": spec["geo_scale"], "temporal": spec["temporal"]}
    if spec["temporal"]:
        kw["anis"] = [1.0, 1.0, spec["time_anis"]]
    return lib(build_model, s, _what="lat-lon model construction", _tags=tags, **kw)


def _ref_model(spec, tags=None):
    """Plain isotropic model of the same class in 3(+1)-D: radial functions only."""
    s = {
        k: v
        for k, v in spec.items()
        if k not in ("anis", "angles", "latlon", "temporal", "geo_scale")
    }
    return lib(build_model, s, _what="reference model construction", _tags=tags)


def _spec_tags(spec, **extra):
    t = gens.spec_tags(spec)
    t["geo"] = _geo_label(spec["geo_scale"])[4:]
    t["temporal"] = bool(spec["temporal"])
    t.update(extra)
    return t


def _point_labels(rec, lat, lon):
    lat = np.asarray(lat, dtype=float)
    lon = np.asarray(lon, dtype=float)
    if np.any(np.abs(lat) == 90.0):
        rec.label("pts:pole")
    if np.any((np.abs(lat) > 89.9) & (np.abs(lat) < 90.0)):
        rec.label("pts:near-pole")
    if np.any(np.abs(np.abs(lon) % 360.0 - 180.0) < 1e-5):
        rec.label("pts:date-line")
    if np.any(np.abs(lon) > 180.0):
        rec.label("pts:lon-wrapped")


def _nontrivial_pts(lat, lon, g):
    """>= 2 points > 1 deg apart not on a common meridian, or pole/date line, or g != 1."""
    lat = np.asarray(lat, dtype=float)
    lon = np.asarray(lon, dtype=float)
    if g != 1.0:
        return True
    if np.any(np.abs(lat) == 90.0) or np.any(np.abs(np.abs(lon) % 360.0 - 180.0) < 1e-5):
        return True
    n = lat.size
    for i in range(n):
        for j in range(i + 1, n):
            dl = abs((lon[i] - lon[j] + 180.0) % 360.0 - 180.0)
            same_meridian = dl < 1e-9 or abs(dl - 180.0) < 1e-9
            if not same_meridian and _gc(lat[i], lon[i], lat[j], lon[j]) > math.radians(1.0):
                return True
    return False


def _cov_tol(ref, r, dr, scale):
    """Conditioning-scaled tolerance for a covariance evaluated at distance r.

    r is known to +-dr (rounding of the 3-D positions), so the covariance is
    known to the variation of the radial function over [r-dr, r+dr], plus
    1e-9 * scale rounding of the kriging arithmetic.
    """
    r = np.asarray(r, dtype=float)
    c0 = ref.covariance(r)
    up = np.abs(ref.covariance(r + dr) - c0)
    dn = np.abs(ref.covariance(np.maximum(r - dr, 0.0)) - c0)
    return 1e-9 * scale + 2.0 * np.maximum(up, dn)


def _dcov(ref, r, dr):
    """Variation of the radial covariance over [r-dr, r+dr] (r known to +-dr)."""
    r = np.asarray(r, dtype=float)
    c0 = ref.covariance(r)
    up = np.abs(ref.covariance(r + dr) - c0)
    dn = np.abs(ref.covariance(np.maximum(r - dr, 0.0)) - c0)
    return np.maximum(up, dn)


def _krige_sens(ref, nugget, d_cc, d_ct, dr):
    """Conditioning of a kriging system w.r.t. rounding of the positions.

    Returns (dC, lam, ninv): dC = largest change of a covariance entry when the
    distances move by dr (large only for coincident points of models that are not
    Lipschitz at the origin, e.g. Matern nu < 0.5, Stable alpha < 1), lam = largest
    l1-norm of the kriging weights (simple and ordinary), ninv = ||C^-1||_1.
    Then |d est| <= |z - m| ninv n dC (1 + lam), |d var| <= (2 lam + lam^2) dC.
    None when the radial function itself is not finite there (C03's subject).
    """
    n = d_cc.shape[0]
    off = ~np.eye(n, dtype=bool)
    parts = [_dcov(ref, d_ct, dr).ravel()]
    if n > 1:
        parts.append(_dcov(ref, d_cc[off], dr).ravel())
    dC = float(np.max(np.concatenate(parts)))
    C = ref.covariance(d_cc) + nugget * np.eye(n)
    c = ref.covariance(d_ct)
    if not (np.isfinite(dC) and np.all(np.isfinite(C)) and np.all(np.isfinite(c))):
        return None
    Ci = np.linalg.pinv(C)
    w = Ci @ c
    one = np.ones(n)
    den = float(one @ Ci @ one)
    w_ok = w + np.outer(Ci @ one, (1.0 - one @ w)) / den if abs(den) > 0 else w
    lam = float(max(np.max(np.sum(np.abs(w), axis=0)), np.max(np.sum(np.abs(w_ok), axis=0))))
    ninv = float(np.max(np.sum(np.abs(Ci), axis=0)))
    return dC, lam, ninv


def _oracle_iso(lat, lon, g, t=None, ta=1.0):
    """Oracle isotropic positions: g * unit vector (+ t / ta)."""
    p = g * geo.latlon_to_unit(lat, lon)
    if t is not None:
        p = np.vstack([p, np.asarray(t, dtype=float)[None, :] / ta])
    return p


def _oracle_dist(lat1, lon1, lat2, lon2, g, t1=None, t2=None, ta=1.0):
    """(n1, n2) distances: sqrt((g chord(gc))^2 + (dt/ta)^2); also the gc angles."""
    u = geo.latlon_to_unit(lat1, lon1)
    v = geo.latlon_to_unit(lat2, lon2)
    arc = geo.sphere_cross_dist(u, v)
    d = g * geo.chord_from_arc(arc)
    if t1 is not None:
        dt = (np.asarray(t1, dtype=float)[:, None] - np.asarray(t2, dtype=float)[None, :]) / ta
        d = np.sqrt(d**2 + dt**2)
    return d, arc


# ---------------------------------------------------------------------------
# convert: structure of lat-lon models and the conversions


@st.composite
def gen_convert(draw, tier="quick"):
    temporal = draw(st.booleans())
    dim = 3 + int(temporal)
    cls = draw(st.sampled_from([c for c in gens.CLASSES if gens.max_valid_dim(c) >= dim]))
    g = draw(_geo_scale())
    ls = float(draw(logfloat(0.03, 3.0)) * g)
    form = draw(st.sampled_from(["none", "scalar", "list", "list", "lenlist"]))
    case = {"cls": cls, "temporal": temporal, "geo_scale": float(g), "form": form}
    if form == "lenlist":
        k = draw(st.integers(2, dim))
        case["len_scale"] = [ls] + [float(ls * x) for x in draw(st.lists(logfloat(0.05, 20), min_size=k - 1, max_size=k - 1))]
        case["anis"] = None
    else:
        case["len_scale"] = ls
        if form == "none":
            case["anis"] = None
        elif form == "scalar":
            case["anis"] = float(draw(logfloat(0.05, 20)))
        else:
            k = draw(st.integers(1, dim - 1))
            case["anis"] = [float(x) for x in draw(st.lists(logfloat(0.05, 20), min_size=k, max_size=k))]
    nang = geo.n_angles(dim)
    case["angles"] = draw(
        st.one_of(
            st.none(),
            st.floats(-7, 7),
            st.lists(st.floats(-7, 7), min_size=1, max_size=nang),
        )
    )
    case["dim_arg"] = draw(st.sampled_from([None, None, 1, 2, 3, 4]))
    # setter ops applied after construction (never len_scale: C14 / F1)
    case["ops"] = draw(
        st.lists(
            st.one_of(
                st.fixed_dictionaries(
                    {"op": st.just("anis"), "v": st.lists(logfloat(0.05, 20), min_size=1, max_size=dim - 1)}
                ),
                st.fixed_dictionaries(
                    {"op": st.just("angles"), "v": st.lists(st.floats(-7, 7), min_size=1, max_size=nang)}
                ),
            ),
            max_size=2,
        )
    )
    pts = draw(sphere_points(1, 8, spread=draw(logfloat(1e-3, 3.0))))
    n = len(pts["lat"])
    case["pts"] = pts
    if temporal:
        case["t"] = draw(_times(n, ls))
    case["arcs"] = draw(st.lists(st.one_of(st.floats(0, 1), st.sampled_from([0.0, 1.0, 0.5])), min_size=1, max_size=4))
    case["quat"] = draw(st.lists(st.floats(-1, 1), min_size=4, max_size=4))
    return case


def _expected_time_anis(case, dim):
    if not case["temporal"]:
        return 1.0
    if case["form"] == "lenlist":
        ls = list(case["len_scale"])[:dim]
        ls = ls + [ls[-1]] * (dim - len(ls))
        return ls[dim - 1] / ls[0]
    if case["anis"] is None:
        return 1.0
    a = list(np.atleast_1d(case["anis"]))[: dim - 1]
    return float(a[-1])


def _check_structure(model, T, ta, tags, what):
    dim = 3 + int(T)
    require(model.dim == dim, f"{what}: lat-lon model dim {model.dim} != {dim}", dict(tags, kind="structure"))
    require(
        model.field_dim == 2 + int(T) and model.spatial_dim == 2,
        f"{what}: field_dim/spatial_dim {model.field_dim}/{model.spatial_dim}",
        dict(tags, kind="structure"),
    )
    anis = np.asarray(model.anis, dtype=float)
    require(
        anis.shape == (dim - 1,) and np.all(anis[:2] == 1.0),
        f"{what}: spatial anisotropy of a lat-lon model not 1: anis={anis}",
        dict(tags, kind="structure_anis"),
    )
    if T:
        require(
            abs(anis[-1] - ta) <= 4 * EPS * ta,
            f"{what}: time ratio anis[-1]={anis[-1]!r}, requested {ta!r}",
            dict(tags, kind="structure_time_anis"),
        )
    ang = np.asarray(model.angles, dtype=float)
    require(
        ang.shape == (geo.n_angles(dim),) and np.all(ang == 0.0),
        f"{what}: angles of a lat-lon model not all zero: {ang}",
        dict(tags, kind="structure_angles"),
    )


def check_convert(case, rec):
    T = bool(case["temporal"])
    g = case["geo_scale"]
    dim = 3 + int(T)
    tags = {"model": case["cls"], "geo": _geo_label(g)[4:], "temporal": T, "form": case["form"]}
    rec.label(_geo_label(g), "temporal" if T else "spatial", "form:" + case["form"])
    kw = {"latlon": True, "temporal": T, "geo_scale": g, "len_scale": case["len_scale"]}
    if case["anis"] is not None:
        kw["anis"] = case["anis"]
    if case["angles"] is not None:
        kw["angles"] = case["angles"]
    if case["dim_arg"] is not None:
        kw["dim"] = case["dim_arg"]
    model = lib(getattr(gs, case["cls"]), _what="lat-lon model construction", _tags=tags, **kw)
    ta = _expected_time_anis(case, dim)
    require(model.latlon and model.temporal == T, "latlon/temporal flags lost", tags)
    require(abs(model.geo_scale - g) == 0.0, f"geo_scale {model.geo_scale} != {g}", tags)
    ls0 = case["len_scale"][0] if isinstance(case["len_scale"], list) else case["len_scale"]
    require(model.len_scale == ls0, f"len_scale {model.len_scale} != {ls0}", tags)
    _check_structure(model, T, ta, tags, "constructor")
    for op in case["ops"]:
        if op["op"] == "anis":
            lib(setattr, model, "anis", list(op["v"]), _what="anis setter", _tags=tags)
            if T:
                ta = float(op["v"][: dim - 1][-1])
        else:
            lib(setattr, model, "angles", list(op["v"]), _what="angles setter", _tags=tags)
        _check_structure(model, T, ta, dict(tags, op=op["op"]), f"after {op['op']} setter")
    rec.label("time_anis!=1" if (T and ta != 1.0) else "time_anis=1")

    lat = np.array(case["pts"]["lat"], dtype=float)
    lon = np.array(case["pts"]["lon"], dtype=float)
    n = lat.size
    _point_labels(rec, lat, lon)
    t = np.array(case["t"], dtype=float) if T else None
    pos = np.vstack([lat, lon] + ([t] if T else []))
    want = _oracle_iso(lat, lon, g, t, ta)

    # --- forward: model.isometrize and latlon2pos -------------------------
    iso = lib(model.isometrize, pos.copy(), _tags=tags)
    require(iso.shape == (dim, n), f"isometrize shape {iso.shape}", tags)
    fwd = lib(gg.latlon2pos, pos.copy(), radius=g, temporal=T, time_scale=ta, _tags=tags)
    tol_p = 1e-13 * g
    for name, arr in (("isometrize", iso), ("latlon2pos", fwd)):
        err = float(np.max(np.abs(arr[:3] - want[:3])))
        rec.discrepancy("sphere_pos", err, tol_p)
        require(
            err <= tol_p,
            f"{name}: 3-D position differs from geo_scale*unit(lat,lon) by {err:.3g} (tol {tol_p:.3g})",
            dict(tags, kind="forward"),
        )
        rad = np.linalg.norm(arr[:3], axis=0)
        require(
            float(np.max(np.abs(rad - g))) <= 4 * tol_p,
            f"{name}: points not on the sphere of radius geo_scale={g}: |p|={rad}",
            dict(tags, kind="radius"),
        )
        if T:
            tol_t = 4 * EPS * np.abs(want[3]) + TINY
            err_t = np.abs(arr[3] - want[3])
            require(
                bool(np.all(err_t <= tol_t)),
                f"{name}: time axis {arr[3]} != t/anis[-1] {want[3]} (time ratio {ta})",
                dict(tags, kind="time_axis"),
            )

    # --- backward: anisometrize / pos2latlon round trip ---------------------
    back = lib(model.anisometrize, iso.copy(), _tags=tags)
    back2 = lib(gg.pos2latlon, fwd.copy(), radius=g, temporal=T, time_scale=ta, _tags=tags)
    u0 = geo.latlon_to_unit(lat, lon)
    coslat = np.hypot(u0[0], u0[1])
    exact_pole = np.abs(lat) == 90.0
    near_pole = (coslat < 1e-3) & ~exact_pole
    for name, arr in (("anisometrize(isometrize)", back), ("pos2latlon(latlon2pos)", back2)):
        require(arr.shape == (2 + int(T), n), f"{name}: shape {arr.shape}", tags)
        require(
            bool(np.all(np.abs(arr[0]) <= 90.0) and np.all(np.abs(arr[1]) <= 180.0)),
            f"{name}: lat/lon outside [-90,90]x[-180,180]: {arr[:2]}",
            dict(tags, kind="range"),
        )
        u1 = geo.latlon_to_unit(arr[0], arr[1])
        err3 = np.max(np.abs(u1 - u0), axis=0)
        # well conditioned points (and exact poles): rounding level
        ok = ~near_pole
        if ok.any():
            e = float(np.max(err3[ok]))
            rec.discrepancy("roundtrip3d", e, 1e-12)
            require(
                e <= 1e-12,
                f"{name}: 3-D point after the round trip differs by {e:.3g} (unit sphere)",
                dict(tags, kind="roundtrip", region="regular"),
            )
            dlat = np.abs(arr[0] - lat)[ok & ~exact_pole]
            tl = np.degrees(16 * EPS / np.maximum(coslat, 1e-3))[ok & ~exact_pole] + 1e-13
            require(
                bool(np.all(dlat <= tl)),
                f"{name}: latitude changed by {dlat} deg",
                dict(tags, kind="roundtrip_lat", region="regular"),
            )
        if near_pole.any():
            e = float(np.max(err3[near_pole]))
            if KNOWN["polar_roundtrip"]:
                # conditioning bound of lat = arcsin(z / r) for z known to 8 eps
                bound = np.minimum(np.sqrt(16 * EPS), 8 * EPS / np.maximum(coslat[near_pole], 1e-300)) + 1e-12
                rec.exclude("polar_roundtrip_precision")
                rec.discrepancy("roundtrip3d_polar", e, float(np.max(bound)))
                require(
                    bool(np.all(err3[near_pole] <= bound)),
                    f"{name}: near-pole round trip error {e:.3g} exceeds even the arcsin conditioning bound",
                    dict(tags, kind="roundtrip", region="near_pole_bound"),
                )
            else:
                require(
                    e <= 1e-12,
                    f"{name}: near-pole point moves by {e:.3g} (unit sphere) in the 3-D round trip",
                    dict(tags, kind="roundtrip", region="near_pole"),
                )
        # longitude modulo 360 (undefined only exactly at a pole)
        m = ~exact_pole
        if m.any():
            dlon = np.abs((arr[1] - lon + 180.0) % 360.0 - 180.0)[m]
            tl = 1e-11 * (1.0 + np.abs(lon[m]) / 360.0)
            rec.discrepancy("roundtrip_lon", float(np.max(dlon)), float(np.max(tl)))
            require(
                bool(np.all(dlon <= tl)),
                f"{name}: longitude not recovered modulo 360: {arr[1][m]} vs {lon[m]}",
                dict(tags, kind="roundtrip_lon"),
            )
        if T:
            require(
                bool(np.all(np.abs(arr[2] - t) <= 8 * EPS * np.abs(t) + TINY)),
                f"{name}: time not recovered: {arr[2]} vs {t}",
                dict(tags, kind="roundtrip_time"),
            )

    # --- 3-D -> lat-lon -> 3-D for generic points of the sphere ---------------
    R = geo.random_rotation3(case["quat"]) if np.linalg.norm(case["quat"]) > 1e-3 else np.eye(3)
    P = g * (R @ u0)
    if T:
        P = np.vstack([P, want[3]])
    ll = lib(model.anisometrize, P.copy(), _tags=tags)
    P2 = _oracle_iso(ll[0], ll[1], g, ll[2] if T else None, ta)
    cz = np.hypot(P[0], P[1]) / g
    reg = cz >= 1e-3
    if reg.any():
        e = float(np.max(np.abs(P2[:3] - P[:3])[:, reg])) / g
        rec.discrepancy("inverse3d", e, 1e-12)
        require(
            e <= 1e-12,
            f"anisometrize: lat-lon of a 3-D point maps back {e:.3g} (relative) away",
            dict(tags, kind="inverse", region="regular"),
        )
    if T:
        require(
            bool(np.all(np.abs(P2[3] - P[3]) <= 8 * EPS * np.abs(P[3]) + TINY)),
            "anisometrize: time axis not t*anis[-1]",
            dict(tags, kind="inverse_time"),
        )

    # --- chord <-> arc --------------------------------------------------------
    arcs = np.array(case["arcs"], dtype=float) * math.pi  # central angles in [0, pi]
    ch_l = lib(gg.great_circle_to_chordal, arcs * g, g, _tags=tags)
    ch_o = g * geo.chord_from_arc(arcs)
    err = float(np.max(np.abs(ch_l - ch_o)))
    rec.discrepancy("gc2chord", err, 1e-13 * g)
    require(
        err <= 1e-13 * g,
        f"great_circle_to_chordal({arcs * g}, radius={g}) = {ch_l}, oracle 2 r sin(arc/2r) = {ch_o}",
        dict(tags, kind="gc2chord"),
    )
    ar_l = lib(gg.chordal_to_great_circle, ch_o.copy(), g, _tags=tags)
    # arcsin conditioning at the antipode: d(arc) = d(chord) / cos(arc/2)
    tol_a = g * (np.minimum(16 * EPS / np.maximum(np.cos(arcs / 2), 1e-300), np.sqrt(32 * EPS)) + 1e-13)
    require(
        bool(np.all(np.abs(ar_l - arcs * g) <= tol_a)),
        f"chordal_to_great_circle(chord, radius={g}) = {ar_l}, arc was {arcs * g}",
        dict(tags, kind="chord2gc"),
    )
    over = lib(gg.chordal_to_great_circle, np.array([2.5 * g, -0.1 * g]), g, _tags=tags)
    require(
        abs(over[0] - math.pi * g) <= 1e-13 * g and over[1] == 0.0,
        f"chordal_to_great_circle out of range not truncated to [0, pi r]: {over}",
        dict(tags, kind="chord2gc_clip"),
    )
    # chord between two converted points == oracle chord of the great-circle angle
    if n >= 2:
        d_or, arc = _oracle_dist(lat, lon, lat, lon, g)
        d_lib = np.linalg.norm(iso[:3, :, None] - iso[:3, None, :], axis=0)
        err = float(np.max(np.abs(d_lib - d_or)))
        rec.discrepancy("pair_chord", err, 8e-13 * g)
        require(
            err <= 8e-13 * g,
            f"chord between isometrized points differs from g*2sin(gc/2) by {err:.3g}",
            dict(tags, kind="pair_chord"),
        )
        # Yadrenko functions: argument is the great-circle distance in geo units
        ref = lib(
            getattr(gs, case["cls"]), dim=dim, len_scale=model.len_scale, _what="reference model", _tags=tags
        )
        zeta = arc * g
        dr = 64 * EPS * g
        for fn, rf in (("cov_yadrenko", ref.covariance), ("vario_yadrenko", ref.variogram), ("cor_yadrenko", ref.correlation)):
            got = lib(getattr(model, fn), zeta.copy(), _tags=tags)
            exp = rf(d_or)
            tl = 1e-9 + 2 * np.maximum(np.abs(rf(d_or + dr) - exp), np.abs(rf(np.maximum(d_or - dr, 0)) - exp))
            require(
                bool(np.all(np.abs(got - exp) <= tl)),
                f"{fn}(great-circle*geo_scale) != radial function of the chord: max diff {np.max(np.abs(got - exp)):.3g}",
                dict(tags, kind="yadrenko", fn=fn),
            )
    rec.nontrivial(_nontrivial_pts(lat, lon, g))


# ---------------------------------------------------------------------------
# euclid_t: Euclidean space-time models


@st.composite
def gen_euclid_t(draw, tier="quick"):
    sdim = draw(st.sampled_from([1, 2, 2, 3, 3]))
    dim = sdim + 1
    cls = draw(st.sampled_from([c for c in gens.CLASSES if gens.max_valid_dim(c) >= dim]))
    nang = geo.n_angles(dim)
    la = draw(st.integers(1, nang)) if draw(st.booleans()) else nang
    ang = st.one_of(st.floats(-2 * math.pi, 2 * math.pi), st.sampled_from([0.0, math.pi / 2, -math.pi / 2, math.pi, 7.0]))
    angles = draw(st.lists(ang, min_size=la, max_size=la))
    anis = draw(st.lists(logfloat(0.1, 10), min_size=dim - 1, max_size=dim - 1))
    ls = float(draw(logfloat(0.2, 5)))
    n = draw(st.integers(1, 6))
    case = {
        "cls": cls,
        "sdim": sdim,
        "ctor": draw(st.sampled_from(["spatial_dim", "dim"])),
        "angles": angles,
        "anis": anis,
        "len_scale": ls,
        "var": float(draw(logfloat(0.1, 10))),
        "pos": draw(
            st.lists(st.lists(st.floats(-3, 3), min_size=n, max_size=n), min_size=dim, max_size=dim)
        ),
        "datum": draw(st.lists(st.floats(-2, 2), min_size=dim, max_size=dim)),
        "mean": draw(st.floats(-2, 2)),
        "dz": draw(st.floats(0.5, 3)) * draw(st.sampled_from([1.0, -1.0])),
        "set_angles": draw(st.one_of(st.none(), st.lists(ang, min_size=1, max_size=nang))),
    }
    case["pos"] = [[float(x * (ls if i < sdim else ls * anis[-1])) for x in row] for i, row in enumerate(case["pos"])]
    case["datum"] = [float(x * (ls if i < sdim else ls * anis[-1])) for i, x in enumerate(case["datum"])]
    return case


def check_euclid_t(case, rec):
    sdim = case["sdim"]
    dim = sdim + 1
    tags = {"model": case["cls"], "dim": dim, "sdim": sdim}
    rec.label(f"sdim{sdim}", "ctor:" + case["ctor"])
    kw = {"temporal": True, "len_scale": case["len_scale"], "var": case["var"], "anis": case["anis"], "angles": case["angles"]}
    if case["ctor"] == "spatial_dim":
        kw["spatial_dim"] = sdim
    else:
        kw["dim"] = dim
    model = lib(getattr(gs, case["cls"]), _what="space-time model construction", _tags=tags, **kw)
    require(
        model.dim == dim and model.field_dim == dim and model.spatial_dim == sdim and model.temporal,
        f"dims of temporal model: dim {model.dim}, field_dim {model.field_dim}, spatial_dim {model.spatial_dim}",
        dict(tags, kind="structure"),
    )
    nsp = geo.n_angles(sdim)

    def expect_angles(given):
        a = geo.pad_angles(dim, given)
        a[nsp:] = 0.0
        return a

    # a spatio-temporal model whose dimension is reduced through the documented `dim` setter: what was a spatial rotation plane
    # may now contain the time axis and has to be zeroed (angles of the remaining spatial planes are kept)
    if sdim >= 2:
        big = lib(getattr(gs, case["cls"]), temporal=True, spatial_dim=sdim + 1, len_scale=case["len_scale"], var=case["var"],
                  angles=[0.3 + 0.2 * i for i in range(geo.n_angles(sdim + 2))],
                  _what="temporal model in one more spatial dimension", _tags=tags)
        lib(setattr, big, "dim", dim, _what="dim setter", _tags=tags)
        got_b = np.asarray(big.angles, dtype=float)
        rec.label("dim_reduced_by_setter")
        require(
            got_b.shape == (geo.n_angles(dim),) and bool(np.all(got_b[nsp:] == 0.0)),
            f"dim setter ({dim + 1} -> {dim}, temporal): space-time rotation planes not zeroed: angles={got_b} (spatial angles: first {nsp})",
            dict(tags, kind="temporal_angles"),
        )
    requested = list(case["angles"])
    steps = [("constructor", requested)]
    if case["set_angles"] is not None:
        steps.append(("angles setter", list(case["set_angles"])))
    anis = np.array(case["anis"], dtype=float)
    ta = float(anis[-1])
    pos = np.array(case["pos"], dtype=float).reshape(dim, -1)
    for what, given in steps:
        if what != "constructor":
            lib(setattr, model, "angles", list(given), _what=what, _tags=tags)
        want = expect_angles(given)
        got = np.asarray(model.angles, dtype=float)
        require(
            got.shape == want.shape and bool(np.all(got[nsp:] == 0.0)),
            f"{what}: space-time rotation planes not zeroed: angles={got} (spatial angles: first {nsp})",
            dict(tags, kind="temporal_angles"),
        )
        require(
            bool(np.all(got[:nsp] == want[:nsp])),
            f"{what}: spatial angles changed: {got[:nsp]} vs {want[:nsp]}",
            dict(tags, kind="spatial_angles"),
        )
        require(
            bool(np.allclose(model.anis, anis, rtol=1e-15, atol=0)),
            f"{what}: anis {model.anis} != {anis}",
            dict(tags, kind="anis"),
        )
        iso = lib(model.isometrize, pos.copy(), _tags=tags)
        sp_o = geo.isometrize(sdim, want[:nsp], anis[: sdim - 1], pos[:sdim]) if sdim > 1 else pos[:1].copy()
        t_o = pos[-1] / ta
        scale = max(1.0, float(np.max(np.abs(pos)))) * max(1.0, float(np.max(1.0 / anis)))
        # time row: only the last ratio; *no* spatial admixture (exact up to the
        # rounding of a dot product with exact zeros)
        err_t = float(np.max(np.abs(iso[-1] - t_o)))
        rec.discrepancy("time_row", err_t, 1e-14 * scale)
        require(
            err_t <= 1e-14 * scale,
            f"{what}: isometrized time axis {iso[-1]} != t/anis[-1] {t_o}",
            dict(tags, kind="time_axis"),
        )
        err_s = float(np.max(np.abs(iso[:-1] - sp_o)))
        rec.discrepancy("space_rows", err_s, 1e-12 * scale)
        require(
            err_s <= 1e-12 * scale,
            f"{what}: isometrized spatial axes differ from the purely spatial oracle by {err_s:.3g}",
            dict(tags, kind="space_axes"),
        )
        # moving a point in time only must not move its isometrized spatial part
        pos2 = pos.copy()
        pos2[-1] += 1.2345 * ta
        iso2 = lib(model.isometrize, pos2, _tags=tags)
        require(
            float(np.max(np.abs(iso2[:-1] - iso[:-1]))) <= 1e-14 * scale,
            f"{what}: a time shift moves the isometrized spatial coordinates",
            dict(tags, kind="time_mixed_into_space"),
        )
        pos3 = pos.copy()
        pos3[:-1] += 0.777
        iso3 = lib(model.isometrize, pos3, _tags=tags)
        require(
            float(np.max(np.abs(iso3[-1] - iso[-1]))) <= 1e-14 * scale,
            f"{what}: a spatial shift moves the isometrized time coordinate",
            dict(tags, kind="space_mixed_into_time"),
        )
        back = lib(model.anisometrize, iso.copy(), _tags=tags)
        cond = float(np.max(anis) / np.min(anis))
        require(
            float(np.max(np.abs(back - pos))) <= 1e-12 * scale * max(1.0, cond),
            f"{what}: anisometrize(isometrize(x)) != x",
            dict(tags, kind="roundtrip"),
        )
    # per-axis length scales assigned as a list on the (by now used) model: the ratios follow, time is scaled by the new last ratio
    ang_l = expect_angles(steps[-1][1])
    L0 = float(model.len_scale)
    anis_n = np.array([0.5 * float(a_) + 0.25 for a_ in anis], dtype=float)
    with common.quiet():
        model.len_scale = [L0] + [float(L0 * a_) for a_ in anis_n]
        iso_n = np.asarray(lib(model.isometrize, pos.copy(), _tags=tags), dtype=float)
        model.len_scale = [L0] + [float(L0 * float(a_)) for a_ in anis]
        iso_b = np.asarray(lib(model.isometrize, pos.copy(), _tags=tags), dtype=float)
    rec.label("len_scale_list_on_used_model")
    sc_n = max(1.0, float(np.max(np.abs(pos)))) * max(1.0, float(np.max(1.0 / anis_n)), float(np.max(1.0 / np.asarray(anis, dtype=float))))
    sp_n = geo.isometrize(sdim, ang_l[:nsp], anis_n[: sdim - 1], pos[:sdim]) if sdim > 1 else pos[:1].copy()
    require(float(np.max(np.abs(iso_n[-1] - pos[-1] / anis_n[-1]))) <= 1e-12 * sc_n and float(np.max(np.abs(iso_n[:-1] - sp_n))) <= 1e-12 * sc_n,
            f"after `model.len_scale = [...]` (one length per axis) on a used space-time model isometrize does not follow the new ratios {anis_n.tolist()} "
            f"(time row off by {float(np.max(np.abs(iso_n[-1] - pos[-1] / anis_n[-1]))):.3g})",
            dict(tags, kind="stale_after_len_scale_list"))
    sp_b = geo.isometrize(sdim, ang_l[:nsp], np.asarray(anis, dtype=float)[: sdim - 1], pos[:sdim]) if sdim > 1 else pos[:1].copy()
    require(float(np.max(np.abs(iso_b[-1] - pos[-1] / ta))) <= 1e-12 * sc_n and float(np.max(np.abs(iso_b[:-1] - sp_b))) <= 1e-12 * sc_n,
            "after the per-axis length scales were assigned back, isometrize does not follow the restored ratios", dict(tags, kind="stale_after_len_scale_list"))
    # covariance really used by kriging: one datum, simple kriging
    ang_now = expect_angles(steps[-1][1])
    a = np.array(case["datum"], dtype=float).reshape(dim, 1)
    mean = case["mean"]
    z = mean + case["dz"]
    k = lib(gs.krige.Simple, model, a.copy(), [z], mean=mean, _what="Simple kriging", _tags=tags)
    est = lib(k, pos.copy(), return_var=False, _tags=tags)
    c_used = case["var"] * (est - mean) / (z - mean)
    h = pos - a
    hs = geo.isometrize(sdim, ang_now[:nsp], anis[: sdim - 1], h[:sdim]) if sdim > 1 else h[:1]
    r = np.sqrt(np.sum(hs**2, axis=0) + (h[-1] / ta) ** 2)
    ref = lib(getattr(gs, case["cls"]), dim=dim, len_scale=case["len_scale"], var=case["var"], _what="reference model", _tags=tags)
    c_or = ref.covariance(r)
    tol = _cov_tol(ref, r, 64 * EPS * (1.0 + float(np.max(r))), case["var"] * max(1.0, (abs(mean) + abs(z)) / abs(z - mean)))
    err = np.abs(c_used - c_or)
    rec.discrepancy("covx", float(np.max(err / tol)), 1.0)
    require(
        bool(np.all(err <= tol)),
        f"covariance used by kriging != cov(sqrt(|S^-1 R^T dx|^2 + (dt/anis[-1])^2)): max diff {np.max(err):.3g}",
        dict(tags, kind="covx"),
    )
    odd = any(abs(math.sin(2 * x)) > 1e-6 for x in geo.pad_angles(dim, steps[-1][1])[nsp:])
    rec.nontrivial(bool(odd and abs(ta - 1.0) > 1e-9))


# ---------------------------------------------------------------------------
# cov: covariance really used by Krige on lat-lon(-time) points


@st.composite
def gen_cov(draw, tier="quick"):
    spec = draw(latlon_spec())
    T = spec["temporal"]
    fr = spec["frac"]
    spread = float(min(math.pi, fr * draw(st.floats(0.5, 4.0))))
    cond = draw(sphere_points(2, 6, spread=spread, min_sep=min(0.25 * fr, 0.3), ops=False))
    tg = draw(sphere_points(1, 8, spread=spread))
    nc, nt = len(cond["lat"]), len(tg["lat"])
    # targets that coincide with the datum through another longitude representation,
    # its antipode, and targets inheriting latitude/longitude of the datum
    for op, j, w in draw(
        st.lists(
            st.tuples(st.sampled_from(["same", "anti", "lat", "lon"]), st.integers(0, nt - 1), st.sampled_from([360.0, -360.0, 0.0])),
            max_size=2,
        )
    ):
        la0, lo0 = cond["lat"][0], cond["lon"][0]
        if op == "same":
            lo = lo0 + w if abs(lo0 + w) <= 720.0 else lo0 - w
            tg["lat"][j], tg["lon"][j] = la0, lo
        elif op == "anti":
            tg["lat"][j], tg["lon"][j] = -la0, (lo0 + 180.0 if lo0 <= 0 else lo0 - 180.0)
        elif op == "lat":
            tg["lat"][j] = la0
        else:
            tg["lon"][j] = lo0
    case = {"spec": spec, "cond": cond, "tg": tg}
    if draw(st.integers(0, 2)) == 0:
        # the kriging object first lives with another unit / time ratio; the model is then exchanged (or its time ratio
        # changed in place) and the setup refreshed as documented
        case["start"] = {"geo_factor": draw(st.sampled_from([1.0, 57.29577951308232, 1.0 / 6371.0, 3.0])),
                         "ta_factor": draw(st.sampled_from([1.0, 3.0, 0.25])), "inplace": draw(st.booleans())}
    if T:
        tscale = spec["len_scale"] * spec["time_anis"]
        case["cond_t"] = draw(_times(nc, tscale))
        case["tg_t"] = draw(_times(nt, tscale))
    case["mean"] = draw(st.floats(-2, 2))
    case["dz"] = draw(st.floats(0.5, 3)) * draw(st.sampled_from([1.0, -1.0]))
    case["cond_val"] = draw(st.lists(st.floats(-3, 3), min_size=nc, max_size=nc))
    return case


def check_cov(case, rec):
    spec = case["spec"]
    T = spec["temporal"]
    g = spec["geo_scale"]
    ta = spec["time_anis"]
    tags = _spec_tags(spec)
    rec.label(_geo_label(g), "temporal" if T else "spatial", spec["cls"], "pts:" + case["tg"]["kind"])
    model = _ll_model(spec, tags)
    ref = _ref_model(spec, tags)
    _check_structure(model, T, ta, tags, "constructor")
    clat, clon = np.array(case["cond"]["lat"]), np.array(case["cond"]["lon"])
    tlat, tlon = np.array(case["tg"]["lat"]), np.array(case["tg"]["lon"])
    _point_labels(rec, np.concatenate([clat, tlat]), np.concatenate([clon, tlon]))
    ct = np.array(case["cond_t"], dtype=float) if T else None
    tt = np.array(case["tg_t"], dtype=float) if T else None
    cpos = np.vstack([clat, clon] + ([ct] if T else []))
    tpos = np.vstack([tlat, tlon] + ([tt] if T else []))
    sill = spec["var"] + spec["nugget"]
    tmax = float(max(np.max(np.abs(ct)), np.max(np.abs(tt)))) / ta if T else 0.0
    dr = 64 * EPS * (g + tmax)

    # --- SRF-free: positions and distances the kriging system is built from ----
    start = case.get("start")
    if start and (start["geo_factor"] != 1.0 or (T and start["ta_factor"] != 1.0)):
        inplace = bool(start["inplace"] and T and start["geo_factor"] == 1.0)
        spec0 = dict(spec, geo_scale=g * (1.0 if inplace else start["geo_factor"]), time_anis=ta * (start["ta_factor"] if T else 1.0))
        m0 = _ll_model(spec0, tags)
        kall = lib(gs.krige.Simple, m0, cpos.copy(), list(case["cond_val"]), mean=case["mean"], _what="Simple kriging", _tags=tags)
        with common.quiet():
            kall(tpos[:, :1].copy())
            if inplace:
                kall.model.anis = [1.0, 1.0, ta]
                model = kall.model
            else:
                kall.model = model
            kall.set_condition()
        rec.label("krige_model_" + ("changed_in_place" if inplace else "exchanged"))
    else:
        kall = lib(gs.krige.Simple, model, cpos.copy(), list(case["cond_val"]), mean=case["mean"], _what="Simple kriging", _tags=tags)
    kp = np.asarray(kall._krige_pos, dtype=float)
    want = _oracle_iso(clat, clon, g, ct, ta)
    err = float(np.max(np.abs(kp - want)))
    rec.discrepancy("krige_pos", err, dr)
    require(
        kp.shape == want.shape and err <= dr,
        f"Krige._krige_pos differs from geo_scale*unit(lat,lon) (+ t/anis[-1]) by {err:.3g}",
        dict(tags, kind="krige_pos"),
    )
    d_lib = lib(kall._get_dists, kall._krige_pos, _tags=tags)
    d_or, arc = _oracle_dist(clat, clon, clat, clon, g, ct, ct, ta)
    err = float(np.max(np.abs(d_lib - d_or)))
    rec.discrepancy("get_dists", err, dr)
    require(
        err <= dr,
        f"Krige._get_dists differs from sqrt((g*chord)^2 + (dt/anis[-1])^2) by {err:.3g}",
        dict(tags, kind="get_dists"),
    )
    iso_t = lib(model.isometrize, tpos.copy(), _tags=tags)
    d_lib2 = lib(kall._get_dists, kall._krige_pos, iso_t, _tags=tags)
    d_or2, arc2 = _oracle_dist(clat, clon, tlat, tlon, g, ct, tt, ta)
    err = float(np.max(np.abs(d_lib2 - d_or2)))
    require(
        err <= dr,
        f"Krige._get_dists(data, targets) differs from the oracle distance by {err:.3g}",
        dict(tags, kind="get_dists"),
    )
    if not T:
        # the statement's formulation: Yadrenko covariance of the great-circle distance
        cy = lib(model.cov_yadrenko, arc2 * g, _tags=tags)
        co = ref.covariance(d_or2)
        tl = _cov_tol(ref, d_or2, dr, spec["var"])
        fin = np.isfinite(co) & np.isfinite(tl)
        if not fin.all():
            rec.exclude("ref_model_not_finite")  # radial function itself NaN (C03's subject)
        require(
            bool(np.all(np.abs(cy - co)[fin] <= tl[fin])),
            f"cov_yadrenko(gc*geo_scale) != covariance(chord): max diff {np.max(np.abs(cy - co)[fin], initial=0):.3g}",
            dict(tags, kind="yadrenko"),
        )
        cm = model.covariance(d_lib2)
        require(
            bool(np.all(np.abs(cm - cy)[fin] <= tl[fin])),
            "covariance of Krige distances != cov_yadrenko of the great-circle distance",
            dict(tags, kind="krige_cov_yadrenko"),
        )

    # --- one datum: the covariance between A and every target ------------------
    mean = case["mean"]
    z = mean + case["dz"]
    a = cpos[:, :1]
    k1 = lib(gs.krige.Simple, model, a.copy(), [z], mean=mean, _what="Simple kriging", _tags=tags)
    est = lib(k1, tpos.copy(), return_var=False, _tags=tags)
    c_used = sill * (est - mean) / (z - mean)
    r = d_or2[0]
    c_or = ref.covariance(r)
    tol = _cov_tol(ref, r, dr, sill * max(1.0, (abs(mean) + abs(z)) / abs(z - mean)))
    fin = np.isfinite(c_or) & np.isfinite(tol)
    if not fin.all():
        rec.exclude("ref_model_not_finite")
    errv = np.where(fin, np.abs(c_used - c_or), 0.0)
    tol = np.where(fin, tol, 1.0)
    rec.discrepancy("covx", float(np.max(errv / tol)), 1.0)
    require(
        bool(np.all(errv <= tol)),
        "covariance used by kriging between lat-lon points != "
        + ("cov(sqrt(chord^2 + (dt/anis[-1])^2))" if T else "cov_yadrenko(great-circle*geo_scale)")
        + f": max diff {np.max(errv):.3g} at target {int(np.argmax(errv / tol))}",
        dict(tags, kind="covx"),
    )
    informative = bool(np.any(fin & (c_or > 1e-6 * spec["var"]) & (c_or < (1 - 1e-6) * spec["var"])))
    rec.label("cov:informative" if informative else "cov:flat")
    rec.nontrivial(
        informative
        and _nontrivial_pts(np.concatenate([clat[:1], tlat]), np.concatenate([clon[:1], tlon]), g)
    )


# ---------------------------------------------------------------------------
# srf: unconditioned and conditioned fields on lat-lon points

SRF_CLASSES = ["Gaussian", "Exponential", "Matern", "Integral", "TPLGaussian", "JBessel"]


@st.composite
def gen_srf(draw, tier="quick"):
    spec = draw(latlon_spec(classes=SRF_CLASSES, nugget=False, frac=(0.05, 2.0)))
    T = spec["temporal"]
    fr = spec["frac"]
    spread = float(min(math.pi, fr * draw(st.floats(0.5, 4.0))))
    cond = draw(sphere_points(2, 6, spread=spread, min_sep=min(0.3 * fr, 0.3), ops=False))
    tg = draw(sphere_points(1, 8, spread=spread))
    case = {"spec": spec, "cond": cond, "tg": tg}
    nc, nt = len(cond["lat"]), len(tg["lat"])
    if T:
        tscale = spec["len_scale"] * spec["time_anis"]
        case["cond_t"] = draw(_times(nc, tscale))
        case["tg_t"] = draw(_times(nt, tscale))
    case["cond_val"] = draw(st.lists(st.floats(-3, 3), min_size=nc, max_size=nc))
    case["variant"] = draw(st.sampled_from(["simple", "ordinary"]))
    case["mean"] = draw(st.floats(-2, 2))
    case["seed"] = draw(st.integers(0, 2**31 - 1))
    case["mode_no"] = draw(st.sampled_from([16, 64, 200]))
    return case


def _mk_krige(model, case, cpos, tags):
    if case["variant"] == "simple":
        return lib(gs.krige.Simple, model, cpos, list(case["cond_val"]), mean=case["mean"], _what="Simple kriging", _tags=tags)
    return lib(gs.krige.Ordinary, model, cpos, list(case["cond_val"]), _what="Ordinary kriging", _tags=tags)


def check_srf(case, rec):
    spec = case["spec"]
    T = spec["temporal"]
    g = spec["geo_scale"]
    ta = spec["time_anis"]
    tags = _spec_tags(spec)
    rec.label(_geo_label(g), "temporal" if T else "spatial", spec["cls"])
    model = _ll_model(spec, tags)
    ref = _ref_model(spec, tags)
    clat, clon = np.array(case["cond"]["lat"]), np.array(case["cond"]["lon"])
    tlat, tlon = np.array(case["tg"]["lat"]), np.array(case["tg"]["lon"])
    lat = np.concatenate([clat, tlat])
    lon = np.concatenate([clon, tlon])
    _point_labels(rec, lat, lon)
    tt = np.concatenate([case["cond_t"], case["tg_t"]]).astype(float) if T else None
    pos = np.vstack([lat, lon] + ([tt] if T else []))
    iso_o = _oracle_iso(lat, lon, g, tt, ta)
    sd = math.sqrt(spec["var"])
    # --- unconditioned: same seed, same spectrum -> same modes; positions differ
    #     only through the conversion under test
    s_ll = lib(gs.SRF, model, seed=case["seed"], mode_no=case["mode_no"], _tags=tags)
    f_ll = lib(s_ll, pos.copy(), _what="SRF on lat-lon points", _tags=tags)
    s_3d = lib(gs.SRF, ref, seed=case["seed"], mode_no=case["mode_no"], _tags=tags)
    f_3d = lib(s_3d, iso_o.copy(), _what="SRF on 3-D points", _tags=tags)
    gen = s_3d.generator
    kmax = float(np.max(np.linalg.norm(np.asarray(gen._cov_sample), axis=0)))
    amp = float(np.sum(np.abs(gen._z_1)) + np.sum(np.abs(gen._z_2)))
    xmax = float(np.max(np.abs(iso_o)))
    # field = sqrt(var/N) sum z1 cos(k.x) + z2 sin(k.x); phases known to
    # |k| * (position rounding 32 eps |x|)
    tol = 1e-12 * sd + sd / math.sqrt(case["mode_no"]) * amp * kmax * xmax * 32 * EPS
    err = float(np.max(np.abs(f_ll - f_3d)))
    rec.discrepancy("srf", err, tol)
    require(
        err <= tol,
        f"SRF at lat-lon points differs from the same field at geo_scale*unit(lat,lon) by {err:.3g} (tol {tol:.3g})",
        dict(tags, kind="srf"),
    )
    # --- a second request on the same object for slightly moved points (closer than numpy.allclose's default window): the new points count
    lat2 = np.clip(lat * (1.0 + 3e-6) + 1e-7, -90.0, 90.0)
    lon2 = lon * (1.0 - 2e-6) + 2e-7
    tt2 = tt * (1.0 + 1e-6) if T else None
    pos2 = np.vstack([lat2, lon2] + ([tt2] if T else []))
    iso2 = _oracle_iso(lat2, lon2, g, tt2, ta)
    f_ll2 = lib(s_ll, pos2.copy(), _what="SRF on lat-lon points (second request)", _tags=tags)
    f_3d2 = lib(s_3d, iso2.copy(), _what="SRF on 3-D points (second request)", _tags=tags)
    err = float(np.max(np.abs(f_ll2 - f_3d2)))
    rec.label("second_request_nearby_points")
    require(
        err <= tol,
        f"second request on the same SRF for points moved by ~1e-6 (relative): field differs from the one at geo_scale*unit(lat,lon) of the new points by {err:.3g} (tol {tol:.3g})",
        dict(tags, kind="srf_second_request"),
    )
    # --- conditioned field honours the data at lat-lon points -----------------
    nc = clat.size
    cpos = pos[:, :nc]
    k = _mk_krige(model, case, cpos.copy(), tags)
    csrf = lib(gs.CondSRF, k, mode_no=case["mode_no"], _tags=tags)
    fld = lib(csrf, pos.copy(), seed=case["seed"], _what="CondSRF", _tags=tags)
    kc = float(np.linalg.cond(k._krige_mat))
    zs = max(1.0, float(np.max(np.abs(case["cond_val"]))), abs(case["mean"]))
    raw = float(np.max(np.abs(csrf["raw_field"]))) if "raw_field" in csrf.field_names else 6 * sd
    # kriging reproduces the data to cond*eps; the kriging variance at a datum is
    # var - c^T C^-1 c = O((n+1)^2 eps cond var) <= 64 eps cond var (n <= 6), and the
    # random part enters with the factor sqrt(krige_var / var)
    tolc = max(1e-9, 1e-13 * kc) * zs + math.sqrt(64 * EPS * max(kc, 1.0)) * raw
    err = float(np.max(np.abs(fld[:nc] - np.array(case["cond_val"]))))
    rec.discrepancy("condsrf_data", err, tolc)
    require(
        err <= tolc,
        f"CondSRF does not honour the data at lat-lon points: max deviation {err:.3g} (tol {tolc:.3g}, cond {kc:.3g})",
        dict(tags, kind="condsrf_data"),
    )
    # same conditioned field from the plain model on the oracle's 3-D points
    k3 = _mk_krige(ref, case, iso_o[:, :nc].copy(), tags)
    c3 = lib(gs.CondSRF, k3, mode_no=case["mode_no"], _tags=tags)
    fld3 = lib(c3, iso_o.copy(), seed=case["seed"], _what="CondSRF 3-D", _tags=tags)
    ct = tt[:nc] if T else None
    d_cc, _ = _oracle_dist(clat, clon, clat, clon, g, ct, ct, ta)
    d_ct, _ = _oracle_dist(clat, clon, lat, lon, g, ct, tt, ta)
    d_ct[np.arange(nc), np.arange(nc)] = np.inf  # a datum as its own target: exactly zero in both runs
    sens = _krige_sens(ref, spec["nugget"], d_cc, np.where(np.isfinite(d_ct), d_ct, 0.0), 64 * EPS * xmax)
    if sens is None:
        rec.exclude("ref_model_not_finite")
        rec.nontrivial(False)
        return
    dC = float(np.max(_dcov(ref, d_ct[np.isfinite(d_ct)], 64 * EPS * xmax), initial=0.0))
    dC = max(dC, float(np.max(_dcov(ref, d_cc[~np.eye(nc, dtype=bool)], 64 * EPS * xmax), initial=0.0)))
    _dc, lam, ninv = sens
    extra_est = 2 * zs * ninv * nc * dC * (1 + lam)
    extra_var = (2 * lam + lam**2) * dC
    tolm = (
        max(1e-8, 1e-12 * kc) * max(zs, float(np.max(np.abs(fld3))))
        + 2 * math.sqrt(64 * EPS * max(kc, 1.0)) * raw
        + 4 * tol
        + extra_est
        + math.sqrt(extra_var / spec["var"]) * raw
    )
    err = float(np.max(np.abs(fld - fld3)))
    rec.discrepancy("condsrf_3d", err, tolm)
    require(
        err <= tolm,
        f"CondSRF on lat-lon points differs from CondSRF of the plain model on the sphere points by {err:.3g} (tol {tolm:.3g})",
        dict(tags, kind="condsrf_3d"),
    )
    rec.nontrivial(_nontrivial_pts(lat, lon, g) and kc < 1e10)


# ---------------------------------------------------------------------------
# estimator: great-circle binning and standard bins


@st.composite
def gen_estimator(draw, tier="quick"):
    g = draw(_geo_scale())
    spread = draw(st.one_of(st.none(), logfloat(1e-3, 3.0)))
    pts = draw(sphere_points(2, 24, spread=spread))
    n = len(pts["lat"])
    field = draw(st.lists(st.floats(-5, 5), min_size=n, max_size=n))
    mode = draw(st.sampled_from(["given", "given", "standard"]))
    case = {"geo_scale": float(g), "pts": pts, "field": field, "mode": mode}
    if mode == "given":
        nb = draw(st.integers(1, 8))
        top = draw(st.one_of(st.floats(0.05, 1.05), st.sampled_from([1.05, 0.97, 0.51]))) * math.pi
        if spread is not None and pts["kind"] == "regional" and draw(st.booleans()):
            top = min(top, 2.2 * spread)
        first = draw(st.sampled_from([0.0, 0.0, 0.0, 0.02]))
        if draw(st.booleans()):
            fr = [i / nb for i in range(nb + 1)]
        else:
            cuts = sorted(draw(st.lists(st.floats(0.01, 0.99), min_size=nb - 1, max_size=nb - 1, unique=True)))
            fr = [0.0] + cuts + [1.0]
        fr = [first + (1 - first) * f for f in fr]
        # edges in geo units; strictly increasing by construction
        edges = [float(f * top * g) for f in fr]
        case["edges"] = [e for i, e in enumerate(edges) if i == 0 or e > edges[i - 1]]
        if len(case["edges"]) < 2:
            case["edges"] = [0.0, float(top * g)]
    else:
        case["bin_no"] = draw(st.one_of(st.none(), st.integers(1, 9)))
        case["max_frac"] = draw(st.one_of(st.none(), st.floats(0.05, 1.0)))
    return case


def _brute(dist, field, edges, all_bins=()):
    """Half-open bins [e_k, e_k+1): pair counts and sums of squared increments.

    Pairs listed in ``all_bins`` are entered into *every* bin (what a NaN
    distance does in the compiled kernel, see KNOWN['antipodal_nan']).
    """
    nb = len(edges) - 1
    cnt = np.zeros(nb, dtype=np.int64)
    sm = np.zeros(nb)
    n = len(field)
    for i in range(n):
        for j in range(i + 1, n):
            sq = (field[i] - field[j]) ** 2
            if (i, j) in all_bins:
                cnt += 1
                sm += sq
                continue
            d = dist[i, j]
            for k in range(nb):
                if edges[k] <= d < edges[k + 1]:
                    cnt[k] += 1
                    sm[k] += sq
                    break
    return cnt, sm


def _haversine_arg(lat_i, lon_i, lat_j, lon_j):
    """sin^2(d/2) in the operation order of estimator.pyx::dist_haversine.

    Only used to single out the pairs for which the kernel's argument exceeds 1
    (KNOWN['antipodal_nan']); never to decide a bin.
    """
    d2r = math.pi / 180.0
    dlat = (lat_j - lat_i) * d2r
    dlon = (lon_j - lon_i) * d2r
    return math.pow(math.sin(dlat / 2.0), 2) + math.cos(lat_i * d2r) * math.cos(lat_j * d2r) * math.pow(
        math.sin(dlon / 2.0), 2
    )


def _matheron(cnt, sm):
    return np.where(cnt > 0, sm / (2.0 * np.maximum(cnt, 1)), 0.0)


def _near_edge(arc, g, edges):
    """Pairs whose bin membership is not decided beyond rounding.

    1e-9 relative (tie rule of C08) plus the conditioning of the haversine
    formula near the antipode: arg = sin^2(d/2) carries a few ulp, so
    d = 2 atan2(sqrt(arg), sqrt(1-arg)) carries 4 eps tan(d/2), at most 1e-7.
    """
    n = arc.shape[0]
    iu = np.triu_indices(n, 1)
    d = arc[iu]
    extra = np.minimum(8 * EPS * np.tan(np.minimum(d / 2, math.pi / 2 - 1e-12)), 1e-7)
    for e in edges:
        if e == 0.0:
            continue  # distances are >= 0 on both sides: no discontinuity at a zero edge
        tol = 1e-9 * np.maximum(d * g, e) + g * extra
        if np.any(np.abs(d * g - e) <= tol):
            return True
    return False


def check_estimator(case, rec):
    g = case["geo_scale"]
    lat = np.array(case["pts"]["lat"], dtype=float)
    lon = np.array(case["pts"]["lon"], dtype=float)
    field = np.array(case["field"], dtype=float)
    n = lat.size
    tags = {"geo": _geo_label(g)[4:], "mode": case["mode"], "n": int(n)}
    rec.label(_geo_label(g), "bins:" + case["mode"], "pts:" + case["pts"]["kind"])
    _point_labels(rec, lat, lon)
    pos = np.vstack([lat, lon])
    u = geo.latlon_to_unit(lat, lon)
    arc = geo.sphere_cross_dist(u, u)

    # --- standard_bins: documented as (box diameter as arc) / 3, Sturges bins ---
    P = g * u
    diag = float(np.linalg.norm(P.max(axis=1) - P.min(axis=1)))
    arc_box = g * float(geo.arc_from_chord(diag / g))
    # conditioning of chord -> arc near the antipode
    hi = g * float(geo.arc_from_chord(diag * (1 + 8 * EPS) / g))
    lo = g * float(geo.arc_from_chord(diag * (1 - 8 * EPS) / g))
    # positions are known to a few eps*g absolutely -> so is the box diagonal
    tol_box = (1e-12 * arc_box + max(hi - arc_box, arc_box - lo) + 16 * EPS * g) / 3.0
    sb = lib(gs.standard_bins, pos.copy(), latlon=True, geo_scale=g, _tags=tags)
    nb_st = int(math.ceil(2 * math.log2(n) + 1))
    require(
        sb.shape == (nb_st + 1,) and sb[0] == 0.0,
        f"standard_bins: {sb.shape[0] - 1} bins starting at {sb[0]}, documented Sturges {nb_st} from 0",
        dict(tags, kind="standard_bins_layout"),
    )
    err = abs(float(sb[-1]) - arc_box / 3.0)
    rec.discrepancy("standard_bins_max", err, tol_box + 1e-300)
    require(
        err <= tol_box + 1e-300,
        f"standard_bins(latlon=True, geo_scale={g}): maximal edge {sb[-1]!r}, documented "
        f"(bounding-box diagonal as great-circle distance)/3 = {arc_box / 3.0!r}",
        dict(tags, kind="standard_bins_max"),
    )
    require(
        bool(np.allclose(sb, np.linspace(0, sb[-1], nb_st + 1), rtol=1e-13, atol=1e-15 * g)),
        "standard_bins: edges not equidistant",
        dict(tags, kind="standard_bins_layout"),
    )

    # the same for a structured lat-lon grid: default bins follow the grid *points* on the sphere, whatever the mesh type
    la_ax = np.unique(np.round(lat, 9))[:4]
    lo_ax = np.unique(np.round(lon, 9))[:4]
    if la_ax.size >= 2 and lo_ax.size >= 2:
        gla, glo = np.meshgrid(la_ax, lo_ax, indexing="ij")
        sb_u = lib(gs.standard_bins, np.array([gla.ravel(), glo.ravel()]), latlon=True, geo_scale=g, _what="standard_bins(unstructured grid points)", _tags=tags)
        sb_s = lib(gs.standard_bins, (la_ax.copy(), lo_ax.copy()), latlon=True, geo_scale=g, mesh_type="structured", _what="standard_bins(structured)", _tags=tags)
        rec.label("standard_bins_structured")
        require(
            sb_s.shape == sb_u.shape and bool(np.allclose(sb_s, sb_u, rtol=1e-12, atol=1e-14 * g)),
            f"standard_bins(latlon=True, mesh_type='structured'): maximal edge {sb_s[-1]!r} ({sb_s.size - 1} bins), the same grid points given unstructured: {sb_u[-1]!r} ({sb_u.size - 1} bins)",
            dict(tags, kind="standard_bins_structured"),
        )
    if case["mode"] == "given":
        edges = np.array(case["edges"], dtype=float)
        kw = {}
        arg_edges = edges.copy()
    else:
        kw = {}
        nb = nb_st
        mx = arc_box / 3.0
        if case["bin_no"] is not None:
            kw["bin_no"] = case["bin_no"]
            nb = case["bin_no"]
        if case["max_frac"] is not None:
            mx = float(case["max_frac"] * math.pi * g)
            kw["max_dist"] = mx
        sb2 = lib(gs.standard_bins, pos.copy(), latlon=True, geo_scale=g, _tags=tags, **kw)
        require(
            sb2.shape == (nb + 1,) and abs(sb2[-1] - mx) <= tol_box + 1e-14 * mx,
            f"standard_bins(bin_no={case['bin_no']}, max_dist={kw.get('max_dist')}): {sb2}",
            dict(tags, kind="standard_bins_args"),
        )
        edges = np.linspace(0.0, mx, nb + 1)
        arg_edges = None
    if edges[-1] <= 1e-9 * g or not np.all(np.diff(edges) > 0):
        rec.exclude("degenerate_bins")  # all points coincide (to rounding): no bins to test
        rec.nontrivial(False)
        return
    if _near_edge(arc, g, edges):
        rec.exclude("tie_pair_on_bin_edge")
        rec.nontrivial(False)
        return
    out = lib(
        gs.vario_estimate,
        pos.copy(),
        field.copy(),
        arg_edges,
        latlon=True,
        geo_scale=g,
        return_counts=True,
        _what="vario_estimate(latlon=True)",
        _tags=tags,
        **kw,
    )
    centers, gamma, counts = out
    counts = np.asarray(counts, dtype=np.int64)
    if arg_edges is not None:
        # the same bins array is used again (next field / time step): given in geo units, it still is afterwards
        require(bool(np.array_equal(arg_edges, edges)), f"vario_estimate(latlon=True, geo_scale={g}) changed the given bin edges: {arg_edges.tolist()} (were {edges.tolist()})",
                dict(tags, kind="bin_edges_modified"))
        out2 = lib(gs.vario_estimate, pos.copy(), field.copy(), arg_edges, latlon=True, geo_scale=g, return_counts=True, _what="vario_estimate(latlon=True), 2nd call", _tags=tags)
        require(
            bool(np.array_equal(np.asarray(out2[0]), np.asarray(centers))) and bool(np.array_equal(np.asarray(out2[2]), counts)),
            f"a second estimate with the same bins array gives other bin centres / counts ({np.asarray(out2[0]).tolist()} vs {np.asarray(centers).tolist()})",
            dict(tags, kind="bin_edges_modified"),
        )
    cnt_o, sm_o = _brute(arc * g, field, edges)
    want_c = (edges[:-1] + edges[1:]) / 2.0
    require(
        centers.shape == want_c.shape and bool(np.allclose(centers, want_c, rtol=1e-12, atol=1e-14 * g)),
        f"bin centres {centers} are not the mid points of the edges in geo units {want_c}",
        dict(tags, kind="bin_centers"),
    )
    if not np.array_equal(counts, cnt_o):
        # (near-)antipodal pairs: sin^2(d/2) can round to 1 + 2.2e-16 in the
        # haversine kernel -> distance NaN -> the pair enters every bin
        iu = np.triu_indices(n, 1)
        prone = {
            (int(i), int(j))
            for i, j in zip(*iu)
            if arc[i, j] > math.pi - 1e-7 and _haversine_arg(lat[i], lon[i], lat[j], lon[j]) > 1.0
        }
        match = None
        if prone:
            c2, s2 = _brute(arc * g, field, edges, all_bins=prone)
            if np.array_equal(counts, c2):
                match = (c2, s2, prone)
        if match is None or not KNOWN["antipodal_nan"]:
            require(
                False,
                f"pair counts {counts.tolist()} != brute force with oracle great-circle distances "
                f"{cnt_o.tolist()} (edges {edges.tolist()}, geo_scale {g})"
                + ("; explained by antipodal pairs entering every bin (NaN distance)" if match else ""),
                dict(tags, kind="counts_antipodal_nan" if match else "counts"),
            )
        # listed in known_findings.json -> counted as a known hit, else an exclusion
        try:
            rec.soft(
                f"antipodal pairs get a NaN great-circle distance and enter every bin: counts {counts.tolist()} "
                f"vs {cnt_o.tolist()}",
                dict(tags, kind="counts_antipodal_nan"),
            )
        except Violation:
            rec.exclude("antipodal_nan_distance")
        cnt_o, sm_o = match[0], match[1]
    val_o = _matheron(cnt_o, sm_o)
    scale = max(1e-300, float(np.max(np.abs(val_o))))
    err = float(np.max(np.abs(gamma - val_o)))
    rec.discrepancy("gamma", err, 1e-11 * scale)
    require(err <= 1e-11 * scale, f"variogram values differ from brute force by {err:.3g}", dict(tags, kind="values"))
    nonempty = int(np.sum(cnt_o > 0))
    rec.label(f"nonempty_bins:{min(nonempty, 3)}{'+' if nonempty >= 3 else ''}")
    if np.any(np.triu(arc, 1) > math.pi - 1e-3):
        rec.label("pair:antipodal")
    if np.any((np.triu(arc, 1) < 1e-12)[np.triu_indices(n, 1)]):
        rec.label("pair:coincident")
    rec.nontrivial(nonempty >= 1 and _nontrivial_pts(lat, lon, g))


# ---------------------------------------------------------------------------
# fit: Yadrenko variogram values at great-circle lags

FIT_CLASSES = ["Gaussian", "Exponential", "Spherical", "Cubic", "HyperSpherical", "Matern", "Stable", "Rational"]


@st.composite
def gen_fit(draw, tier="quick"):
    cls = draw(st.sampled_from(FIT_CLASSES))
    g = draw(_geo_scale())
    fr = draw(st.floats(0.15, 1.0))
    opt = {}
    if cls == "Matern":
        opt["nu"] = draw(st.sampled_from([0.5, 1.0, 1.5, 2.5]))
    if cls == "Stable":
        opt["alpha"] = draw(st.sampled_from([0.8, 1.0, 1.5, 2.0]))
    if cls == "Rational":
        opt["alpha"] = draw(st.sampled_from([0.5, 1.0, 3.0]))
    nb = draw(st.integers(10, 25))
    xmax = min(math.pi, fr * draw(st.floats(2.0, 4.0)))
    case = {
        "cls": cls,
        "geo_scale": float(g),
        "frac": float(fr),
        "var": float(draw(logfloat(0.2, 5))),
        "nugget": float(draw(st.sampled_from([0.0, 0.0, 0.3, 1.0]))),
        "opt": opt,
        "lags": [float(xmax * (i + 0.5) / nb) for i in range(nb)],  # radians
        "fit_nugget": draw(st.booleans()),
        "start": [draw(st.floats(0.75, 1.3)), draw(st.floats(0.75, 1.3))],
    }
    return case


def check_fit(case, rec):
    g = case["geo_scale"]
    cls = getattr(gs, case["cls"])
    tags = {"model": case["cls"], "geo": _geo_label(g)[4:], "kind": "fit"}
    rec.label(_geo_label(g), case["cls"], "fit_nugget" if case["fit_nugget"] else "no_nugget")
    ls = case["frac"] * g
    nug = case["nugget"] if case["fit_nugget"] else 0.0
    ref = lib(cls, dim=3, var=case["var"], len_scale=ls, nugget=nug, _what="reference model", _tags=tags, **case["opt"])
    arc = np.array(case["lags"], dtype=float)  # great-circle lags in radians
    x = arc * g  # in geo units
    y = ref.variogram(g * geo.chord_from_arc(arc))  # oracle: radial variogram of the chord
    model = lib(cls, latlon=True, geo_scale=g, _what="lat-lon model construction", _tags=tags, **case["opt"])
    kw = {k: False for k in case["opt"]}
    if not case["fit_nugget"]:
        kw["nugget"] = False
    guess = {"len_scale": ls * case["start"][0], "var": case["var"] * case["start"][1]}
    # optimiser accuracy is C10's subject: ask scipy for tight termination so
    # that what remains is the geometry (chord vs arc differ by per cents here)
    # the caller keeps the lag / variogram arrays (e.g. to try several models on them): a fit reads them, a second model fitted to the
    # very same arrays ends where the first one did
    x_keep, y_keep = x.copy(), y.copy()
    para, _pcov, r2_lib = lib(
        model.fit_variogram,
        x_keep,
        y_keep,
        init_guess=guess,
        curve_fit_kwargs={"ftol": 1e-13, "xtol": 1e-13, "gtol": 1e-13},
        return_r2=True,
        _what="fit_variogram",
        _tags=tags,
        **kw,
    )
    model_b = lib(cls, latlon=True, geo_scale=g, _what="lat-lon model construction", _tags=tags, **case["opt"])
    lib(model_b.fit_variogram, x_keep, y_keep, init_guess=dict(guess), curve_fit_kwargs={"ftol": 1e-13, "xtol": 1e-13, "gtol": 1e-13}, _what="fit_variogram (second model, same arrays)", _tags=tags, **kw)
    rec.label("second_fit_on_the_same_arrays")
    require(bool(np.array_equal(x_keep, x)) and bool(np.array_equal(y_keep, y))
            and abs(float(model_b.len_scale) - float(model.len_scale)) <= 1e-9 * float(model.len_scale) and abs(float(model_b.var) - float(model.var)) <= 1e-9 * float(model.var),
            f"a second lat-lon model fitted to the same lag / variogram arrays (geo_scale={g}) ends at len_scale {float(model_b.len_scale):.8g}, var {float(model_b.var):.8g}; "
            f"the first one at {float(model.len_scale):.8g}, {float(model.var):.8g} (lags unchanged: {bool(np.array_equal(x_keep, x))})",
            dict(tags, kind="fit_reuses_arrays"))
    sill = case["var"] + nug
    # the reported score belongs to the same geometry: residuals of the fitted Yadrenko variogram at the great-circle lags
    fit_o = lib(cls, dim=3, var=model.var, len_scale=model.len_scale, nugget=model.nugget, _what="reference model", _tags=tags, **case["opt"])
    res_o = y - fit_o.variogram(g * geo.chord_from_arc(arc))
    ss_tot = float(np.sum((y - np.mean(y)) ** 2))
    if ss_tot > 0:
        r2_o = 1.0 - float(np.sum(res_o**2)) / ss_tot
        rec.discrepancy("fit_r2", abs(float(r2_lib) - r2_o), 1e-9)
        require(abs(float(r2_lib) - r2_o) <= 1e-9, f"lat-lon fit (geo_scale={g}): returned r2 = {float(r2_lib)!r}, residuals of the fitted Yadrenko "
                f"variogram at the great-circle lags give {r2_o!r}", dict(tags, kind="fit_r2"))
    # fitted model, evaluated by the oracle geometry on a plain model
    fitted = lib(
        cls, dim=3, var=model.var, len_scale=model.len_scale, nugget=model.nugget, _what="reference model", _tags=tags, **case["opt"]
    )
    yf = fitted.variogram(g * geo.chord_from_arc(arc))
    err = float(np.max(np.abs(yf - y)))
    rec.discrepancy("fit_curve", err, 1e-4 * sill)
    require(
        err <= 1e-4 * sill,
        f"lat-lon fit (geo_scale={g}) does not reproduce noise-free Yadrenko data: max residual {err:.3g} "
        f"(sill {sill:.3g}); fitted len_scale {model.len_scale:.6g} vs true {ls:.6g}, var {model.var:.6g} vs {case['var']:.6g}",
        tags,
    )
    e_ls = abs(model.len_scale - ls) / ls
    e_var = abs(model.var + model.nugget - sill) / sill
    rec.discrepancy("fit_len_scale", e_ls, 1e-3)
    rec.discrepancy("fit_sill", e_var, 1e-3)
    require(
        e_ls <= 1e-3 and e_var <= 1e-3,
        f"lat-lon fit (geo_scale={g}) does not recover the model: len_scale {model.len_scale:.8g} vs {ls:.8g}, "
        f"sill {model.var + model.nugget:.8g} vs {sill:.8g}",
        dict(tags, kind="fit_params"),
    )
    require(
        para["len_scale"] == model.len_scale and model.latlon and model.geo_scale == g,
        "fit result not stored in the model / geo_scale changed",
        dict(tags, kind="fit_state"),
    )
    rec.nontrivial(g != 1.0 or arc[-1] > 0.5)


# ---------------------------------------------------------------------------
# rotation: invariance of lat-lon kriging under rotations of the sphere


@st.composite
def gen_rotation(draw, tier="quick"):
    spec = draw(latlon_spec(frac=(0.05, 1.5)))
    T = spec["temporal"]
    fr = spec["frac"]
    spread = float(min(math.pi, fr * draw(st.floats(0.7, 4.0))))
    cond = draw(sphere_points(2, 7, spread=spread, min_sep=min(0.3 * fr, 0.3), ops=False))
    tg = draw(sphere_points(1, 6, spread=spread))
    nc, nt = len(cond["lat"]), len(tg["lat"])
    q = draw(
        st.one_of(
            st.lists(st.floats(-1, 1), min_size=4, max_size=4),
            st.sampled_from([[1.0, 1.0, 0.0, 0.0], [0.0, 0.0, 0.0, 1.0], [1.0, 0.0, 1.0, 0.0], [1.0, 0.0, 0.0, 1.0]]),
        )
    )
    if sum(x * x for x in q) < 1e-4:
        q = [1.0, 0.3, -0.2, 0.5]
    case = {
        "spec": spec,
        "cond": cond,
        "tg": tg,
        "quat": [float(x) for x in q],
        "wraps": draw(st.lists(st.sampled_from([0.0, 0.0, 360.0, -360.0]), min_size=nc + nt, max_size=nc + nt)),
        "cond_val": draw(st.lists(st.floats(-3, 3), min_size=nc, max_size=nc)),
        "mean": draw(st.floats(-2, 2)),
    }
    if T:
        tscale = spec["len_scale"] * spec["time_anis"]
        case["cond_t"] = draw(_times(nc, tscale))
        case["tg_t"] = draw(_times(nt, tscale))
    return case


def check_rotation(case, rec):
    spec = case["spec"]
    T = spec["temporal"]
    g = spec["geo_scale"]
    tags = _spec_tags(spec)
    rec.label(_geo_label(g), "temporal" if T else "spatial", spec["cls"])
    model = _ll_model(spec, tags)
    clat, clon = np.array(case["cond"]["lat"]), np.array(case["cond"]["lon"])
    tlat, tlon = np.array(case["tg"]["lat"]), np.array(case["tg"]["lon"])
    nc = clat.size
    lat = np.concatenate([clat, tlat])
    lon = np.concatenate([clon, tlon])
    _point_labels(rec, lat, lon)
    R = geo.random_rotation3(case["quat"])
    require(np.max(np.abs(R @ R.T - np.eye(3))) < 1e-12 and abs(np.linalg.det(R) - 1) < 1e-12, "oracle rotation not orthogonal", tags)
    ur = R @ geo.latlon_to_unit(lat, lon)
    rlat, rlon = geo.unit_to_latlon_atan2(ur)
    rlat = np.clip(rlat, -90.0, 90.0)
    rlon = rlon + np.array(case["wraps"], dtype=float)
    _point_labels(rec, rlat, rlon)
    extra = []
    if T:
        extra = [np.concatenate([case["cond_t"], case["tg_t"]]).astype(float)]
    pos = np.vstack([lat, lon] + extra)
    rpos = np.vstack([rlat, rlon] + extra)
    sill = spec["var"] + spec["nugget"]
    zs = max(1.0, float(np.max(np.abs(case["cond_val"]))), abs(case["mean"]))
    worst = 0.0
    # conditioning w.r.t. rounding of the positions (matters for targets that
    # coincide with a datum when the model is not Lipschitz at the origin)
    ref = _ref_model(spec, tags)
    ta = spec["time_anis"]
    ct = np.asarray(case["cond_t"], dtype=float) if T else None
    tt = np.asarray(case["tg_t"], dtype=float) if T else None
    tmax = float(max(np.max(np.abs(ct)), np.max(np.abs(tt)))) / ta if T else 0.0
    dr = 64 * EPS * (g + tmax)
    d_cc, _ = _oracle_dist(clat, clon, clat, clon, g, ct, ct, ta)
    d_ct, _ = _oracle_dist(clat, clon, tlat, tlon, g, ct, tt, ta)
    sens = _krige_sens(ref, spec["nugget"], d_cc, d_ct, dr)
    if sens is None:
        rec.exclude("ref_model_not_finite")
        rec.nontrivial(False)
        return
    dC, lam, ninv = sens
    extra_est = 2 * zs * ninv * nc * dC * (1 + lam)
    extra_var = (2 * lam + lam**2) * dC
    for variant in ("simple", "ordinary"):
        cc = dict(case, variant=variant)
        k0 = _mk_krige(model, cc, pos[:, :nc].copy(), dict(tags, variant=variant))
        k1 = _mk_krige(model, cc, rpos[:, :nc].copy(), dict(tags, variant=variant))
        f0, v0 = lib(k0, pos[:, nc:].copy(), _what="kriging", _tags=tags)
        f1, v1 = lib(k1, rpos[:, nc:].copy(), _what="kriging (rotated)", _tags=tags)
        kc = float(np.linalg.cond(k0._krige_mat))
        worst = max(worst, kc)
        rel = max(1e-8, 1e-13 * kc)
        # 1e-8 relative to the size of the results (extrapolating weights can make
        # |estimate| >> |data|), plus the position-rounding sensitivity
        tol_f = rel * max(zs, float(np.max(np.abs(f0)))) + extra_est
        err = float(np.max(np.abs(f0 - f1)))
        rec.discrepancy(f"{variant}_field", err, tol_f)
        require(
            err <= tol_f,
            f"{variant} kriging estimate changes by {err:.3g} under a rotation of the sphere (tol {tol_f:.3g}, cond {kc:.3g})",
            dict(tags, kind="rotation_field", variant=variant),
        )
        tol_v = rel * max(sill, float(np.max(np.abs(v0)))) + extra_var
        err = float(np.max(np.abs(v0 - v1)))
        rec.discrepancy(f"{variant}_var", err, tol_v)
        require(
            err <= tol_v,
            f"{variant} kriging variance changes by {err:.3g} under a rotation of the sphere (tol {tol_v:.3g})",
            dict(tags, kind="rotation_var", variant=variant),
        )
    # the data locations under other labels (longitude +-360, any longitude at a pole) as targets, zero measurement error requested:
    # a relabelled datum is the datum - its value comes back and the kriging variance is zero
    wr = np.array(case["wraps"][:nc], dtype=float)
    wr = np.where(wr == 0.0, 360.0, wr)
    lab_lon = np.where(np.abs(clat) == 90.0, clon + 77.0, clon + wr)
    lpos = np.vstack([clat, lab_lon] + ([ct] if T else []))
    sens2 = _krige_sens(ref, spec["nugget"], d_cc, d_cc, dr)
    if sens2 is not None:
        dC2, lam2, ninv2 = sens2
        vals = np.array(case["cond_val"], dtype=float)
        for variant in ("simple", "ordinary"):
            vt = dict(tags, variant=variant, exact=True)
            if variant == "simple":
                ke = lib(gs.krige.Simple, model, pos[:, :nc].copy(), vals.copy(), mean=case["mean"], exact=True, _what="Simple kriging (exact)", _tags=vt)
            else:
                ke = lib(gs.krige.Ordinary, model, pos[:, :nc].copy(), vals.copy(), exact=True, _what="Ordinary kriging (exact)", _tags=vt)
            kc = float(np.linalg.cond(ke._krige_mat))
            if not kc < 1e8:
                rec.exclude("relabel_cond>1e8")
                continue
            fe, ve = lib(ke, lpos.copy(), _what="kriging at relabelled data locations", _tags=vt)
            rel = max(1e-8, 1e-13 * kc)
            tol_f = rel * zs + 2 * zs * ninv2 * nc * dC2 * (1 + lam2)
            tol_v = rel * sill + (2 * lam2 + lam2**2) * dC2
            rec.label("relabelled_data_as_targets" + ("_nugget" if spec["nugget"] > 0 else ""))
            err = float(np.max(np.abs(fe - vals)))
            require(err <= tol_f, f"{variant} kriging (exact=True) at the data locations written with other labels (lon {lab_lon.tolist()} for {clon.tolist()}) misses the data by {err:.3g} (tol {tol_f:.3g})",
                    dict(vt, kind="relabel_field"))
            err = float(np.max(np.abs(ve)))
            require(err <= tol_v, f"{variant} kriging variance (exact=True) at the data locations written with other labels is {err:.3g}, expected 0 (tol {tol_v:.3g})",
                    dict(vt, kind="relabel_var"))
    rot_angle = 2 * math.acos(min(1.0, abs(case["quat"][0]) / math.sqrt(sum(x * x for x in case["quat"]))))
    rec.nontrivial(worst < 1e8 and rot_angle > 1e-3 and _nontrivial_pts(lat, lon, g))


# ---------------------------------------------------------------------------

SUBS = [
    Sub("convert", gen_convert, check_convert, quick=1200, thorough=30000, shards_quick=2, shards_thorough=8),
    Sub("euclid_t", gen_euclid_t, check_euclid_t, quick=600, thorough=12000, shards_quick=2, shards_thorough=4),
    Sub("cov", gen_cov, check_cov, quick=900, thorough=20000, shards_quick=3, shards_thorough=8),
    Sub("srf", gen_srf, check_srf, quick=160, thorough=4000, shards_quick=2, shards_thorough=4, shrink_quick=False),
    Sub("estimator", gen_estimator, check_estimator, quick=1200, thorough=30000, shards_quick=3, shards_thorough=8),
    Sub("fit", gen_fit, check_fit, quick=240, thorough=5000, shards_quick=2, shards_thorough=4),
    Sub("rotation", gen_rotation, check_rotation, quick=400, thorough=10000, shards_quick=2, shards_thorough=6),
]

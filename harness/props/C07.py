"""C07 - Conditioned random fields honour the data and never reuse stale kriging results."""

import copy
import math

import numpy as np
from hypothesis import strategies as st

import common
from common import Sub, Violation, lib, require, quiet
import gens
from gens import build_model, logfloat
from oracles import geometry as geo
from oracles import kriging as okr

import gstools as gs

ID = "C07"
LEVEL = "exploration"
RULE = (
    "inputs: Hypothesis draws (kriging variant Simple/Ordinary/Universal/ExtDrift/Detrended, class, dim 1-3, anisotropy/rotation, "
    "conditioning layout with guaranteed separation, values, mean/trend/normalizer, seed, mode_no, targets incl. the conditioning "
    "locations and far points, mesh type); oracle: field == krige_est + sqrt(krige_var/var) * raw(seed) with the kriging part from "
    "a direct solve of the kriging system (oracles/kriging.py) and raw from an independent SRF of the same seed; data honoured; "
    "far field = mean + raw (simple kriging). histories: generated op lists on one CondSRF (generate with new/same/no seed and "
    "pos or None, set_pos, krige.set_condition with new values / new positions, in-place model change + documented refresh "
    "krige.set_condition(), re-assignment of model/mean/trend/normalizer + refresh, in-place edit of the caller's position array, "
    "shifted positions); after every generate the field must equal the one of a freshly built Krige+CondSRF with the current "
    "settings and seed and the formula above. Non-trivial: >= 2 generations with >= 1 state-changing op in between (histories) or "
    "a non-default processing step / anisotropy (inputs); distinct by op-sequence / input hash."
)
ASSUMPTIONS = [
    "model.covariance(r) is the radial covariance (C03); geometry from oracles/geometry.py; numpy.linalg.solve",
    "nugget-free models for the formula (with a nugget the noise stream is history dependent by design; only data honouring is asserted)",
    "position shifts inside numpy.allclose's window (atol 1e-8) are excluded from the freshness invariant (known finding K8) and probed separately",
]

CLASSES = ["Gaussian", "Exponential", "Matern", "Integral", "Stable", "Spherical", "Cubic", "TPLGaussian"]
VARIANTS = ["simple", "ordinary", "universal", "extdrift", "detrended", "regional_ext"]  # regional_ext: linear drift functions + one external drift (base class only)


def _drift_ext(pos):
    """A deterministic smooth 'external drift' as function of position."""
    pos = np.asarray(pos, dtype=float)
    return 1.0 + 0.3 * np.sin(pos[0]) + (0.2 * pos[-1] if pos.shape[0] > 1 else 0.0)


def _trend_fn(dim):
    return lambda *x: 0.4 + 0.15 * x[0] - (0.1 * x[1] if dim > 1 else 0.0)


def _mean_fn(dim):
    return lambda *x: 0.3 + 0.05 * x[0]


def _norm(name):
    if name == "LogNormal":
        return gs.normalizer.LogNormal()
    if name == "YeoJohnson":
        return gs.normalizer.YeoJohnson(lmbda=0.6)
    return None


def mk_krige(model, cfg, cond_pos, cond_val):
    """Build the kriging object of a configuration dict."""
    v = cfg["variant"]
    dim = model.field_dim
    ex = {"exact": True} if cfg.get("exact") else {}
    norm = _norm(cfg.get("norm", "None"))
    trend = None
    if cfg.get("trend") == "const":
        trend = 0.7
    elif cfg.get("trend") == "call":
        trend = _trend_fn(dim)
    if v == "simple":
        mean = cfg.get("mean_val", 0.5)
        if cfg.get("mean") == "call":
            mean = _mean_fn(dim)
        return gs.krige.Simple(model, cond_pos, cond_val, mean=mean, normalizer=norm, trend=trend, **ex)
    if v == "ordinary":
        return gs.krige.Ordinary(model, cond_pos, cond_val, normalizer=norm, trend=trend, **ex)
    if v == "universal":
        return gs.krige.Universal(model, cond_pos, cond_val, "linear", normalizer=norm, trend=trend, **ex)
    if v == "extdrift":
        return gs.krige.ExtDrift(model, cond_pos, cond_val, _drift_ext(cond_pos), normalizer=norm, trend=trend, **ex)
    if v == "detrended":
        return gs.krige.Detrended(model, cond_pos, cond_val, _trend_fn(dim), **ex)
    if v == "regional_ext":
        return gs.Krige(model, cond_pos, cond_val, drift_functions="linear", ext_drift=_drift_ext(cond_pos), normalizer=norm, trend=trend, **ex)
    raise common.HarnessError(v)


def call_kwargs(cfg, pos):
    if cfg["variant"] in ("extdrift", "regional_ext"):
        return {"ext_drift": _drift_ext(pos)}
    return {}


def oracle_field(spec, cfg, cond_pos, cond_val, pos, seed, mode_no, model):
    """krige_est + sqrt(krige_var/var) * raw with independent kriging and independent raw field."""
    dim = spec["dim"]
    v = cfg["variant"]
    cond_pos = np.asarray(cond_pos, dtype=float).reshape(dim, -1)
    pos = np.asarray(pos, dtype=float).reshape(dim, -1)
    norm = _norm(cfg.get("norm", "None"))
    # data preparation
    if v == "detrended" or cfg.get("trend") == "call":
        tr_c, tr_t = _trend_fn(dim)(*cond_pos), _trend_fn(dim)(*pos)
    elif cfg.get("trend") == "const":
        tr_c, tr_t = 0.7, 0.7
    else:
        tr_c, tr_t = 0.0, 0.0
    z = np.asarray(cond_val, dtype=float) - tr_c
    if norm is not None:
        z = norm.normalize(z)
    if v == "simple":
        if cfg.get("mean") == "call":
            mu_c, mu_t = _mean_fn(dim)(*cond_pos), _mean_fn(dim)(*pos)
        else:
            mu_c = mu_t = cfg.get("mean_val", 0.5)
    else:
        mu_c = mu_t = 0.0
    z = z - mu_c
    ic = okr.iso_positions(spec, cond_pos)
    it = okr.iso_positions(spec, pos)
    unbiased = v in ("ordinary", "universal", "extdrift", "regional_ext")
    dc = dt = None
    if v == "universal":
        dc, dt = cond_pos, pos
    elif v == "extdrift":
        dc, dt = _drift_ext(cond_pos)[None, :], _drift_ext(pos)[None, :]
    elif v == "regional_ext":
        dc = np.vstack([cond_pos, _drift_ext(cond_pos)[None, :]])
        dt = np.vstack([pos, _drift_ext(pos)[None, :]])
    est, kvar, cnd, _ = okr.krige(
        model.covariance, spec["var"] + spec["nugget"], spec["var"], ic, it, z,
        err=spec["nugget"], unbiased=unbiased, drift_cond=dc, drift_tgt=dt,
    )
    with quiet():
        raw = gs.SRF(build_model(spec), mean=0.0, seed=seed, mode_no=mode_no)(pos)
    cond_raw = est + np.sqrt(kvar / spec["var"]) * raw
    out = cond_raw + mu_t
    if norm is not None:
        out = norm.denormalize(out)
    out = out + tr_t
    return out, cnd, raw, kvar, est


# ---------------------------------------------------------------------------
# generated inputs


@st.composite
def _setup(draw, tier, classes=CLASSES):
    spec = draw(
        gens.model_specs(classes=classes, dims=(1, 2, 3), mode="accuracy", nugget=False,
                         scale_range=(0.5, 4.0), var_range=(0.2, 5.0))
    )
    dim = spec["dim"]
    # rough models make the kriging matrix well conditioned; smooth ones need separation
    ncond = draw(st.integers(2, 6))
    sep = 0.35 * spec["len_scale"] / (spec.get("rescale") or 1.0)
    cond_pos = draw(gens.separated_points(dim, n_min=ncond, n_max=ncond, box=2.5 * max(1.0, spec["len_scale"]), min_sep=min(sep, 1.0)))
    cfg = {"variant": draw(st.sampled_from(VARIANTS))}
    if cfg["variant"] == "simple":
        cfg["mean"] = draw(st.sampled_from(["const", "const", "call"]))
        cfg["mean_val"] = draw(st.floats(-1, 2))
    if cfg["variant"] != "detrended":
        cfg["norm"] = draw(st.sampled_from(["None", "None", "LogNormal", "YeoJohnson"]))
        cfg["trend"] = draw(st.sampled_from(["none", "none", "const", "call"]))
    if cfg.get("norm") == "LogNormal":
        vals = draw(st.lists(st.floats(1.2, 4.0), min_size=ncond, max_size=ncond))
    else:
        vals = draw(st.lists(st.floats(-2.0, 3.0), min_size=ncond, max_size=ncond))
    return {
        "spec": spec,
        "cfg": cfg,
        "cond_pos": cond_pos,
        "cond_val": vals,
        "seed": draw(st.integers(0, 2**31 - 1)),
        "mode_no": draw(st.sampled_from([16, 64])),
    }


def _valid_layout(case):
    """Universal kriging needs enough non-collinear points; checked at generation time."""
    n = len(case["cond_val"])
    dim = case["spec"]["dim"]
    if case["cfg"]["variant"] == "universal":
        return n >= dim + 2
    if case["cfg"]["variant"] == "extdrift":
        return n >= 3
    if case["cfg"]["variant"] == "regional_ext":
        return n >= dim + 3
    return True


@st.composite
def gen_input(draw, tier="quick"):
    case = draw(_setup(tier).filter(_valid_layout))
    dim = case["spec"]["dim"]
    n = draw(st.integers(1, 5))
    tgt = draw(gens.point_cloud(dim, n_min=n, n_max=n, kinds=("cloud",), scale=max(1.0, case["spec"]["len_scale"])))
    case["pos"] = tgt
    case["struct"] = draw(st.booleans()) and dim <= 2
    return case


def _tol(spec, cnd, vals):
    zs = max(1.0, float(np.max(np.abs(vals))))
    return max(1e-8, 1e-13 * cnd) * (zs + math.sqrt(spec["var"])) * 10


def _tol_pts(spec, cnd, vals, raw, kvar):
    """Per-point tolerance: the scaling sqrt(krige_var/var) amplifies rounding of a
    (nearly) vanishing kriging variance: |sqrt(v + d) - sqrt(v)| <= min(sqrt(d), d / (2 sqrt(v)))
    with d = 64 eps cond var the rounding level of the variance."""
    d = 64 * np.finfo(float).eps * max(cnd, 1.0) * spec["var"]
    kv = np.maximum(np.asarray(kvar, dtype=float), 0.0)
    with np.errstate(all="ignore"):
        amp = np.where(kv > d, d / (2 * np.sqrt(np.maximum(kv, 1e-300))), math.sqrt(d))
    return _tol(spec, cnd, vals) + np.abs(raw) * amp / math.sqrt(spec["var"])


def check_input(case, rec):
    spec, cfg = case["spec"], case["cfg"]
    dim = spec["dim"]
    tags = dict(gens.spec_tags(spec), variant=cfg["variant"], norm=cfg.get("norm", "None"))
    rec.label(cfg["variant"], spec["cls"])
    cond_pos = np.array(case["cond_pos"], dtype=float).reshape(dim, -1)
    cond_val = np.array(case["cond_val"], dtype=float)
    tgt = np.array(case["pos"], dtype=float).reshape(dim, -1)
    far = np.full((dim, 1), 0.0)
    far[0, 0] = float(np.max(np.abs(cond_pos))) + 40.0 * spec["len_scale"] * max([1.0] + list(spec["anis"])) / (spec.get("rescale") or 1.0) * (3.0 if spec["cls"] in ("Exponential", "Stable", "Matern", "Integral", "TPLGaussian") else 1.0)
    pos = np.concatenate([tgt, cond_pos, far], axis=1)
    with quiet():
        model = lib(build_model, spec, _tags=tags)
        krige = lib(mk_krige, model, cfg, cond_pos.copy(), cond_val.copy(), _tags=tags)
        cs = lib(gs.CondSRF, krige, mode_no=case["mode_no"], _tags=tags)
        f = lib(cs, pos.copy(), seed=case["seed"], _tags=tags, **call_kwargs(cfg, pos))
        want, cnd, raw, kvar, est = oracle_field(spec, cfg, cond_pos, cond_val, pos, case["seed"], case["mode_no"], model)
    if not np.isfinite(cnd) or cnd > 1e10:
        rec.exclude("ill_conditioned_system")
        return
    if not np.all(np.isfinite(want)):
        rec.exclude("oracle_outside_normalizer_range")
        return
    tolv = _tol_pts(spec, cnd, np.concatenate([cond_val, want]), raw, kvar)
    errv = np.abs(f - want)
    err = float(np.max(errv))
    rec.discrepancy("formula", float(np.max(errv / tolv)), 1.0)
    require(
        bool(np.all(errv <= tolv)),
        f"conditioned field differs from krige_est + sqrt(krige_var/var)*raw(seed) (direct solve) by {err:.3g} (tol {float(np.min(tolv)):.3g}..{float(np.max(tolv)):.3g}, cond {cnd:.3g})",
        dict(tags, kind="formula"),
    )
    nt = tgt.shape[1]
    nc = cond_pos.shape[1]
    errc = np.abs(f[nt : nt + nc] - cond_val)
    tolc = _tol_pts(spec, cnd, cond_val, raw[nt : nt + nc], np.zeros(nc))
    if cfg.get("norm", "None") != "None":
        tolc = tolc * (1.0 + np.abs(cond_val)) * 4  # derivative of the back transformation (exp / power)
    err_c = float(np.max(errc))
    rec.discrepancy("honours_data", float(np.max(errc / tolc)), 1.0)
    require(bool(np.all(errc <= tolc)), f"conditioning values not honoured: max deviation {err_c:.3g} (tol {float(np.max(tolc)):.3g})", dict(tags, kind="honour"))
    if cfg["variant"] == "simple" and cfg.get("norm", "None") == "None" and cfg.get("trend", "none") == "none":
        mu = cfg["mean_val"] if cfg.get("mean") != "call" else float(_mean_fn(dim)(*far)[0])
        err_f = abs(float(f[-1]) - (mu + float(raw[-1])))
        decayed = abs(float(est[-1])) <= 1e-9 and abs(float(kvar[-1]) - spec["var"]) <= 1e-9 * spec["var"]
        if not decayed:
            rec.label("far_point_still_correlated")
        require(
            not decayed or
            err_f <= 1e-6 * (1 + math.sqrt(spec["var"])),
            f"far from the data the conditioned field is not mean + unconditional field (deviation {err_f:.3g})",
            dict(tags, kind="far_field"),
        )
    if case["struct"] and cfg["variant"] not in ("extdrift", "regional_ext"):
        axes = [np.unique(np.round(tgt[i], 6)) for i in range(dim)]
        grid = np.array(np.meshgrid(*axes, indexing="ij")).reshape(dim, -1)
        with quiet():
            fs = lib(cs.structured, axes, seed=case["seed"], _tags=tags)
            wants, cnd2, *_ = oracle_field(spec, cfg, cond_pos, cond_val, grid, case["seed"], case["mode_no"], model)
        if np.all(np.isfinite(wants)):
            err = float(np.max(np.abs(fs.reshape(-1) - wants)))
            require(err <= 30 * _tol(spec, cnd, wants), f"structured mesh: deviates from formula by {err:.3g}", dict(tags, kind="formula_struct"))
    rec.nontrivial(
        nc >= 2 and (cfg["variant"] != "simple" or cfg.get("norm", "None") != "None" or any(a != 1.0 for a in spec["anis"]) or cfg.get("trend", "none") != "none")
    )


# ---------------------------------------------------------------------------
# histories

OPS = ["gen_seed", "gen_same", "gen_nan", "set_pos", "new_values", "new_cond", "model_inplace", "reassign", "mutate_pos", "shift_pos", "gen_other_store", "krige_direct", "mesh_switch",
       "scribble_cond"]


@st.composite
def gen_history(draw, tier="quick"):
    case = draw(_setup(tier, classes=["Gaussian", "Exponential", "Matern", "Spherical", "Stable"]).filter(_valid_layout))
    spec = case["spec"]
    dim = spec["dim"]
    n = draw(st.integers(2, 4))
    case["pos"] = draw(gens.point_cloud(dim, n_min=n, n_max=n, kinds=("cloud",), scale=max(1.0, spec["len_scale"])))
    max_ops = 7 if tier == "quick" else 14
    nops = draw(st.integers(2, max_ops))
    ops = []
    ncond = len(case["cond_val"])
    lo, hi = (1.2, 4.0) if case["cfg"].get("norm") == "LogNormal" else (-2.0, 3.0)
    for _ in range(nops):
        k = draw(st.sampled_from(OPS))
        op = {"op": k}
        if k in ("gen_seed",):
            op["seed"] = draw(st.integers(0, 2**31 - 1))
            op["with_pos"] = draw(st.booleans())
        elif k in ("gen_same", "gen_nan", "gen_other_store"):
            op["with_pos"] = draw(st.booleans())
            if k != "gen_other_store":
                # the realisation is returned only / only part of the intermediate fields is kept on the object
                op["store"] = draw(st.sampled_from([None, None, "off", "no_raw_krige", "no_raw_field"]))
            if k == "gen_other_store":
                op["which"] = draw(st.sampled_from(["both", "store", "krige_store"]))
        elif k == "krige_direct":
            op["return_var"] = draw(st.booleans())
        elif k == "new_values":
            op["vals"] = draw(st.lists(st.floats(lo, hi), min_size=ncond, max_size=ncond))
        elif k == "new_cond":
            op["shift"] = draw(st.lists(st.floats(-0.3, 0.3), min_size=dim, max_size=dim))
            op["vals"] = draw(st.lists(st.floats(lo, hi), min_size=ncond, max_size=ncond))
        elif k == "model_inplace":
            op["name"] = draw(st.sampled_from(["var", "len_scale"] + (["anis", "angles"] if dim > 1 else []) + (["opt", "opt"] if spec["cls"] in ("Matern", "Stable") else []) + ["rescale"]))
            op["factor"] = draw(st.one_of(logfloat(1.2, 2.5), logfloat(0.4, 0.85)))
        elif k == "reassign":
            op["what"] = draw(st.sampled_from(["model", "mean", "trend", "normalizer"]))
            op["val"] = draw(st.floats(0.1, 1.5))
        elif k in ("mutate_pos", "shift_pos", "set_pos"):
            op["shift"] = draw(st.lists(st.floats(0.05, 1.0), min_size=dim, max_size=dim))
            if dim > 1 and draw(st.booleans()):
                # the points move along one coordinate axis only (the other coordinate arrays stay as they are)
                keep_ax = draw(st.integers(0, dim - 1))
                op["shift"] = [v if i == keep_ax else 0.0 for i, v in enumerate(op["shift"])]
        ops.append(op)
    if draw(st.integers(0, 3)) == 0:
        # motif: an ensemble loop that keeps nothing on the object, right after new data at unchanged target positions
        ops.append({"op": "gen_nan", "with_pos": False})
        ops.append({"op": "new_values", "vals": draw(st.lists(st.floats(lo, hi), min_size=ncond, max_size=ncond))})
        ops.append({"op": "gen_nan", "with_pos": False, "store": draw(st.sampled_from(["off", "no_raw_krige"]))})
        ops.append({"op": "gen_seed", "with_pos": False, "seed": draw(st.integers(0, 2**31 - 1))})
    ops.append({"op": "gen_nan", "with_pos": False})
    case["ops"] = ops
    return case


def _nontrivial_hist(case):
    ops = case["ops"]
    gens_ = [i for i, o in enumerate(ops) if o["op"].startswith("gen")]
    if len(gens_) < 2:
        return False
    return any(not o["op"].startswith("gen") for o in ops[gens_[0] + 1 : gens_[-1]])


def check_history(case, rec):
    spec = copy.deepcopy(case["spec"])
    cfg = dict(case["cfg"])
    dim = spec["dim"]
    tags = dict(gens.spec_tags(spec), variant=cfg["variant"])
    rec.label(cfg["variant"])
    cond_pos = np.array(case["cond_pos"], dtype=float).reshape(dim, -1)
    cond_val = np.array(case["cond_val"], dtype=float)
    cur_pos = np.array(case["pos"], dtype=float).reshape(dim, -1)
    seed = case["seed"]
    mode_no = case["mode_no"]
    generated = 0
    with quiet():
        model = lib(build_model, spec, _tags=tags)
        # the arrays the "user" hands over as conditions (and may fill with other numbers later: the object keeps its own)
        u_cp, u_cv = cond_pos.copy(), cond_val.copy()
        krige = lib(mk_krige, model, cfg, u_cp, u_cv, _tags=tags)
        cs = lib(gs.CondSRF, krige, mode_no=mode_no, seed=seed, _tags=tags)
        caller_pos = cur_pos.copy()  # the array object the "user" keeps and passes
        pos_set = False
        for i, op in enumerate(case["ops"]):
            k = op["op"]
            where = f"op {i} {op}"
            rec.label(k)
            otags = dict(tags, op=k)
            try:
                if k.startswith("gen"):
                    if cfg.get("norm") == "LogNormal" and float(np.min(cond_val)) <= 0.0:
                        # the history assigned a LogNormal normalizer and, later, data outside its domain: nothing to compare
                        rec.exclude("data_outside_normalizer_range")
                        break
                    kw = {}
                    if k == "gen_seed":
                        seed = op["seed"]
                        kw["seed"] = seed
                    elif k == "gen_same":
                        kw["seed"] = int(str(seed))
                    elif k == "gen_other_store":
                        if op.get("which", "both") in ("both", "store"):
                            kw["store"] = ["f2", "r2", "k2"]
                        if op.get("which", "both") in ("both", "krige_store"):
                            kw["krige_store"] = ["kf2", "kv2"]
                    if op.get("store") and "store" not in kw:
                        kw["store"] = {"off": False, "no_raw_krige": [True, True, False], "no_raw_field": [True, False, True]}[op["store"]]
                        rec.label("store_" + op["store"])
                    if op.get("with_pos") or not pos_set:
                        f = cs(caller_pos, **kw, **call_kwargs(cfg, caller_pos))
                        pos_set = True
                        cur_pos = caller_pos.copy()
                    else:
                        f = cs(**kw, **call_kwargs(cfg, cur_pos))
                    generated += 1
                    # oracle 1: fresh objects
                    m2 = build_model(spec)
                    k2 = mk_krige(m2, cfg, cond_pos.copy(), cond_val.copy())
                    f2 = gs.CondSRF(k2, mode_no=mode_no)(cur_pos.copy(), seed=seed, **call_kwargs(cfg, cur_pos))
                    if not np.all(np.isfinite(f2)):
                        # data (minus trend) outside the normalizer's domain: the fresh object returns NaN, so must the used one
                        require(bool(np.array_equal(np.isnan(np.asarray(f)), np.isnan(np.asarray(f2)))),
                                f"{where}: NaN pattern differs from a freshly built Krige+CondSRF", dict(otags, kind="stale"))
                        rec.exclude("data_outside_normalizer_range")
                        break
                    scale = max(1.0, float(np.max(np.abs(f2)))) + math.sqrt(spec["var"])
                    err = float(np.max(np.abs(np.asarray(f) - np.asarray(f2))))
                    rec.discrepancy("fresh", err, 1e-8 * scale)
                    require(
                        err <= 1e-8 * scale,
                        f"{where}: conditioned field differs from a freshly built Krige+CondSRF with the current data, model, positions and seed by {err:.3g}",
                        dict(otags, kind="stale"),
                    )
                    # oracle 2: documented formula with a direct solve
                    want, cnd, raw_o, kvar_o, _e = oracle_field(spec, cfg, cond_pos, cond_val, cur_pos, seed, mode_no, m2)
                    if np.isfinite(cnd) and cnd < 1e10 and np.all(np.isfinite(want)):
                        tolv = _tol_pts(spec, cnd, np.concatenate([cond_val, want]), raw_o, kvar_o)
                        errv = np.abs(f - want)
                        err = float(np.max(errv))
                        rec.discrepancy("formula", float(np.max(errv / tolv)), 1.0)
                        require(bool(np.all(errv <= tolv)), f"{where}: differs from kriging (direct solve) + scaled raw field by {err:.3g} (tol {float(np.max(tolv)):.3g})", dict(otags, kind="formula"))
                elif k == "mesh_switch":
                    # the convenience methods on the same coordinate arrays: point list, then the grid spanned by the same
                    # (equal-length) axes, then the point list again - every result equals the one of a fresh object
                    if cfg["variant"] in ("extdrift", "regional_ext"):
                        continue
                    P = caller_pos if pos_set else cur_pos
                    axes = [np.array(P[i]) for i in range(dim)]
                    m2 = build_model(spec)
                    for mt in ("unstructured", "structured", "unstructured"):
                        arg = P.copy() if mt == "unstructured" else [a.copy() for a in axes]
                        f = getattr(cs, mt)(arg, seed=seed)
                        k2 = mk_krige(m2, cfg, cond_pos.copy(), cond_val.copy())
                        f2 = getattr(gs.CondSRF(k2, mode_no=mode_no), mt)(arg, seed=seed)
                        require(np.shape(f) == np.shape(f2), f"{where}: {mt} call returns shape {np.shape(f)}, a fresh object {np.shape(f2)}", dict(otags, kind="stale"))
                        require(bool(np.array_equal(np.isnan(np.asarray(f)), np.isnan(np.asarray(f2)))),
                                f"{where}: {mt} call: NaN pattern differs from a freshly built Krige+CondSRF", dict(otags, kind="stale"))
                        if not np.any(np.isfinite(f2)):
                            # data (minus trend) outside the normalizer's domain: nothing to compare
                            rec.exclude("data_outside_normalizer_range")
                            break
                        scale = max(1.0, float(np.nanmax(np.abs(f2)))) + math.sqrt(spec["var"])
                        err = float(np.nanmax(np.abs(np.asarray(f) - np.asarray(f2))))
                        require(err <= 1e-8 * scale, f"{where}: {mt} call on the same coordinate arrays differs from a freshly built Krige+CondSRF by {err:.3g}",
                                dict(otags, kind="stale"))
                        if mt == "structured" and np.size(f2) > 2:
                            # keyword arguments are handed on to the kriging routine: the grid kriged in chunks is the same field
                            csz = 2 + (np.size(f2) % 3)
                            fc = getattr(gs.CondSRF(mk_krige(build_model(spec), cfg, cond_pos.copy(), cond_val.copy()), mode_no=mode_no), mt)(arg, seed=seed, chunk_size=csz)
                            errc = float(np.nanmax(np.abs(np.asarray(fc) - np.asarray(f2))))
                            rec.label("structured_chunked")
                            require(errc <= 1e-8 * scale, f"{where}: structured grid kriged in chunks of {csz} differs from the unchunked conditioned field by {errc:.3g}",
                                    dict(otags, kind="chunk_dependence"))
                    pos_set = True
                    cur_pos = P.copy()
                    caller_pos = cur_pos.copy()
                    generated += 1
                elif k == "krige_direct":
                    # the user evaluates the kriging object of the conditioned field directly (it stores its own results)
                    if pos_set:
                        krige(return_var=op["return_var"], **call_kwargs(cfg, cur_pos))
                elif k == "set_pos":
                    caller_pos = cur_pos + np.array(op["shift"])[:, None]
                    cs.set_pos(caller_pos)
                    cur_pos = caller_pos.copy()
                    pos_set = True
                elif k == "new_values":
                    cond_val = np.array(op["vals"], dtype=float)
                    ed = _drift_ext(cond_pos) if cfg["variant"] in ("extdrift", "regional_ext") else None
                    u_cp, u_cv = cond_pos.copy(), cond_val.copy()
                    krige.set_condition(u_cp, u_cv, ed)
                elif k == "scribble_cond":
                    # the caller re-uses the arrays handed over as conditions for something else
                    u_cp += 3.3
                    u_cv -= 5.5
                elif k == "new_cond":
                    cond_pos = cond_pos + np.array(op["shift"])[:, None]
                    cond_val = np.array(op["vals"], dtype=float)
                    ed = _drift_ext(cond_pos) if cfg["variant"] in ("extdrift", "regional_ext") else None
                    u_cp, u_cv = cond_pos.copy(), cond_val.copy()
                    krige.set_condition(u_cp, u_cv, ed)
                elif k == "model_inplace":
                    m = cs.model
                    nm, fac = op["name"], op["factor"]
                    if nm == "var":
                        m.var = m.var * fac
                        spec["var"] = float(m.var)
                    elif nm == "len_scale":
                        m.len_scale = m.len_scale * fac
                        spec["len_scale"] = float(m.len_scale)
                    elif nm == "rescale":
                        # only the rescale factor changes (the correlation length is len_scale / rescale)
                        m.rescale = float(m.rescale) * fac
                        spec["rescale"] = float(m.rescale)
                    elif nm == "opt":
                        # only a shape parameter changes (Matern nu / Stable alpha), kept inside its bounds
                        oname = "nu" if spec["cls"] == "Matern" else "alpha"
                        lo_, hi_ = (0.3, 8.0) if oname == "nu" else (0.4, 2.0)
                        cur = float(getattr(m, oname))
                        new_v = min(max(cur * fac, lo_), hi_)
                        if new_v == cur:
                            new_v = min(max(cur / fac, lo_), hi_)
                        setattr(m, oname, new_v)
                        spec["opt"] = dict(spec.get("opt", {}), **{oname: float(new_v)})
                    elif nm == "anis":
                        a = np.array(m.anis)
                        a[0] *= fac
                        m.anis = a
                        spec["anis"] = [float(x) for x in m.anis]
                    else:
                        a = np.array(m.angles)
                        a[0] += fac
                        m.angles = a
                        spec["angles"] = [float(x) for x in m.angles]
                    krige.set_condition()  # the documented refresh
                elif k == "reassign":
                    w = op["what"]
                    if w == "model":
                        spec["len_scale"] = float(spec["len_scale"] * (0.5 + op["val"]))
                        cs.model = build_model(spec)
                    elif w == "mean" and cfg["variant"] == "simple":
                        cfg["mean"] = "const"
                        cfg["mean_val"] = float(op["val"])
                        cs.mean = cfg["mean_val"]
                    elif w == "trend" and cfg["variant"] != "detrended":
                        cfg["trend"] = "const" if cfg.get("trend") != "const" else "none"
                        cs.trend = 0.7 if cfg["trend"] == "const" else None
                    elif w == "normalizer" and cfg["variant"] != "detrended" and float(np.min(cond_val)) > 1.0:
                        cfg["norm"] = "LogNormal" if cfg.get("norm") != "LogNormal" else "None"
                        cs.normalizer = _norm(cfg["norm"])
                    else:
                        continue
                    krige.set_condition()
                elif k == "mutate_pos":
                    # the user edits the array handed over last time in place, then passes it again
                    if pos_set:
                        caller_pos += np.array(op["shift"])[:, None]
                        f = None
                elif k == "shift_pos":
                    caller_pos = cur_pos + np.array(op["shift"])[:, None]
            except Violation:
                raise
            except Exception as e:  # noqa: BLE001
                raise Violation(f"{where}: raised {type(e).__name__}: {e}", dict(otags, kind="exception"))
    rec.nontrivial(_nontrivial_hist(case))


# ---------------------------------------------------------------------------
# nugget > 0 with exact kriging: zero measurement error, data must be honoured for every seed


@st.composite
def gen_nugget(draw, tier="quick"):
    case = draw(_setup(tier).filter(_valid_layout))
    case["spec"]["nugget"] = draw(logfloat(1e-2, 2.0)) * case["spec"]["var"]
    case["cfg"]["exact"] = True
    case["seeds"] = draw(st.lists(st.integers(0, 2**31 - 1), min_size=2, max_size=3, unique=True))
    dim = case["spec"]["dim"]
    n = draw(st.integers(1, 4))
    case["pos"] = draw(gens.point_cloud(dim, n_min=n, n_max=n, kinds=("cloud",), scale=max(1.0, case["spec"]["len_scale"])))
    if draw(st.booleans()):
        # one target far away from all data (far-field clause under simple kriging)
        far = 1e3 * max(1.0, case["spec"]["len_scale"])
        case["pos"] = [row + [far * (i + 1)] for i, row in enumerate(np.array(case["pos"], dtype=float).reshape(dim, -1).tolist())]
    return case


def check_nugget(case, rec):
    spec, cfg = case["spec"], case["cfg"]
    dim = spec["dim"]
    tags = dict(gens.spec_tags(spec), variant=cfg["variant"], nugget=True, exact=True)
    rec.label(cfg["variant"])
    cond_pos = np.array(case["cond_pos"], dtype=float).reshape(dim, -1)
    cond_val = np.array(case["cond_val"], dtype=float)
    tgt = np.array(case["pos"], dtype=float).reshape(dim, -1)
    pos = np.concatenate([tgt, cond_pos], axis=1)
    nt = tgt.shape[1]
    with quiet():
        model = lib(build_model, spec, _tags=tags)
        krige = lib(mk_krige, model, cfg, cond_pos.copy(), cond_val.copy(), _tags=tags)
        kc_ = float(np.linalg.cond(np.linalg.pinv(krige._krige_mat)))
        if not np.isfinite(kc_) or kc_ > 1e9:
            rec.exclude("ill_conditioned_system")
            return
        cs = lib(gs.CondSRF, krige, mode_no=case["mode_no"], _tags=tags)
        fields = []
        for sd in case["seeds"]:
            f = lib(cs, pos.copy(), seed=sd, _tags=tags, **call_kwargs(cfg, pos))
            require(bool(np.all(np.isfinite(f))) or cfg.get("norm", "None") != "None", "non-finite conditioned field", dict(tags, kind="nonfinite"))
            fields.append(np.array(f))
            if not np.all(np.isfinite(f[nt:])):
                rec.exclude("oracle_outside_normalizer_range")
                return
            amp = 1.0 if cfg.get("norm", "None") == "None" else 4.0 * (1.0 + float(np.max(np.abs(cond_val))))
            # at the data the variance is zero up to rounding d ~ 64 eps cond sill; it enters as sqrt(d) * N(0,1) noise
            sill_ = spec["var"] + spec["nugget"]
            tol = (max(1e-7, 1e-12 * kc_) * (1.0 + float(np.max(np.abs(cond_val)))) + 6.0 * math.sqrt(64 * np.finfo(float).eps * kc_ * sill_)) * amp
            err = float(np.max(np.abs(f[nt:] - cond_val)))
            rec.discrepancy("honours_data_nugget", err, tol)
            require(
                err <= tol,
                f"exact kriging with a nugget: conditioned field (seed {sd}) misses the conditioning values by {err:.3g} (tol {tol:.3g})",
                dict(tags, kind="honour_nugget"),
            )
        # different seeds give different fields away from the data (the random part is really there)
        if nt and cfg.get("norm", "None") == "None":
            require(
                float(np.max(np.abs(fields[0][:nt] - fields[1][:nt]))) > 0 or float(np.max(krige.krige_var[:nt])) < 1e-12,
                "two seeds give identical conditioned fields away from the data",
                dict(tags, kind="no_randomness"),
            )
        # the random part: field - estimate = a(x) * smooth unconditional field + b(x) * nugget noise of the same seed, with
        # seed-independent a, b whose variance a^2 var + b^2 nugget is the kriging variance ("scaled by the kriging standard
        # deviation"); where simple kriging has decayed (variance = sill) the field is mean + the whole unconditional field.
        # a, b are solved per target from the fields of the generated seeds.
        if nt and kc_ <= 1e6:
            kw = call_kwargs(cfg, pos)
            k2 = lib(mk_krige, model, cfg, cond_pos.copy(), cond_val.copy(), _tags=tags)
            est, kv = lib(k2, pos.copy(), post_process=False, _what="Krige.__call__", _tags=tags, **kw)
            m0 = build_model(dict(spec, nugget=0.0))
            R, U, N = [], [], []
            for sd in case["seeds"]:
                raw = np.asarray(lib(cs, pos.copy(), seed=sd, post_process=False, _tags=tags, **kw), dtype=float)
                u = np.asarray(gs.SRF(model, seed=sd, mode_no=case["mode_no"])(pos.copy()), dtype=float)
                u0 = np.asarray(gs.SRF(m0, seed=sd, mode_no=case["mode_no"])(pos.copy()), dtype=float)
                R.append(raw - est)
                U.append(u0)
                N.append(u - u0)
            R, U, N = np.array(R), np.array(U), np.array(N)
            var_, nug_ = spec["var"], spec["nugget"]
            tolv = 1e-5 * sill_ * (1.0 + float(np.max(np.abs(cond_val))))
            for j in range(nt):
                A = np.stack([U[:, j], N[:, j]], axis=1)
                if not np.all(np.isfinite(A)) or np.linalg.cond(A) > 1e3:
                    rec.label("split_ill_conditioned")
                    continue
                (a, b), *_ = np.linalg.lstsq(A, R[:, j], rcond=None)
                got = a * a * var_ + b * b * nug_
                rec.label("variance_split_solved")
                rec.discrepancy("variance_split", abs(got - kv[j]), tolv)
                if len(case["seeds"]) > 2:
                    res = float(np.max(np.abs(A @ np.array([a, b]) - R[:, j])))
                    require(res <= tolv, f"conditioned field minus estimate is not a fixed combination of the smooth field and the nugget noise of the same "
                            f"seed (residual {res:.3g} over {len(case['seeds'])} seeds)", dict(tags, kind="nugget_split_residual"))
                require(
                    abs(got - kv[j]) <= tolv,
                    f"with a nugget the random part of the conditioned field has variance a^2 var + b^2 nugget = {got:.6g} (a = {a:.6g} on the smooth "
                    f"field, b = {b:.6g} on the nugget noise) but the kriging variance there is {float(kv[j]):.6g}",
                    dict(tags, kind="nugget_variance_split"),
                )
                if cfg["variant"] == "simple" and kv[j] >= sill_ * (1 - 1e-9):
                    rec.label("far_field_with_nugget")
                    require(abs(a - 1) <= 1e-4 and abs(b - 1) <= 1e-4,
                            f"far from the data (kriging variance = sill) the conditioned field is not mean + unconditional field: a = {a:.6g}, b = {b:.6g}",
                            dict(tags, kind="nugget_far_field"))
    rec.nontrivial(cond_pos.shape[1] >= 2)


# ---------------------------------------------------------------------------
# K8 probe: shifted positions inside the allclose window


@st.composite
def gen_small_units(draw, tier="quick"):
    return {"len_scale": draw(st.sampled_from([2e-9, 1e-9, 5e-9])), "shift": draw(st.sampled_from([0.5, 1.0])), "seed": draw(st.integers(0, 100))}


def check_small_units(case, rec):
    ls = case["len_scale"]
    tags = {"kind": "allclose_window"}
    with quiet():
        model = gs.Gaussian(dim=1, var=1.0, len_scale=ls)
        cond_pos = np.array([[0.0, 2.0 * ls, 5.0 * ls]])
        krige = gs.krige.Simple(model, cond_pos, [0.5, -1.0, 2.0], mean=0.0)
        cs = gs.CondSRF(krige, mode_no=16)
        pos = np.array([[0.7 * ls, 3.1 * ls, 4.4 * ls]])
        cs(pos, seed=case["seed"])
        pos2 = pos + case["shift"] * ls
        f = cs(pos2, seed=case["seed"])
        k2 = gs.krige.Simple(gs.Gaussian(dim=1, var=1.0, len_scale=ls), cond_pos, [0.5, -1.0, 2.0], mean=0.0)
        f2 = gs.CondSRF(k2, mode_no=16)(pos2, seed=case["seed"])
    err = float(np.max(np.abs(f - f2)))
    if err > 1e-8:
        rec.soft(
            f"positions moved by {case['shift']} length scales (len_scale {ls}) are treated as unchanged: stale kriging field reused, "
            f"conditioned field differs from a fresh object by {err:.3g}",
            tags,
        )
    rec.nontrivial(True)


SUBS = [
    Sub("input", gen_input, check_input, quick=500, thorough=12000, shards_quick=6, shards_thorough=8),
    Sub("history", gen_history, check_history, quick=320, thorough=8000, shards_quick=8, shards_thorough=8, nontrivial=_nontrivial_hist),
    Sub("nugget_exact", gen_nugget, check_nugget, quick=200, thorough=5000, shards_quick=2, shards_thorough=4),
    Sub("small_units", gen_small_units, check_small_units, quick=12, thorough=60, shards_quick=1, shards_thorough=1),
]

"""C06 - Kriging interpolates exactly and its variance is non-negative and bounded."""

import math

import numpy as np
from hypothesis import strategies as st

import common
from common import Sub, Violation, lib, require, quiet
import gens
from gens import build_model, logfloat
import kcommon as kc

import gstools as gs

ID = "C06"
LEVEL = "exploration"
RULE = (
    "exact: the kriging problems of C05 restricted to zero measurement error (nugget 0, or exact=True with a nugget) are evaluated at "
    "their own conditioning locations (plus generated targets): the field must return the conditioning values through the "
    "mean/trend/normalizer round trip and the variance must vanish there (tolerance scaled with the condition number of the "
    "independently assembled system; cond > 1e9 discarded and counted). bounds: for arbitrary generated targets (near, far, on data) "
    "and all error settings krige_var >= 0, and <= sill for simple kriging. duplicates: 2-4 coincident conditioning points with "
    "different values, pseudo_inv=True, nugget 0: result must equal the direct solve with the duplicates merged into one point "
    "carrying their mean value. Non-trivial: >= 3 distinct conditioning points and a non-identity processing step, an unbiased "
    "variant or a duplicate group; distinct by hash of the rounded case."
)
ASSUMPTIONS = [
    "model.covariance(r) is the radial covariance (C03); numpy.linalg for the independent system",
    "cov_nugget's documented isclose window: targets within 1e-8 of a datum count as that datum",
]


def _targets(draw, spec, fdim, m):
    if spec.get("latlon"):
        return [draw(st.lists(st.floats(-90, 90), min_size=m, max_size=m)), draw(st.lists(st.floats(-180, 180), min_size=m, max_size=m))]
    ls = spec["len_scale"] / (spec.get("rescale") or 1.0)
    return draw(gens.point_cloud(fdim, n_min=m, n_max=m, kinds=("cloud",), scale=max(1.0, ls)))


@st.composite
def gen_exact(draw, tier="quick"):
    case = draw(kc.configs(tier, zero_error_only=True, max_cond=10 if tier == "quick" else 25))
    # no NaN values here: every given value has to be reproduced
    vals = common.farr(case["cond_val"])
    lo = 1.5 if case["cfg"].get("norm") in ("LogNormal", "BoxCox") else 0.0
    case["cond_val"] = [lo + 0.37 * i if not math.isfinite(v) else float(v) for i, v in enumerate(vals)]
    case["chunk"] = draw(st.sampled_from([None, None, 2]))
    # variogram fitted inside the kriging object (anisotropic start model -> directional fit)
    spec, cfg = case["spec"], case["cfg"]
    fdim = kc.field_dim(spec)
    case["fit"] = (
        draw(st.sampled_from([False, False, True]))
        and cfg["variant"] in ("simple", "ordinary")
        and cfg["geo"] == "euclid"
        and len(case["cond_val"]) >= 6
        and cfg.get("norm", "None") == "None"
    )
    if case["fit"] and fdim > 1 and all(a == 1.0 for a in spec["anis"]):
        spec["anis"] = [draw(st.sampled_from([0.4, 2.5])) for _ in spec["anis"]]
    plain = cfg.get("norm", "None") == "None" and cfg.get("trend", "none") == "none" and cfg.get("mean", "none") in ("none", "const") and not case["fit"] \
        and cfg.get("cond_err", "nugget") in ("nugget", None)
    if plain and draw(st.integers(0, 3)) == 0:
        # unit of the variable: variance (and nugget) of order 10^e, data and constant mean of order 10^(e/2)
        ue = draw(st.sampled_from([-12, -20, 8]))
        spec["var"] = float(spec["var"] * 10.0**ue)
        spec["nugget"] = float(spec["nugget"] * 10.0**ue)
        case["cond_val"] = [float(v * 10.0 ** (ue / 2)) for v in case["cond_val"]]
        if "mean_val" in cfg:
            cfg["mean_val"] = float(cfg["mean_val"] * 10.0 ** (ue / 2))
        case["unit"] = float(10.0 ** (ue / 2))
    if cfg["variant"] == "simple" and cfg.get("norm", "None") == "None" and draw(st.booleans()):
        case["remean"] = {"v": draw(st.floats(-2.0, 3.0)), "refresh": draw(st.booleans())}
    elif draw(st.booleans()):
        case["recondition"] = [draw(st.sampled_from([0.37, -0.61, 1.3])) for _ in range(4)]
    if plain and "unit" not in case and draw(st.integers(0, 4)) == 0:
        # one request for very many targets that contain the data locations, in map-like coordinates (far from the origin)
        case["many"] = {"mag": draw(st.sampled_from([0.0, 1e2, 1e4, 1e6])), "dir": [draw(st.sampled_from([1.0, -0.7, 0.45])) for _ in range(4)],
                        "cells": draw(st.sampled_from([110000, 130000, 260000]))}
    return case


def check_exact(case, rec):
    spec, cfg = case["spec"], case["cfg"]
    fdim = kc.field_dim(spec)
    tags = dict(gens.spec_tags(spec), variant=cfg["variant"], geo=cfg["geo"], norm=cfg.get("norm", "None"), exact=cfg["exact"],
                pseudo_inv=cfg["pseudo_inv"], nugget=spec["nugget"] > 0)
    rec.label(cfg["variant"], cfg["geo"], "exact_flag" if cfg["exact"] else "no_nugget", "norm_" + cfg.get("norm", "None"))
    cond_pos = np.array(case["cond_pos"], dtype=float).reshape(fdim, -1)
    vals = np.array(case["cond_val"], dtype=float)
    k = None
    with quiet():
        model = lib(build_model, spec, _tags=tags)
        if case.get("fit"):
            try:
                k = kc.build_krige(case, model=model)
                k.set_condition(cond_pos.copy(), vals.copy(), fit_variogram=True)
            except (ValueError, RuntimeError):
                rec.exclude("variogram_fit_failed")
                return
            rec.label("fit_variogram")
            if k.model.nugget > 0 and not cfg["exact"]:
                rec.exclude("fitted_nugget_without_exact")
                return
            case = dict(case, spec=kc.spec_from_model(spec, k.model))
            spec = case["spec"]
        ref = kc.oracle(case, cond_pos, model if k is None else k.model)
    cnd = ref["cond"]
    if not np.isfinite(cnd) or cnd > 1e9:
        rec.exclude("cond>1e9")
        return
    if not np.all(np.isfinite(ref["field"])):
        rec.exclude("data_outside_normalizer_range")
        return
    with quiet():
        if k is None:
            k = lib(kc.build_krige, case, model=model, _tags=tags)
        kw = dict(kc.target_kwargs(cfg, cond_pos))
        if case["chunk"]:
            kw["chunk_size"] = case["chunk"]
        f, v = lib(k, cond_pos.copy(), _what="Krige.__call__ at cond_pos", _tags=tags, **kw)
    amp = 1.0 if cfg.get("norm", "None") == "None" else 4.0 * (1.0 + float(np.max(np.abs(vals))))
    # the solve loses about eps * cond relative to the size of the data vector (not of the single value)
    acc = max(1e-7, 50.0 * np.finfo(float).eps * cnd)
    unit = float(case.get("unit", 1.0))
    # ... the data vector of the solve being the detrended, normalised, mean-free values (ref["est"] at the data)
    zmag = float(np.max(np.abs(ref["est"]))) if amp != 1.0 or cfg.get("trend", "none") != "none" else 0.0
    tolf = acc * (unit + float(np.max(np.abs(vals))) + zmag) * amp * np.ones_like(vals)
    errf = np.abs(f - vals)
    rec.discrepancy("interpolation", float(np.max(errf / tolf)), 1.0)
    if not bool(np.all(errf <= tolf)):
        # consequence of the exp_int integer-order window (finding L-expint-integer-order-window of C02): the model's own
        # correlation(0) is not 1, so the zero-lag covariance on the matrix diagonal is not the variance.  Only a deviation
        # that the direct solve with the model's own covariance function reproduces is attributed to it.
        with quiet():
            dev0 = abs(float(np.asarray((model if not case.get("fit") else k.model).correlation(0.0))) - 1.0)
        if dev0 > 1e-12 and spec["cls"] in ("Integral", "TPLGaussian", "TPLExponential", "TPLStable"):
            tags = dict(tags, expint_window=True, cor0_dev=dev0,
                        explained=bool(np.all(np.abs(f - ref["field"]) <= tolf)))
    require(
        bool(np.all(errf <= tolf)),
        f"kriging does not return the conditioning values at the conditioning locations: max deviation {float(np.max(errf)):.3g} "
        f"(tol {float(np.max(tolf)):.3g}, cond {cnd:.3g}); got {f.tolist()}, data {vals.tolist()}",
        dict(tags, kind="not_exact"),
    )
    sill = spec["var"] + spec["nugget"]
    tolv = acc * sill
    rec.discrepancy("variance_at_data", float(np.max(np.abs(v))), tolv)
    require(
        float(np.max(np.abs(v))) <= tolv,
        f"kriging variance at the conditioning locations is {float(np.max(np.abs(v))):.3g}, expected 0 (tol {tolv:.3g})",
        dict(tags, kind="variance_at_data"),
    )
    if cond_pos.shape[1] >= 2:
        # the same request one location at a time (single-point calls take other code paths in the position transforms)
        with quiet():
            one = [lib(k, cond_pos[:, j : j + 1].copy(), _what="Krige.__call__ at one conditioning point", _tags=tags, **dict(kc.target_kwargs(cfg, cond_pos[:, j : j + 1])))
                   for j in range(cond_pos.shape[1])]
        f1 = np.array([float(np.ravel(o[0])[0]) for o in one])
        v1 = np.array([float(np.ravel(o[1])[0]) for o in one])
        e1 = np.abs(f1 - vals)
        rec.label("one_point_per_call")
        # a single point is rotated / stretched with other rounding than the batch: the target then sits at a distance d of rounding size
        # from the datum, which models that are not Lipschitz at the origin (small hurst / nu / alpha) turn into cov(0) - cov(d) > 0
        mdl = k.model
        with quiet():
            an = np.asarray(mdl.anis, dtype=float)
            rr = float(np.max(np.abs(cond_pos))) * float(max(1.0, np.max(1.0 / an, initial=1.0))) + (float(mdl.geo_scale) if mdl.latlon else 0.0)
            dd = 256.0 * np.finfo(float).eps * max(rr, 1e-300)
            dC = abs(float(np.asarray(mdl.covariance(0.0))) - float(np.asarray(mdl.covariance(dd))))
        ainv = cnd / max(float(mdl.var), 1e-300)
        slack_f = ainv * math.sqrt(cond_pos.shape[1]) * dC * (float(np.max(np.abs(ref["est"]))) + float(np.max(np.abs(vals))) + unit) * amp
        slack_v = 4.0 * dC * (1.0 + ainv * math.sqrt(cond_pos.shape[1]) * dC)
        tolv_, tolf_ = tolv, tolf
        tolf = tolf + slack_f
        tolv = tolv + slack_v
        require(bool(np.all(e1 <= tolf)),
                f"kriging one conditioning location per call does not return the conditioning values: max deviation {float(np.max(e1)):.3g} (tol {float(np.max(tolf)):.3g}); "
                f"all locations in one call deviate by {float(np.max(errf)):.3g}",
                dict(tags, kind="not_exact_single_point"))
        require(float(np.max(np.abs(v1))) <= tolv,
                f"kriging variance at a conditioning location asked for alone is {float(np.max(np.abs(v1))):.3g}, expected 0 (tol {tolv:.3g})",
                dict(tags, kind="variance_at_data_single_point"))
        tolv, tolf = tolv_, tolf_
    if cfg["variant"] == "simple" and case.get("remean") is not None:
        # the data are honoured for whatever mean the object carries at the time of the call (estimate only, before and after a new mean)
        kw2 = dict(kw, return_var=False)
        with quiet():
            f1 = lib(k, cond_pos.copy(), _what="Krige.__call__(return_var=False)", _tags=tags, **kw2)
            k.mean = float(case["remean"]["v"])
            if case["remean"]["refresh"]:
                k.set_condition()
            f2 = lib(k, cond_pos.copy(), _what="Krige.__call__(return_var=False) after a new mean", _tags=tags, **kw2)
        rec.label("remean_" + ("refresh" if case["remean"]["refresh"] else "no_refresh"))
        for nm, ff in (("before", f1), ("after", f2)):
            e2 = np.abs(np.asarray(ff) - vals)
            require(bool(np.all(e2 <= tolf * (1.0 + abs(float(case["remean"]["v"])) / unit))),
                    f"estimate-only call {nm} assigning mean = {case['remean']['v']!r}: kriging does not return the conditioning values (max deviation {float(np.max(e2)):.3g})",
                    dict(tags, kind="not_exact_after_new_mean"))
    if case.get("recondition") and cfg["geo"] == "euclid" and not cfg.get("n_ext", 0) and not case.get("fit"):
        # the same object conditioned again on a translated point set (same number of points): the new data are honoured
        shift = np.array(case["recondition"], dtype=float)[:fdim, None] * max(1.0, float(spec["len_scale"]))
        pos2 = cond_pos + shift
        with quiet():
            k.set_condition(pos2.copy(), vals.copy())
            f3, v3 = lib(k, pos2.copy(), _what="Krige.__call__ after set_condition(new positions)", _tags=tags, **dict(kc.target_kwargs(cfg, pos2)))
        rec.label("reconditioned_at_new_positions")
        e3 = np.abs(np.asarray(f3) - vals)
        if np.all(np.isfinite(f3)):
            require(bool(np.all(e3 <= tolf * 10)),
                    f"after set_condition(new positions, same values) kriging does not return the conditioning values at the new locations: max deviation {float(np.max(e3)):.3g}",
                    dict(tags, kind="not_exact_after_recondition"))
    mn = case.get("many")
    if mn and cfg["geo"] == "euclid" and not cfg.get("n_ext", 0) and not kc.has_functional_drift(cfg) and not case.get("fit"):
        n = cond_pos.shape[1]
        ls = max(1.0, float(spec["len_scale"]))
        off = np.array(mn["dir"], dtype=float)[:fdim, None] * mn["mag"] * ls
        pos3 = cond_pos + off
        nfill = int(math.ceil(mn["cells"] / n))
        j = np.arange(1, nfill + 1, dtype=float)
        # low-discrepancy filler around the data (deterministic)
        alphas = [0.6180339887498949, 0.7548776662466927, 0.5698402909980532, 0.8191725133961645][:fdim]
        span = 3.0 * ls + float(np.max(np.ptp(cond_pos, axis=1)))
        fill = np.array([(np.mod(j * a, 1.0) - 0.5) * span for a in alphas]) + pos3.mean(axis=1, keepdims=True)
        tg = np.concatenate([fill[:, : nfill // 2], pos3, fill[:, nfill // 2:]], axis=1)
        sl = slice(nfill // 2, nfill // 2 + n)
        with quiet():
            k.set_condition(pos3.copy(), vals.copy())
            f4, v4 = lib(k, tg, _what="Krige.__call__ on many targets containing the data locations", _tags=tags)
        rec.label("many_targets", f"many_targets_offset_{mn['mag']:g}")
        e4 = np.abs(np.asarray(f4)[sl] - vals)
        if np.all(np.isfinite(f4)):
            require(bool(np.all(e4 <= tolf * 10)),
                    f"one call for {tg.shape[1]} targets containing the data locations (coordinates offset by {mn['mag']:g} length scales): the data are not reproduced, "
                    f"max deviation {float(np.max(e4)):.3g} (tol {float(np.max(tolf)) * 10:.3g})",
                    dict(tags, kind="not_exact_many_targets"))
            require(float(np.max(np.abs(np.asarray(v4)[sl]))) <= tolv * 10,
                    f"one call for {tg.shape[1]} targets containing the data locations: kriging variance at the data is {float(np.max(np.abs(np.asarray(v4)[sl]))):.3g}, expected 0 (tol {tolv * 10:.3g})",
                    dict(tags, kind="variance_at_data_many_targets"))
    if fdim == 2 and cfg["geo"] == "euclid" and cfg.get("n_ext", 0) and cond_pos.shape[1] <= 7 and not case.get("fit"):
        # external drift on a structured grid that contains the data locations, handed over in Fortran order (e.g. the transpose of
        # a drift evaluated on np.meshgrid with "xy" indexing)
        ax0, ax1 = np.unique(cond_pos[0]), np.unique(cond_pos[1])
        G0, G1 = np.meshgrid(ax0, ax1, indexing="ij")
        gp = np.array([G0.ravel(), G1.ravel()])
        ed = np.array([kc.ext_drift_fn(i_, gp) for i_ in range(cfg["n_ext"])]).reshape((cfg["n_ext"],) + G0.shape)
        with quiet():
            k.set_condition(cond_pos.copy(), vals.copy(), np.array([kc.ext_drift_fn(i_, cond_pos) for i_ in range(cfg["n_ext"])]))
            f6, v6 = lib(k, [ax0.copy(), ax1.copy()], mesh_type="structured", ext_drift=np.asfortranarray(ed), _what="Krige.structured with a Fortran-ordered external drift", _tags=tags)
        i0 = np.searchsorted(ax0, cond_pos[0])
        i1 = np.searchsorted(ax1, cond_pos[1])
        rec.label("structured_ext_drift_fortran_order")
        if np.all(np.isfinite(f6)):
            e6 = np.abs(np.asarray(f6)[i0, i1] - vals)
            require(bool(np.all(e6 <= tolf * 10)) and float(np.max(np.abs(np.asarray(v6)[i0, i1]))) <= tolv * 10,
                    f"structured grid containing the data locations, external drift given in Fortran order: data missed by {float(np.max(e6)):.3g}, "
                    f"variance at the data {float(np.max(np.abs(np.asarray(v6)[i0, i1]))):.3g}",
                    dict(tags, kind="not_exact_structured_ext_drift"))
    if fdim > 1 and cfg["geo"] == "euclid" and not cfg.get("n_ext", 0) and not case.get("fit") and not mn and cond_pos.shape[1] >= 2:
        # the object re-oriented in place + the documented refresh, then asked again on the targets it keeps (no positions passed)
        with quiet():
            kwn = dict(kc.target_kwargs(cfg, cond_pos))
            k.set_condition(cond_pos.copy(), vals.copy())
            lib(k, cond_pos.copy(), _what="Krige.__call__ at cond_pos", _tags=tags, **kwn)
            a_ = np.array(k.model.anis, dtype=float)
            a_[0] *= 2.5
            k.model.anis = a_
            g_ = np.array(k.model.angles, dtype=float)
            g_[0] += 0.9
            k.model.angles = g_
            k.set_condition()
            f5, v5 = lib(k, _what="Krige.__call__() on the stored positions after anis / angles change + set_condition()", _tags=tags, **kwn)
        rec.label("stored_targets_after_reorientation")
        if np.all(np.isfinite(f5)) and float(np.linalg.cond(k._krige_mat)) < 1e9:
            e5 = np.abs(np.asarray(f5) - vals)
            require(bool(np.all(e5 <= tolf * 10)),
                    f"after anis / angles were assigned and set_condition() was called, krige() on the stored conditioning locations misses the data by {float(np.max(e5)):.3g}",
                    dict(tags, kind="not_exact_after_reorientation"))
            require(float(np.max(np.abs(v5))) <= tolv * 10,
                    f"after anis / angles were assigned and set_condition() was called, the kriging variance at the stored conditioning locations is {float(np.max(np.abs(v5))):.3g}, expected 0",
                    dict(tags, kind="variance_after_reorientation"))
    n_proc = int(cfg.get("norm", "None") != "None") + int(cfg.get("trend", "none") != "none") + int(cfg.get("mean", "none") not in ("none",))
    rec.nontrivial(cond_pos.shape[1] >= 3 and (n_proc > 0 or kc.is_unbiased(cfg) or cfg["exact"]))


# ---------------------------------------------------------------------------


@st.composite
def gen_bounds(draw, tier="quick"):
    case = draw(kc.configs(tier, max_cond=10))
    spec = case["spec"]
    fdim = kc.field_dim(spec)
    m = draw(st.integers(2, 8))
    case["pos"] = _targets(draw, spec, fdim, m)
    case["far_factor"] = draw(st.sampled_from([0.0, 5.0, 50.0]))
    return case


def check_bounds(case, rec):
    spec, cfg = case["spec"], case["cfg"]
    fdim = kc.field_dim(spec)
    tags = dict(gens.spec_tags(spec), variant=cfg["variant"], geo=cfg["geo"], exact=cfg["exact"], cond_err=cfg.get("cond_err"))
    rec.label(cfg["variant"], cfg["geo"])
    cond_pos = np.array(case["cond_pos"], dtype=float).reshape(fdim, -1)
    pos = np.array(case["pos"], dtype=float).reshape(fdim, -1)
    if not spec.get("latlon") and case["far_factor"] > 0:
        pos = np.concatenate([pos, pos[:, :1] + case["far_factor"] * spec["len_scale"]], axis=1)
    finite = np.isfinite(common.farr(case["cond_val"]))
    pos = np.concatenate([pos, cond_pos[:, finite][:, :2]], axis=1)
    with quiet():
        model = lib(build_model, spec, _tags=tags)
        k = lib(kc.build_krige, case, model=model, _tags=tags)
        f, v = lib(k, pos.copy(), _tags=tags, **kc.target_kwargs(cfg, pos))
    sill = spec["var"] + spec["nugget"]
    require(bool(np.all(np.isfinite(v))), f"kriging variance not finite: {v.tolist()}", dict(tags, kind="var_nonfinite"))
    require(float(np.min(v)) >= 0.0, f"negative kriging variance {float(np.min(v)):.3g}", dict(tags, kind="var_negative"))
    if not kc.is_unbiased(cfg) and kc.n_drift(cfg, fdim) == 0:
        ref = kc.oracle(case, pos, model)
        if not np.isfinite(ref["cond"]) or ref["cond"] > 1e12:
            # numerically singular system (smooth model, dense data) inverted without the pseudo inverse: outside the property's restriction
            rec.exclude("numerically_singular_system")
            rec.nontrivial(False)
            return
        slack = 1e-9 * sill * max(1.0, (ref["cond"] if np.isfinite(ref["cond"]) else 1e16) * np.finfo(float).eps * 1e2)
        rec.discrepancy("var_over_sill", float(np.max(v) - sill), slack)
        require(
            float(np.max(v)) <= sill + slack,
            f"simple kriging variance {float(np.max(v)):.6g} exceeds the sill {sill:.6g}",
            dict(tags, kind="var_above_sill"),
        )
    rec.nontrivial(int(finite.sum()) >= 3)


# ---------------------------------------------------------------------------


@st.composite
def gen_dup(draw, tier="quick"):
    case = draw(kc.configs(tier, variants=["simple", "ordinary", "universal", "detrended"], allow_nugget=False, max_cond=8,
                           geo_kinds=("euclid", "euclid", "temporal", "latlon")))
    case["spec"]["nugget"] = 0.0
    cfg = case["cfg"]
    cfg["exact"] = draw(st.booleans())
    cfg["cond_err"] = "nugget"
    cfg["pseudo_inv"] = True
    cfg["norm"] = "None" if cfg["variant"] != "detrended" else None
    if cfg["norm"] is None:
        cfg.pop("norm")
    n = len(case["cond_val"])
    vals = common.farr(case["cond_val"])
    case["cond_val"] = [0.3 * i if not math.isfinite(v) else float(v) for i, v in enumerate(vals)]
    ngroups = draw(st.integers(1, 2))
    groups = []
    for _ in range(ngroups):
        src = draw(st.integers(0, n - 1))
        cnt = draw(st.integers(1, 3))
        groups.append({"src": src, "vals": draw(st.lists(st.floats(-2.0, 3.0), min_size=cnt, max_size=cnt))})
    case["groups"] = groups
    fdim = kc.field_dim(case["spec"])
    case["pos"] = _targets(draw, case["spec"], fdim, draw(st.integers(1, 5)))
    case["dup_first"] = draw(st.booleans())
    return case


def check_dup(case, rec):
    spec, cfg = case["spec"], case["cfg"]
    fdim = kc.field_dim(spec)
    tags = dict(gens.spec_tags(spec), variant=cfg["variant"], geo=cfg["geo"], pinv=cfg["pinv_type"])
    rec.label(cfg["variant"], cfg["geo"], cfg["pinv_type"])
    cond_pos = np.array(case["cond_pos"], dtype=float).reshape(fdim, -1)
    vals = np.array(case["cond_val"], dtype=float)
    pos = np.array(case["pos"], dtype=float).reshape(fdim, -1)
    # merged problem: each location once, carrying the mean of all values given there
    extra_pos, extra_val = [], []
    merged_val = vals.copy()
    count = np.ones(len(vals))
    summ = vals.copy()
    for g in case["groups"]:
        for v in g["vals"]:
            extra_pos.append(cond_pos[:, g["src"]])
            extra_val.append(v)
            summ[g["src"]] += v
            count[g["src"]] += 1
    merged_val = summ / count
    dpos = np.concatenate([cond_pos, np.array(extra_pos).T], axis=1)
    dval = np.concatenate([vals, np.array(extra_val)])
    if case["dup_first"]:
        order = np.concatenate([np.arange(len(vals), len(dval)), np.arange(len(vals))])
        dpos, dval = dpos[:, order], dval[order]
    pos_all = np.concatenate([pos, cond_pos], axis=1)
    with quiet():
        model = lib(build_model, spec, _tags=tags)
        ref = kc.oracle(dict(case, cond_val=merged_val.tolist()), pos_all, model)
    cnd = ref["cond"]
    if not np.isfinite(cnd) or cnd > 1e8:
        rec.exclude("merged_system_cond>1e8")
        return
    with quiet():
        k = lib(kc.build_krige, dict(case, cond_pos=dpos.tolist(), cond_val=dval.tolist()), model=model, _tags=tags)
        f, v = lib(k, pos_all.copy(), _tags=tags)
    sc = max(1.0, float(np.max(np.abs(dval))))
    t = 1e-6 * sc * max(1.0, cnd * 1e-10)
    err = float(np.max(np.abs(f - ref["field"])))
    rec.discrepancy("dup_field", err, t)
    require(
        err <= t,
        f"coincident conditioning points (pseudo inverse) do not act like one point with their mean value: deviation {err:.3g} (tol {t:.3g}); "
        f"got {f.tolist()}, merged {ref['field'].tolist()}",
        dict(tags, kind="duplicates_field"),
    )
    sill = spec["var"]
    tv = 1e-6 * sill * max(1.0, cnd * 1e-10)
    errv = float(np.max(np.abs(v - ref["var"])))
    rec.discrepancy("dup_var", errv, tv)
    require(errv <= tv, f"variance with coincident points differs from the merged system by {errv:.3g}", dict(tags, kind="duplicates_var"))
    rec.nontrivial(len(vals) >= 3)


SUBS = [
    Sub("exact", gen_exact, check_exact, quick=900, thorough=24000, shards_quick=6, shards_thorough=8),
    Sub("bounds", gen_bounds, check_bounds, quick=900, thorough=24000, shards_quick=6, shards_thorough=6),
    Sub("duplicates", gen_dup, check_dup, quick=400, thorough=10000, shards_quick=4, shards_thorough=4),
]

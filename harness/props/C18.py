"""C18 - Normalizers are invertible monotone maps; the mean/norm/trend pipeline is exact.

Sub-checks
----------
roundtrip    normalize -> denormalize on data over the valid input range incl.
             range ends, values outside, NaN, +-inf, scalars / nested lists;
             closed form of normalize (mpmath), NaN pattern, warning.
inverse      denormalize -> normalize on the valid *output* range which the
             oracle derives from the documented formula; closed form of
             denormalize, NaN for values outside the image.
monotone     sorted inputs give sorted outputs (ties only from rounding), both
             directions; derivative > 0.
derivative   derivative == exact derivative (mpmath) and == Richardson central
             difference of the library's own normalize.
loglik       loglikelihood / kernel_loglikelihood / likelihood == profile normal
             log-likelihood computed with mpmath.
fit          fitted parameters maximise the independently computed likelihood
             (grid + refinement) and agree with scipy.stats boxcox / yeojohnson.
pipe_tools   apply_mean_norm_trend == trend + D(mean + raw) and
             remove_trend_norm_mean inverts it (scalar/vector, structured/
             unstructured, stacked/unstacked, check_shape on/off).
pipe_field   Field / SRF / vector SRF / Krige / CondSRF: output with
             post_process=True equals trend + D(mean + output with
             post_process=False); kriging honours the conditions through
             normalizer, mean and trend.
"""

import math
import warnings

import numpy as np
from hypothesis import strategies as st

import common
from common import Sub, Violation, require, unjson_float
import gens
from oracles import normalizers as R

import gstools as gs
from gstools.normalizer import tools as ntools

ID = "C18"
LEVEL = "exploration"
RULE = (
    "Hypothesis draws (normalizer class, lmbda in [-3,3] incl. 0, 1, 2, +-1e-9 and the "
    "isclose switch, shift) and data constructed in the kernel coordinate u (log-uniform "
    "1e-12..1e12, both branches / signs), plus range ends, values outside the range, NaN, "
    "+-inf, as scalar / list / nested list / array; for pipelines additionally (field "
    "object, dim 1-3, mesh type, constant / vector / polynomial-callable mean and trend, "
    "scalar or vector values, stacking, seed, conditioning data). Oracle: mpmath closed "
    "forms with exact range membership and rounding-error budgets. Non-trivial: the "
    "normalizer is not the identity and at least two valid, well conditioned values with "
    "transformed values of both signs (both branches) are present; for pipelines a "
    "non-identity normalizer with a non-constant mean or trend. Distinct by hash of the "
    "rounded case."
)
ASSUMPTIONS = [
    "mpmath elementary functions at 50 digits are exact for the purpose of a 1e-13 comparison",
    "the documented formulas in the class docstrings define the transformations; the valid "
    "output range is the image of the documented input range",
    "numpy pow/exp/log kernels are accurate to 8 ulp (K in oracles/normalizers.py)",
    "scipy.stats.boxcox_normmax / yeojohnson_normmax(method mle) maximise the same profile likelihood",
    "np.meshgrid(indexing='ij') is the documented structured-grid layout",
]

# Known findings: each switch excludes exactly the affected sub-assertion /
# generated region so the search can go on.  A case carrying "probe": true
# bypasses the exclusion (used by known-finding probes).
KNOWN = {
    # Manly(lmbda<0).denormalize_range = (-inf, 1/lmbda) instead of (-inf, -1/lmbda)
    # (fixed in /repo by 40463bf: switch off, assertion live)
    "F2_manly_neg_range": False,
    # normalize/denormalize/derivative of an out-of-range *scalar* raises TypeError
    # (fixed in /repo by 1106520: switch off, assertion live)
    "N1_scalar_out_of_range": False,
    # YeoJohnson / Modulus declare no denormalize_range: values outside the image
    # give finite garbage / inf instead of NaN
    # (fixed in /repo by e27e15a: switch off, assertion live)
    "N2_yj_modulus_output_range": False,
    # YeoJohnson switches to the lmbda=2 formula for |lmbda-2| <= 1e-8+2e-5 (isclose rtol)
    # (fixed in /repo by 61370db: switch off, assertion live)
    "N3_yj_switch_width": False,
    # apply_mean_norm_trend(value_type='vector') with the default check_shape=True raises
    "N4_tools_vector_check_shape": True,
    # format_struct_pos_shape: equal axis lengths with d*L == field size or
    # d*L == prod(shape[1:]) (2x2, 3x3x3) are misread as 1-D
    # (fixed in /repo by c4c9483: switch off, assertion live)
    "N5_struct_equal_axes": False,
    # BoxCoxShift.fit of both parameters may end where data are out of range or the
    # likelihood overflows (class doc: "Fitting the shift parameter is rather hard")
    "O1_boxcoxshift_two_parameter_fit": True,
}

FAM = R.FAMILIES
RANGED_IN = ("LogNormal", "BoxCox", "BoxCoxShift")
TWO_BRANCH = ("YeoJohnson", "Modulus")
EPS = R.EPS


def _known(key, case):
    return KNOWN.get(key, False) and not case.get("probe")


# ---------------------------------------------------------------------------
# helpers: normalizer construction, library calls


def mk_norm(spec):
    cls = getattr(gs.normalizer, spec["cls"])
    kw = {}
    if spec["cls"] != "LogNormal":
        kw["lmbda"] = spec["lmbda"]
    if spec["cls"] == "BoxCoxShift":
        kw["shift"] = spec["shift"]
    return cls(**kw)


def mk_ref(spec):
    return R.Ref(spec["cls"], spec.get("lmbda", 0.0), spec.get("shift", 0.0))


def spec_tags(spec, **more):
    lam = spec.get("lmbda", 0.0)
    t = {
        "norm": spec["cls"],
        "lmbda": lam,
        "lmbda_sign": (lam > 0) - (lam < 0),
        "shift": spec.get("shift", 0.0),
        "yj_switch_band": yj_band(spec),
    }
    t.update(more)
    return t


def is_identity(spec):
    c, lam = spec["cls"], spec.get("lmbda", 0.0)
    if c == "LogNormal":
        return False
    if c == "Manly":
        return abs(lam) <= 1e-8
    return lam == 1.0


def yj_band(spec):
    """YeoJohnson lmbda inside the isclose(lmbda, 2) window but not at the limit."""
    if spec["cls"] != "YeoJohnson":
        return False
    d = abs(spec["lmbda"] - 2.0)
    return R.SWITCH < d <= 2.1e-5


def switch_range(spec):
    """A branch exponent mu with 0 < |mu| <= 1e-8 (library uses the mu = 0 formula)."""
    lam = spec.get("lmbda", 0.0)
    mus = [lam, 2.0 - lam] if spec["cls"] == "YeoJohnson" else [lam]
    return any(0 < abs(m) <= R.SWITCH for m in mus)


def call(fn, *args, _tags=None, _what=None, **kw):
    """Call library code on a valid input; returns (result, warning messages)."""
    try:
        with warnings.catch_warnings(record=True) as wlist:
            warnings.simplefilter("always")
            with np.errstate(all="ignore"):
                res = fn(*args, **kw)
        return res, [str(w.message) for w in wlist if issubclass(w.category, UserWarning)]
    except Violation:
        raise
    except Exception as exc:  # noqa: BLE001
        tags = dict(_tags or {})
        tags.setdefault("kind", "exception")
        tags["exc"] = type(exc).__name__
        what = _what or getattr(fn, "__name__", str(fn))
        raise Violation(f"{what} raised {type(exc).__name__}: {exc}", tags=tags) from exc


def f2_region(spec, ref, y):
    """y lies where Manly(lmbda<0) wrongly reports 'out of range'."""
    if spec["cls"] != "Manly" or not spec["lmbda"] < -R.SWITCH:
        return False
    return math.isfinite(y) and y >= 1.0 / spec["lmbda"] and ref.out_valid(y)


def near_end(v, rng):
    """Float tie at a range end: v equals the correctly rounded end fl(b) while the
    exact end b is not representable.  Only then can an exact comparison and a
    double comparison against fl(b) disagree (any other double lies on the same
    side of b and of fl(b))."""
    for b in rng:
        if not R.M.isinf(b):
            if v == float(b) and R.M.mpf(v) != b:
                return True
    return False


# ---------------------------------------------------------------------------
# strategies

LAM_SPECIAL = [0.0, 1.0, 2.0, -1.0, -2.0, 0.5, -0.5, 3.0, -3.0, 1e-9, -1e-9, 1e-8,
               2.0 + 1e-9, 2.0 - 1e-9, 0.25, 1.5, 2.5, -0.1, 0.1]
LAM_ODD = [1e-7, -1e-6, 1e-5, 2.0 + 1e-5, 2.0 - 1e-6, 2.0 + 3e-5, 1.0 + 1e-9,
           # next to the special value 0 (the literal power formula cancels there), down to denormal magnitudes
           1e-12, -1e-13, 1e-17, -1e-17, 1e-300]
SHIFTS = [0.0, 0.5, 1.0, -1.5, 10.0, 1e-3, 100.0, -100.0]


def lambdas(well=False):
    if well:
        return st.one_of(
            st.sampled_from([0.0, 2.0, 1.0, -1.0, 0.5, 3.0, 2.0 + 1e-9, -1e-9]),
            st.floats(0.2, 3.0),
            st.floats(0.2, 3.0),
            st.floats(-3.0, -0.2),
            st.floats(-3.0, -0.2),
        )
    return st.one_of(
        st.floats(-3.0, 3.0),
        st.floats(-3.0, 3.0),
        st.sampled_from(LAM_SPECIAL),
        st.sampled_from(LAM_SPECIAL + LAM_ODD),
    )


@st.composite
def norm_specs(draw, classes=None, well=False):
    cls = draw(st.sampled_from(classes or FAM))
    spec = {"cls": cls, "lmbda": 0.0, "shift": 0.0}
    if cls != "LogNormal":
        spec["lmbda"] = float(draw(lambdas(well)))
    if cls == "BoxCoxShift":
        spec["shift"] = float(
            draw(st.one_of(st.sampled_from(SHIFTS), st.floats(-100.0, 100.0)))
        )
    return spec


T_SPECIAL = [0.0, 1e-9, -1e-9, 1e-3, -1e-3, math.log(2.0), -math.log(2.0), 27.0, -27.0, 1.0, -1.0]


def t_values(n_min, n_max, wide=True, unique=False):
    """Abstract kernel coordinate t = +-ln(u)."""
    parts = [st.floats(-3.0, 3.0), st.sampled_from(T_SPECIAL)]
    if wide:
        parts.append(st.floats(-27.0, 27.0))
    return st.lists(st.one_of(*parts), min_size=n_min, max_size=n_max, unique=unique)


def t_to_x(spec, t):
    """Monotone map from the kernel coordinate to the input space of the family."""
    c = spec["cls"]
    if c in ("LogNormal", "BoxCox"):
        return math.exp(t)
    if c == "BoxCoxShift":
        return math.exp(t) - spec["shift"]
    if c in TWO_BRANCH:
        return math.copysign(math.expm1(abs(t)), t)
    return t / max(abs(spec["lmbda"]), 0.1)  # Manly: |lmbda * x| <= 27


def bad_inputs(spec, direction):
    """Values outside the valid range of normalize ('fwd') / denormalize ('inv')."""
    out = ["nan", "inf", "-inf"]
    ref = mk_ref(spec)
    lo, hi = ref.in_range if direction == "fwd" else ref.out_range
    for b, outward in ((lo, -1.0), (hi, 1.0)):
        if R.M.isinf(b) or abs(float(b)) >= 1e7:
            continue
        fb = float(b)
        out += [
            fb,
            float(np.nextafter(fb, outward * math.inf)),
            fb + outward * 1e-9 * (1 + abs(fb)),
            fb + outward * 1.0,
            fb + outward * 1e6,
        ]
        if fb == 0.0:
            out.append(-0.0)
    return out


SHAPES = ["flat", "flat", "array", "nested", "tuple", "scalar", "zero_d"]


@st.composite
def gen_maps(draw, tier="quick", direction="fwd"):
    spec = draw(norm_specs())
    ts = draw(t_values(1, 8))
    xs = [t_to_x(spec, t) for t in ts]
    if direction == "fwd":
        vals = xs
    else:
        ref = mk_ref(spec)
        vals = []
        for x in xs:
            if math.isfinite(x) and ref.in_valid(x):
                y = R._f(ref.T(x))
                vals.append(y if math.isfinite(y) else 0.0)
            else:
                vals.append(0.0)
    # inject special / out-of-range values
    nbad = draw(st.sampled_from([0, 0, 1, 1, 2, 3]))
    if nbad:
        pool = bad_inputs(spec, direction)
        bad = draw(st.lists(st.sampled_from(pool), min_size=nbad, max_size=nbad))
        where = draw(st.lists(st.integers(0, len(vals)), min_size=nbad, max_size=nbad))
        for b, w in zip(bad, where):
            vals.insert(min(w, len(vals)), b)
    shape = draw(st.sampled_from(SHAPES))
    if shape in ("scalar", "zero_d"):
        vals = vals[:1]
    return {"norm": spec, "dir": direction, "vals": vals, "shape": shape}


def mk_input(vals, shape):
    vals = [float(v) for v in vals]
    if shape in ("scalar",):
        return float(vals[0])
    if shape == "zero_d":
        return np.array(vals[0], dtype=float)
    if shape == "flat":
        return list(vals)
    if shape == "tuple":
        return tuple(vals)
    if shape == "nested":
        n = len(vals)
        rows = 2 if (n % 2 == 0 and n >= 2) else 1
        return np.array(vals, dtype=float).reshape(rows, -1).tolist()
    return np.array(vals, dtype=float)


# ---------------------------------------------------------------------------
# roundtrip / inverse (with closed forms and NaN pattern)


def check_maps(case, rec):
    spec = case["norm"]
    direction = case["dir"]
    shape = case["shape"]
    tags = spec_tags(spec, dir=direction, shape=shape)
    rec.label(spec["cls"], f"shape:{shape}")
    ref = mk_ref(spec)
    vals = [float(unjson_float(v)) for v in case["vals"]]
    fwd = direction == "fwd"
    valid = ref.in_valid if fwd else ref.out_valid
    rng = ref.in_range if fwd else ref.out_range
    exact = ref.T if fwd else ref.D
    tol1 = ref.tolT if fwd else ref.tolD
    tolrt = ref.tol_roundtrip_x if fwd else ref.tol_roundtrip_y
    lim = ref.T_limit if fwd else ref.D_limit
    declared = (spec["cls"] in RANGED_IN) if fwd else (
        spec["cls"] in ("BoxCox", "BoxCoxShift", "Manly") and abs(spec["lmbda"]) > R.SWITCH
    )

    # classify elements
    kinds = []
    for v in vals:
        if math.isnan(v):
            kinds.append("nan")
        elif math.isinf(v):
            kinds.append("inf")
        elif near_end(v, rng):
            kinds.append("tie")
        elif valid(v):
            kinds.append("f2" if (not fwd and f2_region(spec, ref, v)) else "ok")
        elif not fwd and switch_range(spec):
            # |mu| <= 1e-8 is evaluated with the mu = 0 formula (accepted limit switch):
            # the image end at -+1/mu (|.| >= 1e8) is not represented
            kinds.append("switch")
        else:
            kinds.append("n2" if (not fwd and spec["cls"] in TWO_BRANCH) else "out")
    for k in set(kinds):
        rec.label(f"elem:{k}")

    if yj_band(spec) and _known("N3_yj_switch_width", case):
        rec.exclude("N3_yj_switch_width")
        return
    if shape in ("scalar", "zero_d") and kinds[0] in ("out", "f2", "n2", "tie", "inf"):
        if kinds[0] == "tie":
            rec.exclude("tie_range_end")
            return
        if _known("N1_scalar_out_of_range", case):
            rec.exclude("N1_scalar_out_of_range")
            return
        tags["finding"] = "N1_scalar_out_of_range"

    norm = mk_norm(spec)
    f1, f2 = (norm.normalize, norm.denormalize) if fwd else (norm.denormalize, norm.normalize)
    inp = mk_input(vals, shape)
    out1, warns = call(f1, inp, _tags=tags, _what=f"{spec['cls']}.{f1.__name__}")
    require(isinstance(out1, np.ndarray), f"{f1.__name__} does not return an ndarray", tags)
    require(
        out1.shape == np.shape(inp),
        f"{f1.__name__}: output shape {out1.shape} != input shape {np.shape(inp)}",
        dict(tags, kind="shape"),
    )
    o1 = np.array(out1, dtype=float).ravel()
    if shape in ("scalar", "zero_d") and math.isfinite(o1[0]):
        # the second map receives a 0-d array: out-of-range scalars are finding N1
        a0 = float(o1[0])
        valid2 = ref.out_valid if fwd else ref.in_valid
        rng2 = ref.out_range if fwd else ref.in_range
        bad2 = (not valid2(a0)) or near_end(a0, rng2) or (fwd and f2_region(spec, ref, a0))
        if bad2 and _known("N1_scalar_out_of_range", case):
            rec.exclude("N1_scalar_out_of_range")
            return
    out2, _w = call(f2, np.array(out1, copy=True), _tags=tags, _what=f"{spec['cls']}.{f2.__name__}")
    require(out2.shape == out1.shape, f"{f2.__name__}: shape changed", dict(tags, kind="shape"))
    o2 = np.array(out2, dtype=float).ravel()

    # warning for values outside a declared finite range
    if declared and any(k == "out" for k in kinds):
        require(
            any("out of range" in w for w in warns),
            f"{f1.__name__}: values outside the valid range but no warning",
            dict(tags, kind="warning"),
        )

    informative = []
    for i, (v, k) in enumerate(zip(vals, kinds)):
        a, b = o1[i], o2[i]
        if k == "nan":
            require(math.isnan(a), f"{f1.__name__}(nan) = {a}", dict(tags, kind="nan_pattern"))
            require(math.isnan(b), f"{f2.__name__}(nan) = {b}", dict(tags, kind="nan_pattern"))
        elif k == "inf":
            L = R._f(lim(1 if v > 0 else -1))
            if not fwd and spec["cls"] in TWO_BRANCH and math.isfinite(R._f(rng[1 if v > 0 else 0])):
                # +-inf beyond a finite image end of a family without declared range
                if _known("N2_yj_modulus_output_range", case):
                    rec.exclude("N2_yj_modulus_output_range")
                    continue
            require(
                math.isnan(a) or a == L or (switch_range(spec) and a == v),
                f"{f1.__name__}({v}) = {a}, neither NaN nor the limit {L}",
                dict(tags, kind="inf"),
            )
        elif k == "tie":
            rec.exclude("tie_range_end")
        elif k == "out":
            require(
                math.isnan(a),
                f"{f1.__name__}({v!r}) = {a} for a value outside the valid range "
                f"({float(rng[0])}, {float(rng[1])}); NaN expected",
                dict(tags, kind="nan_pattern", value=v),
            )
            require(math.isnan(b), f"{f2.__name__}(nan) = {b}", dict(tags, kind="nan_pattern"))
        elif k == "n2":
            if _known("N2_yj_modulus_output_range", case):
                rec.exclude("N2_yj_modulus_output_range")
            else:
                require(
                    math.isnan(a),
                    f"{spec['cls']}.denormalize({v!r}) = {a} for a value outside the image "
                    f"({float(rng[0])}, {float(rng[1])}) of normalize; NaN expected",
                    dict(tags, kind="output_range_missing", value=v),
                )
        elif k == "f2":
            if _known("F2_manly_neg_range", case):
                rec.exclude("F2_manly_neg_range")
            else:
                require(
                    not math.isnan(a),
                    f"Manly(lmbda={spec['lmbda']}).denormalize({v!r}) is NaN although the value lies in "
                    f"the documented output range (-inf, {float(rng[1])})",
                    dict(tags, kind="denormalize_range", value=v),
                )
        if k not in ("ok",) and not (k == "f2" and not _known("F2_manly_neg_range", case)):
            continue
        # closed form of the first map
        e = exact(v)
        t1 = tol1(v)
        ef = R._f(e)
        require(
            math.isfinite(a),
            f"{f1.__name__}({v!r}) = {a} on the valid range (exact {ef})",
            dict(tags, kind="nan_pattern", value=v),
        )
        err = abs(R._f(R.M.mpf(a) - e))
        rec.discrepancy("closed_form_" + direction + ("_limit_switch" if switch_range(spec) else ""), err, t1)
        require(
            err <= t1,
            f"{spec['cls']}.{f1.__name__}({v!r}) = {a!r}, closed form {ef!r}: error {err:.3g} > budget {t1:.3g}",
            dict(tags, kind="closed_form", value=v),
        )
        # round trip
        trt = tolrt(v)
        a_valid = (ref.out_valid if fwd else ref.in_valid)(a) and not near_end(
            a, ref.out_range if fwd else ref.in_range
        )
        if not math.isfinite(trt) or not a_valid:
            rec.label("elem:illcond")
            continue
        t2 = (ref.tolD if fwd else ref.tolT)(a)
        t2e = (ref.tolD if fwd else ref.tolT)(ef) if math.isfinite(ef) else t2
        trt = trt + max(0.0, t2 - t2e)
        if fwd and f2_region(spec, ref, a):
            if _known("F2_manly_neg_range", case):
                rec.exclude("F2_manly_neg_range")
                continue
            require(
                not math.isnan(b),
                f"Manly(lmbda={spec['lmbda']}): denormalize(normalize({v!r})) is NaN; normalize gives {a!r} "
                f"which lies in the documented output range (-inf, {float(ref.out_range[1])})",
                dict(tags, kind="denormalize_range", value=v),
            )
        require(
            math.isfinite(b),
            f"{f2.__name__}({f1.__name__}({v!r})) = {b} (intermediate {a!r})",
            dict(tags, kind="roundtrip", value=v),
        )
        err = abs(b - v)
        rec.discrepancy("roundtrip_" + direction, err, trt)
        require(
            err <= trt,
            f"{spec['cls']}: {f2.__name__}({f1.__name__}({v!r})) = {b!r}: error {err:.3g} > budget {trt:.3g}",
            dict(tags, kind="roundtrip", value=v),
        )
        if trt <= 1e-9 * (1 + abs(v)):
            informative.append(ef if fwd else v)
    both = any(t > 0 for t in informative) and any(t < 0 for t in informative)
    rec.nontrivial(bool(not is_identity(spec) and len(informative) >= 2 and both))
    if both:
        rec.label("both_signs")


# ---------------------------------------------------------------------------
# monotonicity


@st.composite
def gen_monotone(draw, tier="quick"):
    spec = draw(norm_specs())
    gaps = draw(
        st.lists(
            st.one_of(gens.logfloat(1e-13, 1e-6), gens.logfloat(1e-6, 1.0), st.floats(0.5, 6.0)),
            min_size=2,
            max_size=10,
        )
    )
    if draw(st.integers(0, 3)):
        # start below the branch point / u = 1 so that the data span both signs
        t0 = -draw(st.floats(0.0, 1.0)) * min(sum(gaps), 27.0)
    else:
        t0 = draw(st.floats(-20.0, 10.0))
    ts, t = [t0], t0
    for g in gaps:
        t = t + g
        if t <= 27.0:
            ts.append(t)
    xs = sorted(set(t_to_x(spec, t) for t in ts))
    return {"norm": spec, "x": xs}


def check_monotone(case, rec):
    spec = case["norm"]
    tags = spec_tags(spec)
    rec.label(spec["cls"])
    if yj_band(spec) and _known("N3_yj_switch_width", case):
        rec.exclude("N3_yj_switch_width")
        return
    ref = mk_ref(spec)
    xs = [float(v) for v in case["x"]]
    xs = [x for x in xs if ref.in_valid(x) and not near_end(x, ref.in_range)]
    if len(xs) < 2:
        rec.nontrivial(False)
        return
    norm = mk_norm(spec)
    y, _ = call(norm.normalize, np.array(xs), _tags=tags)
    d, _ = call(norm.derivative, np.array(xs), _tags=tags)
    require(np.all(np.isfinite(y)), "normalize not finite on the valid range", dict(tags, kind="nan_pattern"))
    require(
        np.all(d > 0),
        f"derivative not positive: {d[np.argmin(d)]} at x={xs[int(np.argmin(d))]}",
        dict(tags, kind="derivative_sign"),
    )
    te = [ref.T(x) for x in xs]
    tl = [ref.tolT(x) for x in xs]
    strict = 0
    for i in range(len(xs) - 1):
        gap = R._f(te[i + 1] - te[i])
        slack = tl[i] + tl[i + 1]
        dy = y[i + 1] - y[i]
        require(
            dy >= -slack,
            f"{spec['cls']}.normalize decreases: x={xs[i]!r},{xs[i+1]!r} -> y={y[i]!r},{y[i+1]!r}",
            dict(tags, kind="monotone"),
        )
        if gap > 2 * slack:
            strict += 1
            require(
                dy > 0,
                f"{spec['cls']}.normalize not strictly increasing: x={xs[i]!r},{xs[i+1]!r} -> "
                f"y={y[i]!r},{y[i+1]!r} (exact gap {gap:.3g})",
                dict(tags, kind="monotone"),
            )
    # inverse direction on the sorted, distinct images
    ys = sorted(set(float(v) for v in y))
    ys = [
        v
        for v in ys
        if ref.out_valid(v)
        and not near_end(v, ref.out_range)
        and not (f2_region(spec, ref, v) and _known("F2_manly_neg_range", case))
    ]
    if len(ys) < len(set(float(v) for v in y)) and spec["cls"] == "Manly" and spec["lmbda"] < 0:
        rec.exclude("F2_manly_neg_range")
    if len(ys) >= 2:
        xb, _ = call(norm.denormalize, np.array(ys), _tags=tags)
        de = [ref.D(v) for v in ys]
        dl = [ref.tolD(v) for v in ys]
        for i in range(len(ys) - 1):
            if not (math.isfinite(dl[i]) and math.isfinite(dl[i + 1])):
                continue
            gap = R._f(de[i + 1] - de[i])
            slack = dl[i] + dl[i + 1]
            dx = xb[i + 1] - xb[i]
            require(
                np.isfinite(dx) and dx >= -slack,
                f"{spec['cls']}.denormalize decreases: y={ys[i]!r},{ys[i+1]!r} -> x={xb[i]!r},{xb[i+1]!r}",
                dict(tags, kind="monotone_inv"),
            )
            if gap > 2 * slack:
                strict += 1
                require(
                    dx > 0,
                    f"{spec['cls']}.denormalize not strictly increasing at y={ys[i]!r},{ys[i+1]!r}",
                    dict(tags, kind="monotone_inv"),
                )
    rec.label("strict_pairs>0" if strict else "strict_pairs=0")
    spans = (min(R._f(t) for t in te) < 0 < max(R._f(t) for t in te))
    rec.nontrivial(bool(not is_identity(spec) and strict >= 2 and spans))


# ---------------------------------------------------------------------------
# derivative


@st.composite
def gen_derivative(draw, tier="quick"):
    spec = draw(norm_specs())
    ts = draw(t_values(1, 6, wide=draw(st.booleans())))
    return {"norm": spec, "x": [t_to_x(spec, t) for t in ts]}


def _step(spec, x):
    """Central-difference step: 1e-3 of the distance scale to the nearest
    singularity, and at most |x|/4 so the stencil stays on one branch."""
    c = spec["cls"]
    if c in ("LogNormal", "BoxCox"):
        return 1e-3 * x
    if c == "BoxCoxShift":
        return 1e-3 * (x + spec["shift"])
    if c in TWO_BRANCH:
        return min(1e-3 * (1 + abs(x)), abs(x) / 4)
    return 1e-3 / max(1.0, abs(spec["lmbda"]))


def check_derivative(case, rec):
    spec = case["norm"]
    tags = spec_tags(spec)
    rec.label(spec["cls"])
    if yj_band(spec) and _known("N3_yj_switch_width", case):
        rec.exclude("N3_yj_switch_width")
        return
    ref = mk_ref(spec)
    xs = [float(v) for v in case["x"]]
    xs = [x for x in xs if ref.in_valid(x) and not near_end(x, ref.in_range)]
    if not xs:
        rec.nontrivial(False)
        return
    norm = mk_norm(spec)
    d, _ = call(norm.derivative, np.array(xs), _tags=tags)
    good = 0
    signs = set()
    for x, dl in zip(xs, d):
        sg, lnu, mu, _u = ref._fwd_parts(x)
        de = R._f(ref.dT(x))
        # exact derivative; pow with exponent (mu-1): relative error eps |(mu-1) ln u|
        # (Manly: T' = exp(lmbda x), exponent lmbda x)
        expo = mu * lnu if spec["cls"] == "Manly" else (mu - 1) * lnu
        trel = R.K * EPS * (1 + abs(R._f(mu - 1)) + abs(R._f(expo)))
        err = abs(dl / de - 1) if de > 0 and math.isfinite(de) else math.inf
        rec.discrepancy("derivative_exact", err, trel)
        require(
            err <= trel,
            f"{spec['cls']}.derivative({x!r}) = {dl!r}, exact {de!r} (rel. error {err:.3g})",
            dict(tags, kind="derivative", value=x),
        )
        require(dl > 0, f"derivative({x!r}) = {dl} not positive", dict(tags, kind="derivative_sign"))
        # Richardson extrapolated central difference of the library's normalize
        h = _step(spec, x)
        if not h > 0:
            rec.label("at_branch_point")
            continue
        if h < 1e4 * np.spacing(abs(x)):
            # stencil not resolvable in double precision (x within 1e-9 |x| of a singularity)
            rec.label("fd_unresolvable")
            continue
        pts = np.array([x + h, x - h, x + h / 2, x - h / 2])
        if not all(ref.in_valid(float(p)) for p in pts):
            continue
        f, _ = call(norm.normalize, pts, _tags=tags)
        d1 = (f[0] - f[1]) / (pts[0] - pts[1])
        d2 = (f[2] - f[3]) / (pts[2] - pts[3])
        rich = (4 * d2 - d1) / 3
        # truncation <= 2e-12 relative (h^4 f^(5)/480 with |mu| <= 5); rounding of the
        # four normalize values amplified by 1/h: <= 4 tolT / (h f')
        noise = 4 * max(ref.tolT(float(p)) for p in pts) / (h * de)
        trel2 = 1e-6 + noise
        err = abs(rich / dl - 1)
        rec.discrepancy("derivative_richardson", err, trel2)
        require(
            err <= trel2,
            f"{spec['cls']}.derivative({x!r}) = {dl!r} but the Richardson difference of normalize is {rich!r} "
            f"(rel. {err:.3g} > {trel2:.3g})",
            dict(tags, kind="derivative_fd", value=x),
        )
        if noise < 1e-6:
            good += 1
            signs.add(sg if spec["cls"] in TWO_BRANCH else (1 if lnu >= 0 else -1))
    rec.label("fd_wellcond" if good else "fd_illcond")
    rec.nontrivial(bool(not is_identity(spec) and good >= 1))
    if len(signs) == 2:
        rec.label("both_signs")


# ---------------------------------------------------------------------------
# log-likelihood


@st.composite
def gen_loglik(draw, tier="quick"):
    spec = draw(norm_specs())
    ts = draw(st.lists(st.one_of(st.floats(-3.0, 3.0), st.floats(-7.0, 7.0)), min_size=2, max_size=25, unique=True))
    xs = [t_to_x(spec, t) for t in ts]
    extra = draw(st.sampled_from([[], [], ["nan"], ["nan", "nan"], ["out"]]))
    vals = list(xs)
    for e in extra:
        if e == "out":
            pool = [b for b in bad_inputs(spec, "fwd") if b not in ("nan", "inf", "-inf")]
            if not pool:
                continue
            e = pool[draw(st.integers(0, len(pool) - 1))]
        vals.insert(draw(st.integers(0, len(vals))), e)
    return {"norm": spec, "x": vals}


def ll_budget(ref, data):
    """Rounding budget of a double evaluation of the profile log-likelihood."""
    n = len(data)
    ll, kern, s2, _tmax = ref.loglik(data)
    s2f = R._f(s2)
    mt = max(ref.tolT(x) for x in data)
    jac = 0.0
    for x in data:
        _sg, lnu, mu, _u = ref._fwd_parts(x)
        expo = mu * lnu if ref.cls == "Manly" else (mu - 1) * lnu
        jac += 1 + abs(R._f(mu - 1)) + abs(R._f(expo))
    # var: |d s2| <= 2 sqrt(n s2) max|dT|  ->  n/2 d(log s2) <= n sqrt(n) max|dT| / sqrt(s2)
    if not 1e-280 < s2f < 1e280:
        return R._f(ll), R._f(kern), math.inf, s2f
    tol = n * math.sqrt(n) * mt / math.sqrt(s2f)
    tol += R.K * EPS * (jac + n * (1 + abs(math.log(s2f))) + abs(R._f(ll)) + abs(R._f(kern)))
    return R._f(ll), R._f(kern), tol, s2f


def check_loglik(case, rec):
    spec = case["norm"]
    tags = spec_tags(spec)
    rec.label(spec["cls"])
    if yj_band(spec) and _known("N3_yj_switch_width", case):
        rec.exclude("N3_yj_switch_width")
        return
    ref = mk_ref(spec)
    vals = [float(unjson_float(v)) for v in case["x"]]
    data = [v for v in vals if math.isfinite(v) and ref.in_valid(v)]
    if any(near_end(v, ref.in_range) for v in vals if math.isfinite(v)):
        rec.exclude("tie_range_end")
        return
    if len(set(data)) < 2:
        rec.nontrivial(False)
        return
    # the library clamps T' at 1e-16; stay above by construction of the domain
    if min(R._f(ref.dT(x)) for x in data) < 1e-15:
        rec.nontrivial(False)
        rec.label("clamped")
        return
    ll_e, kern_e, tol, s2 = ll_budget(ref, data)
    if not tol < 1.0:
        # degenerate sample (variance at the rounding level of the transformed values)
        rec.label("degenerate")
        rec.nontrivial(False)
        return
    norm = mk_norm(spec)
    ll, _ = call(norm.loglikelihood, list(vals), _tags=tags)
    kl, _ = call(norm.kernel_loglikelihood, list(vals), _tags=tags)
    ll, kl = float(ll), float(kl)
    err = abs(ll - ll_e)
    rec.discrepancy("loglik", err, tol)
    require(
        err <= tol,
        f"{spec['cls']}.loglikelihood = {ll!r}, profile normal log-likelihood {ll_e!r} "
        f"(n={len(data)} valid of {len(vals)}; error {err:.3g} > {tol:.3g})",
        dict(tags, kind="loglik"),
    )
    err = abs(kl - kern_e)
    require(
        err <= tol,
        f"{spec['cls']}.kernel_loglikelihood = {kl!r}, expected loglik + n/2 (log 2pi + 1) = {kern_e!r}",
        dict(tags, kind="kernel_loglik"),
    )
    const = 0.5 * len(data) * (math.log(2 * math.pi) + 1)
    require(
        abs((kl - ll) - const) <= 1e-12 * (1 + abs(kl) + abs(ll)),
        f"kernel_loglikelihood - loglikelihood = {kl - ll!r}, documented constant {const!r}",
        dict(tags, kind="kernel_loglik"),
    )
    if -700 < ll_e < 700:
        lk, _ = call(norm.likelihood, list(vals), _tags=tags)
        require(
            abs(float(lk) / math.exp(ll_e) - 1) <= 2 * tol + 1e-12,
            f"likelihood {float(lk)!r} != exp(loglik) {math.exp(ll_e)!r}",
            dict(tags, kind="likelihood"),
        )
    rec.label("with_dropped" if len(data) < len(vals) else "all_valid")
    rec.nontrivial(bool(not is_identity(spec) and tol < 1e-6))


# ---------------------------------------------------------------------------
# fit

FIT_CLASSES = ["BoxCox", "YeoJohnson", "Modulus", "Manly", "BoxCoxShift"]


@st.composite
def gen_fit(draw, tier="quick"):
    cls = draw(st.sampled_from(FIT_CLASSES))
    lam0 = float(draw(st.one_of(st.floats(-1.5, 2.5), st.sampled_from([0.0, 1.0, 2.0, 0.5, -0.5]))))
    spec = {"cls": cls, "lmbda": lam0, "shift": 0.0}
    if cls == "BoxCoxShift":
        spec["shift"] = float(draw(st.sampled_from([0.0, 0.5, 2.0, -1.0, 10.0])))
    via = draw(st.sampled_from(["fit", "fit", "ctor", "krige", "tools"]))
    if cls == "BoxCoxShift" and draw(st.booleans()):
        via = draw(st.sampled_from(["fit2", "fit_shift"]))  # both parameters / only the shift (documented as hard): descent property only
    return {
        "norm": spec,
        "n": draw(st.integers(15, 60)),
        "seed": draw(st.integers(0, 2**31 - 1)),
        "loc": draw(st.floats(-1.0, 1.0)),
        "sd": draw(st.floats(0.2, 1.0)),
        "via": via,
        "nan": draw(st.booleans()) if via == "fit" else False,
        "trend": draw(st.sampled_from([0.0, 0.0, 1.5, -2.0])) if via in ("krige", "tools") else 0.0,
    }


def fit_data(case):
    """Sample following the model exactly: x = D_{lam0}(z), z ~ N(loc, sd) truncated to the image."""
    spec = case["norm"]
    ref = mk_ref(spec)
    rs = np.random.RandomState(case["seed"])
    z = case["loc"] + case["sd"] * rs.standard_normal(case["n"])
    lo, hi = (R._f(b) for b in ref.out_range)
    # keep a margin to the image ends so the data stay well conditioned
    zs = [float(v) for v in z if lo + 0.05 < v < hi - 0.05]
    xs = []
    for v in zs:
        x = R._f(ref.D(v))
        if math.isfinite(x) and ref.in_valid(x):
            xs.append(x)
    return sorted(set(xs), key=xs.index)


def np_loglik(cls, lam, shift, x):
    """Independent double-precision profile log-likelihood (documented formulas,
    written with log1p/expm1; used for grids and refinement)."""
    x = np.asarray(x, dtype=float)
    n = x.size

    def g(lnu, mu):
        if mu == 0.0:
            return lnu
        return np.expm1(mu * lnu) / mu

    with np.errstate(all="ignore"):
        if cls == "BoxCox":
            lnu = np.log(x)
            t, lj = g(lnu, lam), (lam - 1) * lnu
        elif cls == "BoxCoxShift":
            lnu = np.log(x + shift)
            t, lj = g(lnu, lam), (lam - 1) * lnu
        elif cls == "YeoJohnson":
            pos = x >= 0
            lnu = np.log1p(np.abs(x))
            t = np.where(pos, g(lnu, lam), -g(lnu, 2 - lam))
            lj = np.where(pos, (lam - 1) * lnu, (1 - lam) * lnu)
        elif cls == "Modulus":
            lnu = np.log1p(np.abs(x))
            t, lj = np.sign(x) * g(lnu, lam), (lam - 1) * lnu
        elif cls == "Manly":
            t, lj = g(x, lam), lam * x
        else:
            raise ValueError(cls)
        s2 = np.mean((t - np.mean(t)) ** 2)
        return float(-0.5 * n * np.log(2 * np.pi * s2) - 0.5 * n + np.sum(lj))


def oracle_mle(cls, shift, x):
    """Global maximiser of the oracle likelihood over lmbda in [-6, 6]:
    dense grid, then golden-section refinement around the best grid point."""
    grid = np.linspace(-6.0, 6.0, 241)
    vals = np.array([np_loglik(cls, float(l), shift, x) for l in grid])
    vals[~np.isfinite(vals)] = -np.inf
    j = int(np.argmax(vals))
    a, b = grid[max(j - 1, 0)], grid[min(j + 1, len(grid) - 1)]
    gr = (math.sqrt(5) - 1) / 2
    c, d = b - gr * (b - a), a + gr * (b - a)
    fc, fd = np_loglik(cls, c, shift, x), np_loglik(cls, d, shift, x)
    for _ in range(80):
        if fc > fd:
            b, d, fd = d, c, fc
            c = b - gr * (b - a)
            fc = np_loglik(cls, c, shift, x)
        else:
            a, c, fc = c, d, fd
            d = a + gr * (b - a)
            fd = np_loglik(cls, d, shift, x)
    lam = 0.5 * (a + b)
    # multimodality indicator: another local maximum on the grid within 1e-3 of the top
    loc = [i for i in range(1, len(grid) - 1) if vals[i] >= vals[i - 1] and vals[i] >= vals[i + 1]]
    return lam, np_loglik(cls, lam, shift, x), grid, vals, len(loc), j in (0, len(grid) - 1)


def check_fit(case, rec):
    spec = case["norm"]
    cls = spec["cls"]
    via = case["via"]
    tags = spec_tags(spec, via=via)
    rec.label(cls, f"via:{via}")
    x = fit_data(case)
    if len(x) < 12:
        rec.nontrivial(False)
        rec.label("too_few")
        return
    shift = spec["shift"]
    trend = float(case.get("trend", 0.0))
    if via == "fit_shift":
        # only the shift is fitted (skip=["lmbda"]): the skipped parameter keeps its value, the result reports the stored
        # parameter, and a valid result is not worse than the start
        lam_fix = float(spec["lmbda"])
        norm = gs.normalizer.BoxCoxShift(lmbda=lam_fix, shift=shift)
        xa = np.array(x)
        ll_start = np_loglik(cls, lam_fix, shift, xa)
        res, _ = call(norm.fit, list(x), skip=["lmbda"], _tags=tags)
        require(float(norm.lmbda) == lam_fix, f"BoxCoxShift.fit(skip=['lmbda']) changed lmbda from {lam_fix!r} to {float(norm.lmbda)!r}", dict(tags, kind="fit_skip"))
        same_sh = isinstance(res, dict) and "shift" in res and (res["shift"] == norm.shift or (res["shift"] != res["shift"] and norm.shift != norm.shift))
        require(
            same_sh and res.get("lmbda", lam_fix) == norm.lmbda,
            f"fit result {res} does not report the stored parameters (lmbda={norm.lmbda!r}, shift={norm.shift!r})",
            dict(tags, kind="fit_result"),
        )
        sh = float(norm.shift)
        if not (math.isfinite(sh) and bool(np.all(xa + sh > 0))):
            rec.label("fit_shift:invalid_result")  # documented: "Fitting the shift parameter is rather hard" (same weakness as fit2 / O1)
        if math.isfinite(sh) and bool(np.all(xa + sh > 0)) and math.isfinite(ll_start):
            ll_end = np_loglik(cls, lam_fix, sh, xa)
            if math.isfinite(ll_end):
                rec.label("fit_shift:valid")
                if not ll_end >= ll_start - 1e-9 * (1 + abs(ll_start)) and not _known("O1_boxcoxshift_two_parameter_fit", case):
                    raise Violation(f"BoxCoxShift.fit(skip=['lmbda']): log-likelihood {ll_end!r} at shift={sh!r} is below the start {ll_start!r}",
                                    tags=dict(tags, kind="fit2_worse_than_start"))
        rec.nontrivial(sh != shift)
        return
    if via == "fit2":
        # two-parameter fit (scipy BFGS from the current parameters).  The class doc
        # warns that the shift is hard to fit; the only sound claim is that the result
        # is not worse than the starting point, provided it keeps all data valid.
        norm = gs.normalizer.BoxCoxShift(lmbda=1.0, shift=shift)
        xa = np.array(x)
        ll_start = np_loglik(cls, 1.0, shift, xa)
        res, _ = call(norm.fit, list(x), _tags=tags)
        require(
            isinstance(res, dict) and set(res) == {"lmbda", "shift"}
            and res["lmbda"] == norm.lmbda and res["shift"] == norm.shift,
            f"fit result {res} does not report the stored parameters",
            dict(tags, kind="fit_result"),
        )
        lam, sh = float(norm.lmbda), float(norm.shift)
        ok_par = math.isfinite(lam) and math.isfinite(sh) and bool(np.all(xa + sh > 0))
        ll_end = np_loglik(cls, lam, sh, xa) if ok_par else math.nan
        if not math.isfinite(ll_end):
            # the optimiser left the region where all data are valid / the likelihood is
            # finite (documented: "Fitting the shift parameter is rather hard")
            rec.label("fit2:invalid_result")
            if _known("O1_boxcoxshift_two_parameter_fit", case):
                rec.exclude("O1_boxcoxshift_two_parameter_fit")
                rec.nontrivial(False)
                return
            raise Violation(
                f"BoxCoxShift.fit (both parameters) returns lmbda={lam!r}, shift={sh!r}: "
                + ("likelihood not finite" if ok_par else "data outside the valid range (-shift, inf)"),
                tags=dict(tags, kind="fit2_invalid_result"),
            )
        if not ll_end >= ll_start - 1e-9 * (1 + abs(ll_start)):
            # the library's likelihood degenerates numerically far out (u**lmbda underflows,
            # var = 0 -> +inf) and the optimiser runs there: same documented weakness
            rec.label("fit2:worse_than_start")
            if _known("O1_boxcoxshift_two_parameter_fit", case):
                rec.exclude("O1_boxcoxshift_two_parameter_fit")
                rec.nontrivial(False)
                return
            raise Violation(
                f"BoxCoxShift.fit (both parameters): log-likelihood {ll_end!r} at the result (lmbda={lam!r}, "
                f"shift={sh!r}) is below the starting value {ll_start!r}",
                tags=dict(tags, kind="fit2_worse_than_start"),
            )
        rec.label("fit2:moved" if (lam, sh) != (1.0, shift) else "fit2:stuck")
        rec.nontrivial((lam, sh) != (1.0, shift))
        return
    lam_o, ll_o, grid, gvals, nloc, at_edge = oracle_mle(cls, shift, x)
    if at_edge or nloc != 1:
        # likelihood not unimodal on [-6, 6]: a local optimiser has no defined target
        rec.label("multimodal_or_edge")
        rec.nontrivial(False)
        return
    ncls = getattr(gs.normalizer, cls)
    kw = {"shift": shift} if cls == "BoxCoxShift" else {}
    xa = np.array(x)
    if via == "fit":
        data = list(x)
        if case.get("nan"):
            data.insert(len(data) // 2, float("nan"))
        norm = ncls(**kw)
        res, _ = call(norm.fit, data, skip=["shift"] if cls == "BoxCoxShift" else None, _tags=tags)
        require(
            isinstance(res, dict) and "lmbda" in res and res["lmbda"] == norm.lmbda,
            f"fit result {res} does not report the stored parameter {norm.lmbda}",
            dict(tags, kind="fit_result"),
        )
    elif via == "ctor":
        if cls == "BoxCoxShift":
            norm = ncls(**kw)
            call(norm.fit, list(x), skip=["shift"], _tags=tags)
        else:
            norm, _ = call(ncls, data=list(x), _tags=tags, _what=f"{cls}(data=...)")
    elif via == "krige":
        pos = np.arange(len(x), dtype=float) * 3.0
        norm = ncls(**kw)
        if cls == "BoxCoxShift":
            # two-parameter fit through Krige is out of scope (see 'shift' note); use fit()
            call(norm.fit, list(x), skip=["shift"], _tags=tags)
        else:
            model = gs.Exponential(dim=1, len_scale=0.5)
            kr, _ = call(
                gs.krige.Ordinary, model, [pos], xa + trend, normalizer=norm, trend=trend,
                fit_normalizer=True, _tags=tags, _what="Krige(fit_normalizer=True)",
            )
            norm = kr.normalizer
    else:  # tools
        pos = np.arange(len(x), dtype=float)
        norm = ncls(**kw)
        if cls == "BoxCoxShift":
            call(norm.fit, list(x), skip=["shift"], _tags=tags)
        else:
            (fld, norm2), _ = call(
                ntools.remove_trend_norm_mean, [pos], xa + trend, normalizer=norm, trend=trend,
                fit_normalizer=True, _tags=tags,
            )
            require(norm2 is norm or norm2 == norm, "fit_normalizer returns a different normalizer", tags)
            norm = norm2
    lam = float(norm.lmbda)
    if cls == "BoxCoxShift":
        require(float(norm.shift) == shift, f"skipped parameter shift changed to {norm.shift}", dict(tags, kind="fit_skip"))
    # data with trend: x + trend - trend may differ from x by rounding; negligible (1e-16 rel)
    ll_l = np_loglik(cls, lam, shift, xa)
    # 1) the fitted value maximises the independently computed likelihood
    deficit = ll_o - ll_l
    # Brent stops at |dlam| ~ 3e-8 (1+|lam|); deficit = |ll''|/2 dlam^2 is far below 1e-7
    rec.discrepancy("fit_ll_deficit", max(deficit, 0.0), 1e-7)
    require(
        math.isfinite(ll_l) and deficit <= 1e-7,
        f"{cls}.fit ({via}): lmbda = {lam!r} has log-likelihood {ll_l!r}; lmbda = {lam_o!r} reaches {ll_o!r} "
        f"(deficit {deficit:.3g})",
        dict(tags, kind="fit_not_optimal"),
    )
    gbest = float(np.max(gvals))
    require(ll_l >= gbest - 1e-6, "fit below the grid maximum", dict(tags, kind="fit_not_optimal"))
    # 2) location: curvature scaled
    h = 1e-2
    curv = -(np_loglik(cls, lam_o + h, shift, xa) - 2 * ll_o + np_loglik(cls, lam_o - h, shift, xa)) / h**2
    ref = R.Ref(cls, lam, shift)
    _a, _b, tol_ll, _s2 = ll_budget(ref, x)
    # two optimisers (library Brent, oracle golden section), each limited by
    # sqrt(2 df / |f''|) with df the evaluation noise, plus Brent's xtol ~ 3e-8 (1+|lam|)
    tol_lam = 1e-6 * (1 + abs(lam_o)) + 4 * math.sqrt(2 * max(tol_ll, 1e-13) / max(curv, 1e-6))
    err = abs(lam - lam_o)
    rec.discrepancy("fit_lambda", err, tol_lam)
    require(
        err <= tol_lam,
        f"{cls}.fit ({via}): lmbda = {lam!r}, maximum likelihood value {lam_o!r} (diff {err:.3g} > {tol_lam:.3g})",
        dict(tags, kind="fit_location"),
    )
    # 3) scipy for the two families it ships
    if cls in ("BoxCox", "BoxCoxShift", "YeoJohnson"):
        import scipy.stats as sps

        with common.quiet():
            if cls == "YeoJohnson":
                lam_s = float(sps.yeojohnson_normmax(xa))
            else:
                lam_s = float(sps.boxcox_normmax(xa + shift, method="mle"))
        err = abs(lam - lam_s)
        rec.discrepancy("fit_scipy", err, 2 * tol_lam)
        require(
            err <= 2 * tol_lam,
            f"{cls}.fit: lmbda = {lam!r}, scipy.stats MLE {lam_s!r} (diff {err:.3g})",
            dict(tags, kind="fit_scipy"),
        )
        rec.label("scipy_compared")
    rec.nontrivial(True)


# ---------------------------------------------------------------------------
# pipeline: function specs (mean / trend), positions


@st.composite
def fspecs(draw, dim, vector=False, scale=1.0, kinds=None):
    kinds = kinds or (["none", "const", "poly"] + (["vec", "vpoly", "vpoly"] if vector else ["poly"]))
    if vector:
        kinds = [k for k in kinds if k != "poly"]
    k = draw(st.sampled_from(kinds))
    if k == "none":
        return None
    f = st.floats(-1.0, 1.0)

    def poly():
        return {
            "k": "poly",
            "c0": scale * 2 * draw(f),
            "c": [scale * 0.5 * draw(f) for _ in range(dim)],
            "q": [scale * 0.2 * draw(f) for _ in range(dim)],
        }

    if k == "const":
        return {"k": "const", "v": scale * 2 * draw(f)}
    if k == "vec":
        return {"k": "vec", "v": [scale * 2 * draw(f) for _ in range(dim)]}
    if k == "poly":
        return poly()
    return {"k": "vpoly", "comps": [poly() for _ in range(dim)]}


def _poly(fs, p):
    out = fs["c0"]
    for c, q, pi in zip(fs["c"], fs["q"], p):
        pi = np.asarray(pi, dtype=float)
        out = out + c * pi + q * pi * pi
    return out


def mk_func(fs):
    """Library-side argument for a mean/trend spec."""
    if fs is None:
        return None
    k = fs["k"]
    if k == "const":
        return float(fs["v"])
    if k == "vec":
        return [float(v) for v in fs["v"]]
    if k == "poly":
        return lambda *p: _poly(fs, p)
    return lambda *p: np.array([_poly(c, p) for c in fs["comps"]])


def eval_func_ref(fs, coords, vector, dim):
    """Oracle evaluation on coordinate arrays of the field's spatial shape."""
    sshape = np.shape(coords[0])
    shape = ((dim,) + sshape) if vector else sshape
    if fs is None:
        return np.zeros(shape)
    k = fs["k"]
    if k == "const":
        return np.full(shape, float(fs["v"]))
    if k == "vec":
        return np.stack([np.full(sshape, float(v)) for v in fs["v"]])
    if k == "poly":
        return np.broadcast_to(_poly(fs, coords), sshape).astype(float)
    return np.stack([np.broadcast_to(_poly(c, coords), sshape).astype(float) for c in fs["comps"]])


def f_nonconst(fs):
    return fs is not None and fs["k"] in ("poly", "vpoly", "vec")


@st.composite
def positions(draw, dim, mesh, avoid_equal_axes=False, n_max=7):
    if mesh == "structured":
        lens = draw(st.lists(st.integers(1, 4), min_size=dim, max_size=dim))
        if avoid_equal_axes and dim > 1 and len(set(lens)) == 1:
            lens[-1] = lens[0] + 1
        axes = []
        for n in lens:
            start = draw(st.floats(-2.0, 2.0))
            steps = draw(st.lists(st.floats(0.1, 1.0), min_size=n - 1, max_size=n - 1))
            ax = [start]
            for s in steps:
                ax.append(ax[-1] + s)
            axes.append(ax)
        return axes
    n = draw(st.integers(1, n_max))
    return draw(
        st.lists(st.lists(st.floats(-2.0, 2.0), min_size=n, max_size=n), min_size=dim, max_size=dim)
    )


def coords_of(pos, mesh, dim):
    """Coordinate arrays with the spatial shape of the field (oracle side)."""
    if mesh == "structured":
        axes = [np.asarray(a, dtype=float) for a in pos]
        return list(np.meshgrid(*axes, indexing="ij"))
    return [np.asarray(a, dtype=float) for a in pos]


def lib_pos(pos, mesh, dim):
    return [np.array(a, dtype=float) for a in pos]


def D_ref_array(ref, w, spec, case, rec):
    """Exact denormalisation of a float array: returns (values, tol, mask_checked).

    Elements outside the exact image are expected to be NaN; elements affected
    by a known finding or sitting on a range end are masked out."""
    w = np.asarray(w, dtype=float)
    val = np.full(w.shape, np.nan)
    tol = np.zeros(w.shape)
    chk = np.ones(w.shape, dtype=bool)
    it = np.nditer(w, flags=["multi_index"])
    for v in it:
        i = it.multi_index
        v = float(v)
        if math.isnan(v):
            continue
        if switch_range(spec) and abs(v) > 1e6:
            chk[i] = False
            continue
        if math.isinf(v) or near_end(v, ref.out_range):
            chk[i] = False
            rec.exclude("tie_range_end")
            continue
        if not ref.out_valid(v):
            if switch_range(spec):
                # image end at -+1/mu, |mu| <= 1e-8, not represented (accepted limit switch)
                chk[i] = False
                continue
            if spec["cls"] in TWO_BRANCH:
                if _known("N2_yj_modulus_output_range", case):
                    chk[i] = False
                    rec.exclude("N2_yj_modulus_output_range")
            continue
        if f2_region(spec, ref, v) and _known("F2_manly_neg_range", case):
            chk[i] = False
            rec.exclude("F2_manly_neg_range")
            continue
        val[i] = R._f(ref.D(v))
        tol[i] = ref.tolD(v)
        if not math.isfinite(tol[i]) or not math.isfinite(val[i]):
            chk[i] = False
    return val, tol, chk


def compare_masked(got, want, tol, chk, what, tags, rec, name):
    got = np.asarray(got, dtype=float)
    require(got.shape == want.shape, f"{what}: shape {got.shape} != {want.shape}", dict(tags, kind="shape"))
    if not chk.any():
        return 0
    g, w, t = got[chk], want[chk], tol[chk]
    nanmis = np.isnan(g) != np.isnan(w)
    if nanmis.any():
        j = int(np.argmax(nanmis))
        raise Violation(
            f"{what}: NaN pattern differs (got {g[j]!r}, expected {w[j]!r})",
            tags=dict(tags, kind="nan_pattern"),
        )
    m = ~np.isnan(w)
    if not m.any():
        return 0
    err = np.abs(g[m] - w[m])
    ratio = err / t[m]
    j = int(np.argmax(ratio))
    rec.discrepancy(name, float(err[j]), float(t[m][j]))
    require(
        bool(np.all(err <= t[m])),
        f"{what}: got {g[m][j]!r}, expected {w[m][j]!r} (error {err[j]:.3g} > budget {t[m][j]:.3g})",
        dict(tags, kind=name),
    )
    return int(m.sum())


def target_raw(ref, spec, xs, marks, shape, mean):
    """raw field such that mean + raw = T(x) for target input-space values x
    (cycled over the field), with NaN / outside-image marks."""
    total = int(np.prod(shape))
    xv = np.resize(np.array(xs, dtype=float), total)
    w = np.array([R._f(ref.T(float(x))) if ref.in_valid(float(x)) else 0.0 for x in xv])
    lo, hi = (R._f(b) for b in ref.out_range)
    for idx, kind in marks:
        i = idx % total
        if kind == "nan":
            w[i] = np.nan
        elif kind == "out":
            if math.isfinite(lo):
                w[i] = lo - 0.5
            elif math.isfinite(hi):
                w[i] = hi + 0.5
    w = w.reshape(shape)
    return w - mean


WELL_T = st.one_of(st.floats(-2.5, 2.5), st.sampled_from([0.0, 1.0, -1.0, 0.1, -0.1]))


@st.composite
def gen_pipe_tools(draw, tier="quick"):
    dim = draw(st.sampled_from([1, 2, 2, 3]))
    mesh = draw(st.sampled_from(["structured", "unstructured"]))
    vector = dim > 1 and draw(st.booleans())
    check_shape = draw(st.booleans())
    if vector and KNOWN["N4_tools_vector_check_shape"]:
        check_shape = False
    stack = draw(st.sampled_from([0, 0, 1, 2, 3]))
    norm_as = draw(st.sampled_from(["instance"] * 8 + ["class", "none"]))
    if norm_as == "none":
        spec = None
    elif norm_as == "class":
        spec = {"cls": draw(st.sampled_from(FAM)), "lmbda": 1.0, "shift": 0.0}
        if spec["cls"] == "LogNormal":
            spec["lmbda"] = 0.0
    else:
        spec = draw(norm_specs(well=True))
        if spec["cls"] == "BoxCoxShift":
            spec["shift"] = float(draw(st.sampled_from([0.0, 0.5, -1.5, 3.0])))
    pos = draw(positions(dim, mesh, avoid_equal_axes=check_shape and KNOWN["N5_struct_equal_axes"]))
    xs_t = draw(st.lists(WELL_T, min_size=1, max_size=8))
    sp = spec or {"cls": "Manly", "lmbda": 0.0, "shift": 0.0}
    marks = draw(
        st.lists(st.tuples(st.integers(0, 200), st.sampled_from(["nan", "out"])), min_size=0, max_size=2)
    )
    return {
        "dim": dim, "mesh": mesh, "vector": vector, "check_shape": check_shape, "stack": stack,
        "norm_as": norm_as, "norm": spec, "pos": pos,
        "mean": draw(fspecs(dim, vector)), "trend": draw(fspecs(dim, vector)),
        "xs": [t_to_x(sp, t) for t in xs_t],
        "marks": [list(m) for m in marks],
        # a flat 1-D position array is only interpreted when check_shape formats it
        "pos_1d_flat": dim == 1 and check_shape and draw(st.booleans()),
    }


IDENT = {"cls": "Manly", "lmbda": 0.0, "shift": 0.0}


def pipe_expect(ref, spec, case, rec, raw, mean_a, trend_a):
    """Oracle of apply_mean_norm_trend: trend + D(mean + raw) with budget."""
    w = raw + mean_a  # same double addition as any implementation of 'mean + raw'
    val, tol, chk = D_ref_array(ref, w, spec, case, rec)
    want = val + trend_a
    # final addition of the trend: one rounding of the result and of its operands
    tol = tol + 4 * EPS * (np.abs(np.nan_to_num(val)) + np.abs(trend_a) + np.abs(np.nan_to_num(want)))
    return w, val, want, tol, chk


def back_budget(ref, want, val, w, mean_a, trend_a, tol_out, chk):
    """Budget for remove(apply(raw)) - raw (first order error propagation)."""
    tol = np.full(want.shape, np.inf)
    it = np.nditer(want, flags=["multi_index"])
    for _ in it:
        i = it.multi_index
        if not chk[i] or math.isnan(val[i]):
            continue
        x = float(val[i])
        if not ref.in_valid(x) or near_end(x, ref.in_range):
            continue
        dx = tol_out[i] + 4 * EPS * (abs(want[i]) + abs(trend_a[i]))
        tol[i] = R._f(ref.dT(x)) * dx + ref.tolT(x) + 4 * EPS * (abs(w[i]) + abs(mean_a[i]))
    return tol


def check_pipe_tools(case, rec):
    dim, mesh, vector = case["dim"], case["mesh"], case["vector"]
    spec = case["norm"]
    stack = case["stack"]
    tags = spec_tags(spec or IDENT, mesh=mesh, vector=vector, stacked=bool(stack), check_shape=case["check_shape"], dim=dim)
    rec.label(mesh, "vector" if vector else "scalar", f"stack{min(stack, 2)}", f"norm_as:{case['norm_as']}",
              (spec or {"cls": "None"})["cls"])
    if vector and case["check_shape"]:
        if _known("N4_tools_vector_check_shape", case):
            rec.exclude("N4_tools_vector_check_shape")
            return
        tags["finding"] = "N4_tools_vector_check_shape"
    if (
        mesh == "structured" and case["check_shape"] and dim > 1
        and len(set(len(a) for a in case["pos"])) == 1
    ):
        if _known("N5_struct_equal_axes", case):
            rec.exclude("N5_struct_equal_axes")
            return
        tags["finding"] = "N5_struct_equal_axes"
    if spec and yj_band(spec) and _known("N3_yj_switch_width", case):
        rec.exclude("N3_yj_switch_width")
        return
    ref = mk_ref(spec or IDENT)
    coords = coords_of(case["pos"], mesh, dim)
    sshape = np.shape(coords[0])
    fshape = ((dim,) + sshape) if vector else sshape
    mean_a = eval_func_ref(case["mean"], coords, vector, dim)
    trend_a = eval_func_ref(case["trend"], coords, vector, dim)
    k = max(stack, 1)
    full = (k,) + fshape
    mean_f = np.broadcast_to(mean_a, full).copy()
    trend_f = np.broadcast_to(trend_a, full).copy()
    marks = [(int(a), str(b)) for a, b in case["marks"]]
    raw = target_raw(ref, spec or IDENT, case["xs"], marks, full, mean_f)
    w, val, want, tol, chk = pipe_expect(ref, spec or IDENT, case, rec, raw, mean_f, trend_f)

    if case["norm_as"] == "none":
        norm_arg = None
    elif case["norm_as"] == "class":
        norm_arg = getattr(gs.normalizer, spec["cls"])
    else:
        norm_arg = mk_norm(spec)
    pos = lib_pos(case["pos"], mesh, dim)
    if case.get("pos_1d_flat") and dim == 1 and case["check_shape"]:
        pos = pos[0]
    kw = dict(
        mean=mk_func(case["mean"]), normalizer=norm_arg, trend=mk_func(case["trend"]),
        mesh_type=mesh, value_type="vector" if vector else "scalar",
        check_shape=case["check_shape"], stacked=bool(stack),
    )
    fld_in = raw.copy() if stack else raw[0].copy()
    out, _ = call(ntools.apply_mean_norm_trend, pos, fld_in, _tags=tags, **kw)
    out = np.asarray(out, dtype=float)
    exp_shape = full if stack else fshape
    require(out.shape == tuple(exp_shape), f"apply: output shape {out.shape} != {tuple(exp_shape)}", dict(tags, kind="shape"))
    out_f = out.reshape(full)
    n_ok = compare_masked(out_f, want, tol, chk, "apply_mean_norm_trend vs trend + D(mean + raw)", tags, rec, "pipeline_apply")
    # inverse
    back, _ = call(ntools.remove_trend_norm_mean, pos, np.array(out, copy=True), _tags=tags, **kw)
    back = np.asarray(back, dtype=float)
    require(back.shape == tuple(exp_shape), f"remove: output shape {back.shape}", dict(tags, kind="shape"))
    tolb = back_budget(ref, want, val, w, mean_f, trend_f, tol, chk)
    chk_b = chk & np.isfinite(tolb) & ~np.isnan(val)
    compare_masked(
        back.reshape(full), np.where(chk_b, raw, np.nan), np.where(chk_b, tolb, 1.0), chk_b,
        "remove_trend_norm_mean(apply_mean_norm_trend(raw)) vs raw", tags, rec, "pipeline_remove",
    )
    rec.nontrivial(bool(spec and not is_identity(spec) and (f_nonconst(case["mean"]) or f_nonconst(case["trend"])) and n_ok >= 2))


# ---------------------------------------------------------------------------
# pipeline through the field classes

PIPE_KINDS = ["field", "field", "srf", "srf_vector", "krige", "krige", "condsrf"]


@st.composite
def gen_pipe_field(draw, tier="quick"):
    kind = draw(st.sampled_from(PIPE_KINDS))
    if kind == "srf_vector":
        dim = draw(st.sampled_from([2, 3]))
    elif kind == "field":
        dim = draw(st.sampled_from([1, 2, 3]))
    else:
        dim = draw(st.sampled_from([1, 2, 2, 3]))
    vector = kind == "srf_vector" or (kind == "field" and dim > 1 and draw(st.booleans()))
    mesh = draw(st.sampled_from(["structured", "unstructured"]))
    spec = draw(norm_specs(well=True)) if draw(st.integers(0, 9)) else None
    if spec and spec["cls"] == "BoxCoxShift":
        spec["shift"] = float(draw(st.sampled_from([0.0, 0.5, -1.5, 3.0])))
    sp = spec or IDENT
    ref = mk_ref(sp)
    lo, hi = (R._f(b) for b in ref.out_range)
    if switch_range(sp):
        # image end at -+1/mu with |mu| <= 1e-8: out of reach of the data
        lo = -math.inf if abs(lo) >= 1e7 else lo
        hi = math.inf if abs(hi) >= 1e7 else hi
    # random parts are N(0, var): place the mean inside the image of the normalizer
    sd = draw(st.sampled_from([0.1, 0.3, 0.6]))
    if math.isfinite(lo) and math.isfinite(hi):
        base, sd = 0.5 * (lo + hi), min(sd, (hi - lo) / 10)
    elif math.isfinite(lo):
        base = lo + 0.5 + 3 * sd
    elif math.isfinite(hi):
        base = hi - 0.5 - 3 * sd
    else:
        base = draw(st.floats(-1.0, 1.0))
    mean = draw(fspecs(dim, vector, scale=0.1))
    # shift the mean function by the base level
    if mean is None:
        mean = {"k": "const", "v": base}
    elif mean["k"] == "const":
        mean["v"] += base
    elif mean["k"] == "vec":
        mean["v"] = [v + base for v in mean["v"]]
    elif mean["k"] == "poly":
        mean["c0"] += base
    else:
        for c in mean["comps"]:
            c["c0"] += base
    if base == 0.0 and draw(st.booleans()) and not math.isfinite(lo) and not math.isfinite(hi):
        mean = None
    trend = draw(fspecs(dim, vector))
    as_class = bool(
        spec and is_identity(spec) and spec["cls"] != "Manly" and spec["shift"] == 0.0 and draw(st.booleans())
    )
    case = {
        "kind": kind, "dim": dim, "mesh": mesh, "vector": vector, "norm": spec,
        # passing the class itself means default parameters (lmbda=1, shift=0)
        "norm_as": "class" if as_class else "instance",
        "mean": mean, "trend": trend,
        "pos": draw(positions(dim, mesh, n_max=6)),
        "seed": draw(st.integers(0, 2**31 - 1)),
        "var": sd * sd,
        "len_scale": draw(st.sampled_from([0.3, 1.0, 3.0])),
        "model": draw(st.sampled_from(["Gaussian", "Exponential"])),
    }
    if kind == "field":
        case["xs"] = [t_to_x(sp, t) for t in draw(st.lists(WELL_T, min_size=1, max_size=8))]
        case["marks"] = [list(m) for m in draw(
            st.lists(st.tuples(st.integers(0, 200), st.sampled_from(["nan", "out"])), min_size=0, max_size=2))]
    if kind in ("krige", "condsrf"):
        nc = draw(st.integers(1, 5))
        case["cond_pos"] = draw(gens.separated_points(dim, n_min=nc, n_max=nc, box=2.0, min_sep=0.4))
        case["cond_x"] = [t_to_x(sp, t) for t in draw(st.lists(WELL_T, min_size=nc, max_size=nc))]
        case["variant"] = draw(st.sampled_from(["simple", "ordinary"]))
        if case["variant"] == "ordinary":
            # Ordinary kriging takes no mean
            case["mean"] = None
        case["trend_late"] = draw(st.booleans())
    if kind in ("srf", "srf_vector") and draw(st.integers(0, 2)) == 0:
        # variance upscaling by element volumes (scalar or one volume per point): the raw field is the scaled random part
        case["upscale"] = {"how": draw(st.sampled_from(["scalar", "array"])) if kind == "srf" else "scalar", "v": draw(st.sampled_from([0.05, 1.0, 30.0]))}
    if dim > 1 and kind != "field" and draw(st.booleans()):
        # anisotropic, rotated model: mean / trend functions still see the given coordinates
        case["anis"] = [draw(st.sampled_from([0.3, 0.6, 2.0, 4.0])) for _ in range(dim - 1)]
        case["angles"] = [draw(st.sampled_from([0.4, 1.1, -0.8, 2.5])) for _ in range(dim * (dim - 1) // 2)]
    return case


def _mk_model(case):
    kw = {}
    if case.get("anis"):
        kw = {"anis": list(case["anis"]), "angles": list(case["angles"])}
    return getattr(gs, case["model"])(dim=case["dim"], var=case["var"], len_scale=case["len_scale"], **kw)


def _norm_arg(case):
    spec = case["norm"]
    if spec is None:
        return None
    if case.get("norm_as") == "class":
        return getattr(gs.normalizer, spec["cls"])
    return mk_norm(spec)


def _mk_krige(case):
    cp = [np.array(a, dtype=float) for a in case["cond_pos"]]
    ccoords = [np.asarray(a, dtype=float) for a in case["cond_pos"]]
    tr_c = eval_func_ref(case["trend"], ccoords, False, case["dim"])
    cond_val = np.array(case["cond_x"], dtype=float) + tr_c
    late = bool(case.get("trend_late")) and case["trend"] is not None
    tr_arg = mk_func(case["trend"]) if not late else None
    if case["variant"] == "simple":
        k = gs.krige.Simple(
            _mk_model(case), cp, cond_val.copy(), mean=mk_func(case["mean"]) if case["mean"] else 0.0,
            normalizer=_norm_arg(case), trend=tr_arg,
        )
    else:
        k = gs.krige.Ordinary(
            _mk_model(case), cp, cond_val.copy(), normalizer=_norm_arg(case), trend=tr_arg,
        )
    if late:
        # the trend is assigned to the existing object through its public property (the pipeline reads it at call time)
        k.trend = mk_func(case["trend"])
    return k, cond_val, tr_c, ccoords


def check_pipe_field(case, rec):
    kind, dim, mesh, vector = case["kind"], case["dim"], case["mesh"], case["vector"]
    spec = case["norm"]
    sp = spec or IDENT
    tags = spec_tags(sp, obj=kind, mesh=mesh, vector=vector, dim=dim)
    rec.label(kind, mesh, "vector" if vector else "scalar", sp["cls"] if spec else "None")
    if yj_band(sp) and _known("N3_yj_switch_width", case):
        rec.exclude("N3_yj_switch_width")
        return
    if case.get("norm_as") == "class" and spec is not None and spec["cls"] != "LogNormal":
        # a normalizer given as class: every object gets its own default instance - fitting or editing the normalizer of one
        # object must not change the pipeline of another
        ncls_ = getattr(gs.normalizer, spec["cls"])
        with common.quiet():
            fa = gs.field.Field(dim=1, normalizer=ncls_)
            l0 = float(fa.normalizer.lmbda)
            fb = gs.field.Field(dim=1, normalizer=ncls_)
            fb.normalizer.lmbda = l0 + 0.37
            kx = gs.krige.Ordinary(gs.Exponential(dim=1), [[0.0, 1.0, 2.5, 4.0, 6.0]], [1.2, 2.0, 1.5, 3.1, 2.2], normalizer=ncls_, fit_normalizer=True)
            fc = gs.field.Field(dim=1, normalizer=ncls_)
        rec.label("class_form_instances")
        require(float(fa.normalizer.lmbda) == l0 and float(fc.normalizer.lmbda) == l0 and fa.normalizer is not fb.normalizer and kx.normalizer is not fa.normalizer,
                f"{spec['cls']} given as class: lmbda of an untouched field is {float(fa.normalizer.lmbda)!r} / of a new one {float(fc.normalizer.lmbda)!r} after another "
                f"object's normalizer was edited / fitted (default {l0!r})", dict(tags, kind="shared_default_normalizer"))
    ref = mk_ref(sp)
    coords = coords_of(case["pos"], mesh, dim)
    sshape = np.shape(coords[0])
    fshape = ((dim,) + sshape) if vector else sshape
    mean_a = eval_func_ref(case["mean"], coords, vector, dim)
    trend_a = eval_func_ref(case["trend"], coords, vector, dim)
    pos = lib_pos(case["pos"], mesh, dim)
    mean_l, trend_l = mk_func(case["mean"]), mk_func(case["trend"])

    def run(post):
        """Fresh object per call: independent of caching and stored-array aliasing."""
        if kind == "field":
            f = gs.field.Field(
                dim=dim, value_type="vector" if vector else "scalar",
                mean=mean_l, normalizer=_norm_arg(case), trend=trend_l,
            )
            marks = [(int(a), str(b)) for a, b in case["marks"]]
            raw0 = target_raw(ref, sp, case["xs"], marks, fshape, mean_a)
            return f(pos, field=raw0.copy(), mesh_type=mesh, post_process=post), raw0
        if kind in ("srf", "srf_vector"):
            kw = {"generator": "VectorField"} if kind == "srf_vector" else {}
            ckw = {}
            up = case.get("upscale")
            if up:
                kw["upscaling"] = "coarse_graining"
                npts = int(np.prod(sshape))
                ckw["point_volumes"] = float(up["v"]) if up["how"] == "scalar" else float(up["v"]) * np.linspace(0.5, 2.0, npts)
            s = gs.SRF(
                _mk_model(case), mean=mean_l, normalizer=_norm_arg(case), trend=trend_l,
                seed=case["seed"], mode_no=24, **kw,
            )
            return s(pos, mesh_type=mesh, post_process=post, **ckw), None
        k, _cv, _tc, _cc = _mk_krige(case)
        if kind == "krige":
            return k(pos, mesh_type=mesh, post_process=post, return_var=False), None
        c = gs.CondSRF(k, mode_no=24)
        return c(pos, seed=case["seed"], mesh_type=mesh, post_process=post), None

    if case.get("upscale"):
        rec.label("variance_upscaling_" + case["upscale"]["how"])
    (raw, raw0), _ = call(run, False, _tags=tags, _what=f"{kind}(post_process=False)")
    raw = np.array(raw, dtype=float, copy=True)
    require(raw.shape == tuple(fshape), f"{kind}: raw field shape {raw.shape} != {tuple(fshape)}", dict(tags, kind="shape"))
    if raw0 is not None:
        ok, _e = common.close(raw, raw0, 0.0, 0.0)
        require(ok, "Field(field=raw, post_process=False) does not return raw", dict(tags, kind="raw_passthrough"))
    (out, _r0), _ = call(run, True, _tags=tags, _what=f"{kind}(post_process=True)")
    out = np.asarray(out, dtype=float)
    w, val, want, tol, chk = pipe_expect(ref, sp, case, rec, raw, mean_a, trend_a)
    n_ok = compare_masked(out, want, tol, chk, f"{kind}: output vs trend + D(mean + raw)", tags, rec, "pipeline_field")
    rec.label("has_nan_expected" if np.isnan(want[chk]).any() else "all_valid")

    # removing trend / normalisation (/ mean) and putting them back inverts: the identity applied as a processed transformation
    # returns the field (scalar and vector fields, with the mean kept or removed as well)
    if kind in ("srf", "srf_vector") and not case.get("upscale") and bool(np.all(np.isfinite(out))):
        def run_tf(keep):
            kwt = {"generator": "VectorField"} if kind == "srf_vector" else {}
            s_ = gs.SRF(_mk_model(case), mean=mean_l, normalizer=_norm_arg(case), trend=trend_l, seed=case["seed"], mode_no=24, **kwt)
            o1 = np.array(s_(pos, mesh_type=mesh), dtype=float, copy=True)
            o2 = gs.transform.apply_function(s_, lambda x: x, store="same", process=True, keep_mean=keep)
            return o1, np.asarray(o2, dtype=float)

        for keep in (True, False):
            (o1, o2), _ = call(run_tf, keep, _tags=tags, _what="transform.apply_function(identity, process=True)")
            rec.label("identity_transform_processed")
            fin = np.isfinite(o1) & np.isfinite(o2)
            scale_t = 1.0 + float(np.max(np.abs(o1[fin]), initial=0.0)) + float(np.max(np.abs(raw), initial=0.0))
            bad = (np.isfinite(o1) != np.isfinite(o2)) | (fin & (np.abs(np.where(fin, o2 - o1, 0.0)) > 1e-7 * scale_t))
            require(not bool(np.any(bad)),
                    f"{kind}: identity applied with process=True, keep_mean={keep} changes the field by up to {float(np.max(np.abs(np.where(fin, o2 - o1, 0.0)))):.3g} "
                    f"(removing and re-applying trend, normalizer{'' if keep else ' and mean'})",
                    dict(tags, kind="processed_identity_transform", keep_mean=keep))

    # kriging honours the conditions through normalizer, mean and trend
    if kind in ("krige", "condsrf"):
        k, cond_val, tr_c, ccoords = call(_mk_krige, case, _tags=tags)[0]
        cx = np.array(case["cond_x"], dtype=float)
        okc = all(ref.in_valid(float(v)) and not near_end(float(v), ref.in_range) for v in cx)
        if okc:
            mean_c = eval_func_ref(case["mean"], ccoords, False, dim)
            cpos = [np.array(a, dtype=float) for a in case["cond_pos"]]
            rawc, _ = call(lambda: k(cpos, post_process=False, return_var=False), _tags=tags, _what="krige(cond_pos)")
            # detrending in double: (x + t) - t
            det = cond_val - tr_c
            want_c = np.array([R._f(ref.T(float(v))) for v in det]) - mean_c
            kc = float(np.linalg.cond(k._krige_mat))
            scale = float(np.max(np.abs(want_c))) + 1.0
            tolc = max(1e-9, 1e-13 * kc) * scale + max(ref.tolT(float(v)) for v in det)
            err = float(np.max(np.abs(np.asarray(rawc) - want_c)))
            rec.discrepancy("krige_conditions", err, tolc)
            require(
                err <= tolc,
                f"kriging at the condition points (raw) = {np.asarray(rawc)!r}, expected "
                f"normalize(cond_val - trend) - mean = {want_c!r} (error {err:.3g} > {tolc:.3g})",
                dict(tags, kind="krige_conditions"),
            )
        # get_mean: documented as denormalize(estimated mean + field mean), trend neglected
        if case["mean"] is None or case["mean"]["k"] == "const":
            m0 = float(case["mean"]["v"]) if case["mean"] else 0.0
            gm_raw, _ = call(k.get_mean, post_process=False, _tags=tags)
            require(gm_raw is not None, "get_mean returns None for a constant mean", dict(tags, kind="get_mean"))
            wv = np.array([float(gm_raw) + m0])
            w0 = float(wv[0])
            scalar_bad = math.isfinite(w0) and (
                not ref.out_valid(w0) or near_end(w0, ref.out_range) or f2_region(sp, ref, w0)
            )
            gtags = dict(tags)
            if scalar_bad and sp["cls"] not in TWO_BRANCH:
                # denormalize of an out-of-range *scalar*: finding N1 (TypeError instead of NaN)
                if _known("N1_scalar_out_of_range", case):
                    rec.exclude("N1_scalar_out_of_range")
                    rec.nontrivial(False)
                    return
                gtags["finding"] = "N1_scalar_out_of_range"
            gm, _ = call(k.get_mean, _tags=gtags, _what="Krige.get_mean")
            require(gm is not None, "get_mean returns None for a constant mean", dict(tags, kind="get_mean"))
            gval, gtol, gchk = D_ref_array(ref, wv, sp, case, rec)
            compare_masked(
                np.array([float(gm)]), gval, gtol + 4 * EPS * np.abs(np.nan_to_num(gval)), gchk,
                "Krige.get_mean() vs D(get_mean(post_process=False) + mean)", tags, rec, "get_mean",
            )
    rec.nontrivial(bool(spec and not is_identity(spec) and (f_nonconst(case["mean"]) or f_nonconst(case["trend"])) and n_ok >= 2))


# ---------------------------------------------------------------------------


def _g(direction):
    return lambda tier: gen_maps(tier, direction=direction)


SUBS = [
    Sub("roundtrip", _g("fwd"), check_maps, quick=6000, thorough=90000, shards_quick=2, shards_thorough=4),
    Sub("inverse", _g("inv"), check_maps, quick=6000, thorough=90000, shards_quick=2, shards_thorough=4),
    Sub("monotone", gen_monotone, check_monotone, quick=2400, thorough=30000, shards_quick=1, shards_thorough=3),
    Sub("derivative", gen_derivative, check_derivative, quick=3000, thorough=48000, shards_quick=1, shards_thorough=3),
    Sub("loglik", gen_loglik, check_loglik, quick=2400, thorough=32000, shards_quick=2, shards_thorough=4),
    Sub("fit", gen_fit, check_fit, quick=600, thorough=10000, shards_quick=3, shards_thorough=6, shrink_quick=False),
    Sub("pipe_tools", gen_pipe_tools, check_pipe_tools, quick=2400, thorough=30000, shards_quick=2, shards_thorough=4),
    Sub("pipe_field", gen_pipe_field, check_pipe_field, quick=1500, thorough=24000, shards_quick=3, shards_thorough=6),
]

"""C03 - Model functions are mutually consistent and match their documented closed forms."""

import math

import numpy as np
from hypothesis import strategies as st

import common
from common import Sub, Violation, lib, require
import gens
from gens import build_model, logfloat
from oracles import closed_forms as cf
from oracles import geometry as geo

import gstools as gs

ID = "C03"
LEVEL = "exploration"
RULE = (
    "Hypothesis draws (class, dim 1-3 valid for the class, var / len_scale log-uniform "
    "[1e-2,1e3], nugget 0 or [1e-3,10], rescale default or [0.2,5], anisotropy, angles, "
    "optional arguments over their whole bounds with boundary values: Matern nu 20 -/+ ulp, "
    "Integral nu to 50 and next to even integers, TPL hurst/alpha with 2H/alpha next to an "
    "integer, len_low 0 / 1e-9 / >> len_scale) and a lag vector in units of len_scale/rescale "
    "(and of len_low, len_up for TPL): 0, 1e-12..1e-6, log grid 1e-4..1e3, denormal .. 1e-13, "
    "1e4..1e10, every piecewise boundary (support edge 1, exp_int switches x=30 and x=1e-20, "
    "isclose window 1e-8) -4..+4 ulps and * (1 +- 1e-3..1e-12). Oracles: mpmath closed forms "
    "(30 digits), independent rotation / chord geometry, tanh-sinh quadrature (quadosc for "
    "JBessel), bisection for the first percentile crossing, user classes built from one "
    "analytic correlation. Non-trivial: at least one lag strictly inside (0, support) or "
    "within 4 ulps of a piecewise boundary (integral / percentile scale: parameters not all "
    "default); distinct by hash of the case with floats rounded to 6 digits."
)
ASSUMPTIONS = [
    "mpmath besselk / besselj / hyp2f1 / expint / gamma / acos at 30 digits are exact for a 1e-9 comparison",
    "the class docstrings of models.py / tpl_models.py define the correlation functions; rescale divides "
    "len_scale, len_low and len_up alike (CovModel docstring: 'rescaling factor to divide the length scale with')",
    "mpmath tanh-sinh quadrature with its error estimate (< 1e-9 relative required, else the case is "
    "counted as oracle_inaccurate) integrates the documented correlation; JBessel head by quad, tail by quadosc",
    "all shipped correlations except JBessel are non-increasing in the lag, so the percentile crossing is unique",
    "the documented angle convention (C12) and chord = 2 R sin(zeta / 2R) (CovModel docstring, latlon)",
]

# ---------------------------------------------------------------------------
# Known findings.  Each switch excludes exactly the affected lags / parameter
# region (counted with rec.exclude) so that the search continues past it.  A
# case carrying "probe": true bypasses every exclusion, so the violation is
# raised with the distinctive tags {"kind": <key>} (for known-finding probes).
KNOWN = {
    # the documented argument (s r / len)^alpha underflows to exactly 0.0 in IEEE double
    # (lags below ~1e-162 len for alpha = 2): every double implementation of the
    # documented expression returns rho(0) there.  Matters only for Integral with
    # nu <~ 0.06 (1 - rho ~ h^nu > 1e-9 at such lags); not a finding, exact region.
    "arg_underflow": True,
    # tplstable_cor: lags with r/len <= isclose window (1e-8) are set to 0 ->
    # rho = 1, although 1-rho ~ (r/len)^(2H) is up to 2e-2 there (H = 0.1)
    # (fixed in /repo by c06ba1f: switch off, assertion live)
    "tpl_zero_window": False,
    # exp_int: x = h^2 <= 1e-20 is treated as 0 -> Integral rho = 1 although
    # 1-rho ~ Gamma(1-nu/2) h^nu (7e-2 for nu = 0.1 at h = 1e-10)
    # (fixed in /repo by 9ffec4f: switch off, assertion live)
    "integral_zero_window": False,
    # exp_int -> inc_gamma(1-s, x) * x^(s-1): x^(1-s) overflows for
    # Integral nu in (30.8, 50) and 1e-10 < h < 10^(-308/nu): NaN / inf
    # (fixed in /repo by c741d5e: switch off, assertion live)
    "integral_small_lag_nan": False,
    # Matern.cor: kv overflows / x^nu underflows for tiny lags, the product is
    # non-finite and the far-field clean-up sets it to 0 (true value 1)
    # (fixed in /repo by c741d5e: switch off, assertion live)
    "matern_tiny_lag_zero": False,
    # JBessel.cor: jv(nu, h) and (h/2)^nu underflow for nu >~ 38 and
    # 1e-8 < h <~ 1e-5: 0 or NaN instead of 1
    # (fixed in /repo by c741d5e: switch off, assertion live)
    "jbessel_small_lag_underflow": False,
    # exp_int / inc_gamma switch to the integer-order routines when the order
    # is within numpy.isclose (rtol 1e-5) of an integer: Integral nu = 2.00002
    # has rho(0) = 1.00001 and errors up to 1e-5 elsewhere
    "expint_near_integer_order": True,
    # TPL*: len_low / rescale <= 1e-8 (isclose) is treated as len_low = 0
    "tpl_len_low_isclose": True,
    # TPL* with len_low > 0: cor(h) ignores len_low, so
    # correlation(r) != cor(rescale r / len_scale)
    # (fixed in /repo by de8f756: switch off, assertion live)
    "tpl_cor_ignores_len_low": False,
    # K3: Matern nu > 20 returns the Gaussian limit, calc_integral_scale the
    # true Matern value (0.5 % apart)
    "K3_matern_gauss_integral_scale": True,
    # JBessel.integral_scale: QUADPACK over [0, inf) of an oscillating integrand
    # (43 % off for nu = 0.5, NaN for nu = 50), error estimate discarded
    # (fixed in /repo by bebccff: switch off, assertion live)
    "jbessel_integral_scale_quadpack": False,
    # default calc_integral_scale: QUADPACK over [0, inf) does not know the
    # support edge; kinked correlations (Linear-like edge) are off by > 1e-6
    "quad_kink_integral_scale": True,
    # K4: percentile_scale returns the unconverged iterate of scipy root
    # (fixed in /repo by 6518d71: switch off, assertion live)
    "K4_percentile_unconverged": False,
    # ... or the mirror image -x of the crossing (the curve is even in the lag
    # and root() is free to converge to the negative root)
    # (fixed in /repo by 6518d71: switch off, assertion live)
    "K4_percentile_negative_root": False,
    # ... or, for the hole model JBessel, a later crossing beyond the first minimum
    # (JBessel(dim=1, nu=2).percentile_scale(0.984375) = 10.54, first crossing 4.99)
    # (fixed in /repo by 6518d71: switch off, assertion live)
    "K4_percentile_later_crossing": False,
    # repaired percentile_scale: brentq from the bracket [0, 1e-3 per len] gives up after
    # 100 iterations when the first crossing lies below ~1e-30 len (near-nugget shapes):
    # Integral(dim=1, nu=0.005).percentile_scale(0.5) raises RuntimeError (crossing 4e-61)
    # (fixed in /repo by d0e5dfe: switch off, assertion live)
    "percentile_tiny_crossing_maxiter": False,
}


def _known(key, case):
    return KNOWN.get(key, False) and not case.get("probe")


def _finding(rec, case, key, msg, tags):
    """Report a deviation that belongs to a registered finding region.

    With the switch on the (sub-)assertion is counted as excluded, otherwise
    (or for probes) it is raised with tags carrying ``kind = key``.
    """
    if _known(key, case):
        rec.exclude(key)
        return
    t = dict(tags)
    t["kind"] = key
    raise Violation(msg, tags=t)


ISCLOSE_ATOL = 1e-8  # numpy.isclose(x, 0) window used all over the library
WIN = ISCLOSE_ATOL * (1 + 1e-6)
TPL = gens.TPL
DIM3_CLASSES = [c for c in gens.CLASSES if gens.max_valid_dim(c) >= 3]

# ---------------------------------------------------------------------------
# generators


def _nx(x, k):
    """k ulps away from x (k may be negative)."""
    x = float(x)
    if k == 0:
        return x
    return float(math.nextafter(x, math.inf if k > 0 else -math.inf, steps=abs(k)))


def _def_rescale(cls):
    return float(cf.default_rescale(cls))


def _eff_rescale(spec):
    return _def_rescale(spec["cls"]) if spec.get("rescale") is None else abs(float(spec["rescale"]))


def _full_opt(spec):
    return cf.full_opt(spec["cls"], spec["dim"], spec.get("opt", {}))


def _units(spec):
    """float length units: h -> len_scale/rescale, low, up."""
    s = _eff_rescale(spec)
    o = _full_opt(spec)
    ll = float(o.get("len_low", 0.0))
    return {
        "h": spec["len_scale"] / s,
        "low": ll / s,
        "up": (ll + spec["len_scale"]) / s,
    }


def _mode_alpha(cls, o):
    return 2.0 if cls == "TPLGaussian" else 1.0 if cls == "TPLExponential" else float(o["alpha"])


def _anchors(spec):
    """Piecewise boundaries of the implementation / the formula: (unit, value)."""
    cls = spec["cls"]
    o = _full_opt(spec)
    out = []
    if cls in gens.COMPACT:
        out.append(("h", 1.0))
    if cls == "Integral":
        out += [("h", math.sqrt(30.0)), ("h", 1e-10), ("h", math.sqrt(max(30.0, (1 + o["nu"] / 2) / 2)))]
    if cls == "JBessel":
        out.append(("h", 1e-8))
    if cls in TPL:
        a = _mode_alpha(cls, o)
        us = ["up"] + (["low"] if o["len_low"] > 0 else [])
        for u in us:
            out += [(u, 30.0 ** (1.0 / a)), (u, 1e-8), (u, 1e-20 ** (1.0 / a))]
    if not out:
        out.append(("h", 1.0))
    return out


@st.composite
def c03_opt(draw, cls, dim, accuracy):
    """Optional arguments over the whole documented bounds + boundary values."""
    opt = draw(gens.opt_args(cls, dim, mode="full"))
    special = draw(st.floats(0, 1)) < (0.6 if cls == "Matern" else 0.35)
    if special:
        delta = draw(st.sampled_from([1, -1])) * draw(logfloat(1e-12, 1e-4))
        if cls == "Matern":
            opt["nu"] = draw(
                st.sampled_from([20.0, 20.0, 20.0, _nx(20.0, 1), _nx(20.0, 1), _nx(20.0, -1), 19.999999, 20.000001, 21.0, 30.0, 0.2, 19.5])
            )
        elif cls == "Integral":
            k = draw(st.sampled_from([1, 1, 2, 3, 5, 12, 24]))
            opt["nu"] = draw(
                st.one_of(
                    st.just(2.0 * k * (1 + delta)),
                    st.sampled_from([50.0, 49.9, 42.5, 35.0, 31.0, 30.8, 30.0, 0.05, 0.5, 0.9, 2.0, 4.0]),
                )
            )
        elif cls == "TPLGaussian":
            opt["hurst"] = draw(st.sampled_from([0.99999, 0.999995, 1 - 1e-9, 0.1 + 1e-9, 0.5]))
            opt.setdefault("len_low", 0.0)
        elif cls == "TPLExponential":
            opt["hurst"] = draw(st.one_of(st.just(0.5 * (1 + delta)), st.sampled_from([0.5, 0.99999, 0.1 + 1e-9])))
            opt.setdefault("len_low", 0.0)
        elif cls == "TPLStable":
            hurst = opt.get("hurst", 0.5)
            k = draw(st.sampled_from([1, 1, 2, 3]))
            al = 2 * hurst / k * (1 + draw(st.sampled_from([0.0, 1.0])) * delta)
            if 0.0 < al <= 2.0:
                opt["hurst"] = hurst
                opt["alpha"] = al
            opt.setdefault("len_low", 0.0)
        if cls in TPL and draw(st.floats(0, 1)) < 0.4:
            opt["len_low"] = draw(
                st.sampled_from([1e-9, 5e-9, 1e-8, 2e-8, 1e-7, 1e-5, 1e3, 1e4])
            )
    if accuracy:
        if "alpha" in opt and cls in ("Stable", "TPLStable"):
            opt["alpha"] = max(opt["alpha"], 0.3)
        if cls == "JBessel" and "nu" in opt:
            opt["nu"] = max(opt["nu"], dim / 2 - 1 + 0.011)
    if cls == "TPLStable" and "alpha" in opt and "hurst" not in opt:
        opt["hurst"] = 0.5
    # exp(log(hi)) of the shared log-uniform strategy may exceed hi by an ulp
    for k, (lo, hi, lo_c, hi_c) in gens.opt_bounds(cls, dim).items():
        if k in opt:
            v = float(opt[k])
            if math.isfinite(hi):
                v = min(v, hi if hi_c else _nx(hi, -1))
            v = max(v, lo if lo_c else _nx(lo, 1))
            opt[k] = v
    return {k: float(v) for k, v in opt.items()}


@st.composite
def c03_specs(draw, accuracy=True, classes=None, dims=(1, 2, 3), aniso=True, nugget=True):
    spec = draw(
        gens.model_specs(
            classes=classes,
            dims=dims,
            mode="full",
            aniso=aniso,
            rotate=aniso,
            nugget=nugget,
            scale_range=(1e-2, 1e3),
            var_range=(1e-2, 1e3),
        )
    )
    spec["opt"] = draw(c03_opt(spec["cls"], spec["dim"], accuracy))
    if spec["cls"] == "Matern" and draw(st.integers(0, 5)) == 0:
        # orders next to the half-integers, where the Bessel form reduces to elementary functions (the closed form is smooth in nu)
        base_ = draw(st.sampled_from([0.5, 1.5, 2.5]))
        spec["opt"] = dict(spec["opt"], nu=float(base_ * (1.0 + draw(st.sampled_from([-8e-6, -3e-6, -1e-7, 0.0, 1e-7, 3e-6, 8e-6])))))
    return spec


EXTREME = [5e-324, 1e-310, 1e-300, 1e-200, 1e-100, 1e-50, 1e-30, 1e-20, 1e-16, 1e-15, 1e-14, 1e-13]
HUGE = [1e4, 1e6, 1e10]


@st.composite
def lag_lists(draw, spec, n_min=6, n_max=14, huge=True, negative=False):
    """List of [unit, value] lags; r = value * unit length (see _units)."""
    anchors = _anchors(spec)
    units = ["h"]
    if spec["cls"] in TPL and _full_opt(spec)["len_low"] > 0:
        units = ["h", "up", "low"]

    def around(a):
        u, v = a
        return st.one_of(
            st.integers(-4, 4).map(lambda k: [u, _nx(v, k)]),
            st.tuples(st.sampled_from([-1.0, 1.0]), st.integers(3, 12)).map(
                lambda t: [u, v * (1 + t[0] * 10.0 ** (-t[1]))]
            ),
        )

    choices = [
        st.just(["h", 0.0]),
        st.floats(-12, -6).map(lambda e: ["h", 10.0**e]),
        st.tuples(st.sampled_from(units), st.floats(-4, 3)).map(lambda t: [t[0], 10.0 ** t[1]]),
        st.tuples(st.sampled_from(units), st.floats(-4, 3)).map(lambda t: [t[0], 10.0 ** t[1]]),
        st.sampled_from(anchors).flatmap(around),
        st.sampled_from(anchors).flatmap(around),
        st.sampled_from(EXTREME).map(lambda v: ["h", v]),
    ]
    if huge and spec["cls"] != "JBessel":
        choices.append(st.sampled_from(HUGE).map(lambda v: ["h", v]))
    lags = draw(st.lists(st.one_of(*choices), min_size=n_min, max_size=n_max))
    # a fixed backbone so that every case has lags inside the support
    lags += [["h", 0.0], ["h", draw(st.floats(-4, 0).map(lambda e: 10.0**e))], ["h", draw(st.floats(0.05, 0.95))]]
    if negative:
        sg = draw(st.lists(st.sampled_from([1.0, 1.0, -1.0]), min_size=len(lags), max_size=len(lags)))
        lags = [[u, v * s] for (u, v), s in zip(lags, sg)]
    return [[u, float(v)] for u, v in lags]


def _lags_r(spec, lags):
    un = _units(spec)
    return np.array([float(v) * un[u] for u, v in lags], dtype=float)


def _h_of(spec, r):
    """Non-dimensional lag as a double (classification and messages only; the
    oracle forms it exactly from r, rescale and len_scale in mpmath)."""
    return np.abs(r) * _eff_rescale(spec) / spec["len_scale"]


def _near_boundary(spec, lags):
    anchors = _anchors(spec)
    for u, v in lags:
        for au, av in anchors:
            if u == au and abs(v) > 0 and abs(abs(v) - av) <= 4.5 * math.ulp(av):
                return True
    return False


def _nontrivial_lags(spec, lags):
    sup = cf.support(spec["cls"])
    r = _lags_r(spec, lags)
    h = _h_of(spec, r)
    inside = bool(np.any((h > 0) & (h < sup) & np.isfinite(h)))
    return inside or _near_boundary(spec, lags)


def _tags(spec, **more):
    t = gens.spec_tags(spec)
    t.update(more)
    return t


def _labels(rec, spec):
    rec.label(spec["cls"], f"dim{spec['dim']}")
    o = _full_opt(spec)
    if spec["cls"] == "Matern":
        rec.label("matern_nu>20" if o["nu"] > 20 else "matern_nu<=20")
    if spec["cls"] in TPL:
        rec.label("tpl_len_low>0" if o["len_low"] > 0 else "tpl_len_low=0")
    if spec.get("rescale") is not None:
        rec.label("rescale_given")
    if spec.get("nugget", 0.0) > 0:
        rec.label("nugget>0")


def _lag_labels(rec, spec, lags):
    if _near_boundary(spec, lags):
        rec.label("lag_within_4ulp_of_boundary")
    vals = [abs(v) for u, v in lags if u == "h"]
    if any(0 < v < 1e-12 for v in vals):
        rec.label("lag_below_1e-12")
    if any(v >= 1e4 for v in vals):
        rec.label("lag_far_tail")


# ---------------------------------------------------------------------------
# regions of registered findings (pure functions of spec and lag)


def _near_int(x, lo=-0.5):
    """numpy.isclose(x, round(x)) - the library's test for an integer order."""
    return bool(np.isclose(x, np.around(x))) and x > lo


def _expint_order(spec):
    cls = spec["cls"]
    o = _full_opt(spec)
    if cls == "Integral":
        return 1 + o["nu"] / 2
    if cls in TPL:
        return 1 + 2 * o["hurst"] / _mode_alpha(cls, o)
    return None


def _order_near_integer(spec):
    s = _expint_order(spec)
    if s is None:
        return False
    if float(s) == float(np.around(s)):
        return False  # exactly an integer: the integer routine is the right one
    # exp_int tests s, inc_gamma tests 1 - s (and 2 - s, ... in its recursion)
    return _near_int(s) or bool(np.isclose(1 - s, np.around(1 - s))) or bool(np.isclose(s, 1))


def _order_amp(spec):
    """Error amplification of exp_int for an order close to (not at) an integer:
    inc_gamma's recursion divides a cancelling difference by (order - integer)."""
    s = _expint_order(spec)
    if s is None:
        return 1.0
    d = abs(float(s) - float(np.around(s)))
    return 1.0 if d == 0.0 or d > 1e-2 else 1.0 / d


def _len_low_in_window(spec):
    if spec["cls"] not in TPL:
        return False
    ll = _units(spec)["low"]
    return 0.0 < ll <= WIN


def _lag_region(spec, r):
    """Key of the registered finding whose region contains lag r (or None)."""
    import mpmath as mp

    cls = spec["cls"]
    o = _full_opt(spec)
    r = abs(float(r))
    if r == 0.0 or not math.isfinite(r):
        return None
    un = _units(spec)
    h = r / un["h"]
    if cls == "Integral" and h * h == 0.0:
        # h**2 underflows to an exact zero in double precision: not a property of the library
        return "arg_underflow"
    if cls in TPL and (h ** min(o.get("alpha", 2.0) if cls == "TPLStable" else (2.0 if cls == "TPLGaussian" else 1.0), 2.0)) == 0.0:
        return "arg_underflow"
    if cls in TPL:
        if r / un["up"] <= WIN or r / un["h"] <= WIN:
            return "tpl_zero_window"
        if o["len_low"] > 0 and un["low"] > 0 and r / un["low"] <= WIN:
            return "tpl_zero_window"
    if cls == "Integral":
        s = 1 + o["nu"] / 2
        if h * h > 1e-20 * (1 - 1e-6) and not _near_int(s) and o["nu"] * math.log10(1.0 / h) >= 300.0:
            return "integral_small_lag_nan"
        if h * h <= 1e-20 * (1 + 1e-6):
            return "integral_zero_window"
    if cls == "Matern" and o["nu"] <= cf.MATERN_GAUSS_SWITCH:
        with mp.workdps(30):
            nu = mp.mpf(o["nu"])
            x = mp.sqrt(nu) * mp.mpf(h)
            if x < mp.mpf("2.3e-308"):  # sqrt(nu) * h is a denormal double
                return "matern_tiny_lag_zero"
            logterm = (1 - nu) * mp.log(2) - mp.loggamma(nu) + nu * mp.log(x)
            if logterm < -690 or mp.besselk(nu, x) > mp.mpf("1e300"):
                return "matern_tiny_lag_zero"
    if cls == "JBessel" and h > ISCLOSE_ATOL:
        with mp.workdps(30):
            nu = mp.mpf(o["nu"])
            if nu > 1:
                lead = nu * mp.log10(mp.mpf(h) / 2) - mp.log10(mp.gamma(nu + 1))
                if lead < -290:
                    return "jbessel_small_lag_underflow"
    return None


def _lag_excluded(spec, r, case):
    """Region key if lag r lies in a finding region whose switch is ON (else None)."""
    key = _lag_region(spec, r)
    return key if key is not None and _known(key, case) else None


# ---------------------------------------------------------------------------
# sub-check: closed forms


@st.composite
def gen_closed(draw, tier="quick"):
    spec = draw(c03_specs(accuracy=True, aniso=False))
    lags = draw(lag_lists(spec))
    # the same radial functions for the model's dimension when the last axis is time (dim = spatial_dim + 1) or when a
    # lat-lon model lives in 3-D (the documented closed forms take d = model.dim)
    how = draw(st.sampled_from(["plain"] * 5 + ["temporal", "latlon"]))
    if how == "temporal" and spec["dim"] >= 2:
        spec["temporal"], spec["spatial_dim"] = True, spec["dim"] - 1
    elif how == "latlon" and spec["dim"] == 3:
        spec["latlon"] = True
        spec.pop("anis", None)
        spec.pop("angles", None)
    case = {"spec": spec, "lags": lags}
    if spec.get("opt") and draw(st.integers(0, 3)) == 0:
        # the shape parameters are reached by assignment on a model that has been evaluated with other values before
        case["opt0"] = draw(gens.opt_args(spec["cls"], spec["dim"], mode="accuracy"))
    return case


def _tpl_amplification(spec):
    """Condition number of the documented len_low superposition (difference of
    two O(fu/(fu-fl)) terms)."""
    if spec["cls"] not in TPL:
        return 1.0
    o = _full_opt(spec)
    if o["len_low"] <= 0:
        return 1.0
    un = _units(spec)
    fu = un["up"] ** (2 * o["hurst"])
    fl = un["low"] ** (2 * o["hurst"])
    if fu <= fl:
        return math.inf
    return (fu + fl) / (fu - fl)


def check_closed(case, rec):
    spec = case["spec"]
    cls, dim = spec["cls"], spec["dim"]
    tags = _tags(spec, sub="closed_form")
    _labels(rec, spec)
    o = _full_opt(spec)
    if case.get("opt0"):
        m = None
        try:
            with common.quiet():
                m0 = build_model(dict(spec, opt=dict(spec["opt"], **{k: v for k, v in case["opt0"].items() if k in spec["opt"]})))
                m0.variogram(np.array([0.0, 0.3, 1.0]) * float(m0.len_scale))
                for k_, v_ in spec["opt"].items():
                    setattr(m0, k_, v_)
                m0.var = spec["var"]  # (stored raw for the TPL models: follows the shape parameters until it is assigned)
            m = m0
            rec.label("shape_parameters_assigned_on_used_model")
        except ValueError:
            m = None  # an intermediate state left the bounds: nothing to compare
    if not case.get("opt0") or m is None:
        m = lib(build_model, spec, _what="model construction", _tags=tags)
    var, nugget = spec["var"], spec.get("nugget", 0.0)
    sill = var + nugget
    r = _lags_r(spec, case["lags"])
    rec.nontrivial(_nontrivial_lags(spec, case["lags"]))
    _lag_labels(rec, spec, case["lags"])

    # parameter regions of registered findings: the whole comparison is void
    if _order_near_integer(spec):
        rec.label("order_near_integer")
        if _known("expint_near_integer_order", case):
            rec.exclude("expint_near_integer_order")
            return
        tags["kind"] = "expint_near_integer_order"
    elif _len_low_in_window(spec):
        rec.label("len_low_in_isclose_window")
        if _known("tpl_len_low_isclose", case):
            rec.exclude("tpl_len_low_isclose")
            return
        tags["kind"] = "tpl_len_low_isclose"

    # var_factor of the TPL models (documented sigma^2 / C)
    if cls in TPL:
        vf = cf.var_factor(cls, spec["len_scale"], spec.get("rescale"), o, dim)
        got = lib(lambda: m.var_raw * vf, _tags=tags)
        # lu^2H - ll^2H cancels: a few ulps amplified by (fu+fl)/(fu-fl)
        require(
            abs(got - var) <= (1e-12 + 2e-15 * _tpl_amplification(spec)) * var,
            f"{cls}: var_raw * documented var_factor = {got!r} != var {var!r}",
            dict(tags, fn="var_factor"),
        )

    keep = []
    for i, ri in enumerate(r):
        key = _lag_region(spec, ri)
        if key is not None:
            rec.label("lag_in_" + key)
            if _known(key, case):
                rec.exclude(key)
                continue
        keep.append(i)
    if not keep:
        return
    idx = np.array(keep, dtype=int)
    rk = r[idx]
    rho_o = np.array(cf.correlation(cls, dim, spec["len_scale"], spec.get("rescale"), o, rk))
    amp = _tpl_amplification(spec)
    # 1e-9 + 1e-9 |rho| (DESIGN); the len_low superposition is a difference of two
    # terms amplified by (fu+fl)/(fu-fl), each carrying a few ulps of special
    # function error: conditioning term 2e-14 * amplification
    # exp_int of an order s close to (outside the isclose window of) an integer n goes
    # through inc_gamma's recursion, which divides a cancelling difference by (s - n):
    # error measured <= 1.5e-15 / |s - n| (<= 7e-11 outside the window; budget
    # 5e-15 / |s - n|), again amplified by the superposition
    oamp = _order_amp(spec)
    tol = 1e-9 + 1e-9 * np.abs(rho_o) + (2e-14 * amp if amp > 1 else 0.0)
    if oamp > 1 and amp > 1:
        tol = tol + 5e-15 * oamp * amp
    rho_l = np.asarray(lib(m.correlation, rk, _tags=tags), dtype=float)
    cov_l = np.asarray(lib(m.covariance, rk, _tags=tags), dtype=float)
    var_l = np.asarray(lib(m.variogram, rk, _tags=tags), dtype=float)
    require(rho_l.shape == rk.shape, f"correlation returns shape {rho_l.shape} for input {rk.shape}", tags)

    def cmp(name, got, want, tol_, lag, sp):
        """got ~ want at the lags ``lag`` of the model described by ``sp``."""
        tol_ = np.broadcast_to(np.asarray(tol_, dtype=float), want.shape)
        bad = ~(np.abs(got - want) <= tol_)  # NaN counts as bad
        with np.errstate(all="ignore"):
            ratio = np.where(np.isfinite(got), np.abs(got - want) / tol_, np.inf)
        if np.all(np.isfinite(ratio)):
            rec.discrepancy(name, float(np.max(ratio)), 1.0)
        if bad.any():
            j = int(np.argmax(np.where(bad, ratio, -1)))
            x = float(lag[j])
            hx = float(_h_of(sp, x))
            t = dict(tags, fn=name, h=hx, r=x)
            key = _lag_region(sp, x)
            if key is not None:
                t["kind"] = key
            raise Violation(
                f"{cls}{spec.get('opt')} dim={dim} len_scale={sp['len_scale']!r} rescale={sp.get('rescale')!r}: "
                f"{name}({x!r}) = {float(got[j])!r}, documented closed form {float(want[j])!r} "
                f"(|diff| {abs(got[j] - want[j]):.3g}, tol {tol_[j]:.3g}, h = {hx!r})",
                tags=t,
            )

    cmp("correlation", rho_l, rho_o, tol, rk, spec)
    cmp("covariance", cov_l, var * rho_o, var * tol + 1e-12 * sill, rk, spec)
    cmp("variogram", var_l, var * (1 - rho_o) + nugget, var * tol + 1e-12 * sill, rk, spec)
    # cor(h): the documented function of the non-dimensional lag (len_low = 0 form
    # for the TPL models, whose cor is compared only when len_low = 0)
    if not (cls in TPL and o["len_low"] > 0):
        unit_spec = dict(spec, len_scale=1.0, rescale=1.0)
        hk = np.abs(r) * _eff_rescale(spec) / spec["len_scale"]
        sel = []
        for x in hk:
            key = _lag_region(unit_spec, x)
            sel.append(key is None or not _known(key, case))
        sel = np.array(sel, dtype=bool)
        if sel.any():
            hh = hk[sel]
            c_o = np.array(cf.cor(cls, dim, o, hh))
            c_l = np.asarray(lib(m.cor, hh, _tags=tags), dtype=float)
            cmp("cor", c_l, c_o, 1e-9 + 1e-9 * np.abs(c_o), hh, unit_spec)


# ---------------------------------------------------------------------------
# sub-check: identities


@st.composite
def gen_ident(draw, tier="quick"):
    latlon = draw(st.floats(0, 1)) < 0.2
    if latlon:
        spec = draw(c03_specs(accuracy=False, classes=DIM3_CLASSES, dims=(3,), aniso=False))
        spec["latlon"] = True
        spec["geo_scale"] = draw(st.sampled_from([1.0, gs.KM_SCALE, gs.DEGREE_SCALE, 2.5]))
        if spec["geo_scale"] != 1.0:
            # keep len_scale in a meaningful proportion of the sphere
            spec["len_scale"] = spec["len_scale"] if spec["len_scale"] < 10 else 10.0
    else:
        spec = draw(c03_specs(accuracy=False))
    lags = draw(lag_lists(spec, negative=True))
    dim = spec["dim"]
    case = {"spec": spec, "lags": lags}
    npos = draw(st.integers(1, 5))
    if latlon:
        case["zeta"] = draw(
            st.lists(
                st.one_of(st.floats(0, math.pi), st.sampled_from([0.0, math.pi, math.pi / 2, 1e-9, 1e-5])),
                min_size=npos,
                max_size=npos,
            )
        )
    else:
        case["pos"] = draw(
            st.lists(
                st.lists(st.one_of(st.floats(-3, 3), st.sampled_from([0.0, 1.0])), min_size=npos, max_size=npos),
                min_size=dim,
                max_size=dim,
            )
        )
        case["pos_scale"] = draw(logfloat(1e-3, 1e2))
        if dim > 1 and draw(st.booleans()):
            # after the first evaluation the per-axis scales / orientation are assigned anew on the same object
            case["respatial"] = {
                "how": draw(st.sampled_from(["len_list", "len_list", "int_list", "anis", "angles"])),
                "ratios": [draw(st.sampled_from([0.125, 0.3, 0.5, 2.0, 7.0])) for _ in range(dim - 1)],
                "ang": [draw(st.sampled_from([0.4, -1.1, 2.0])) for _ in range(dim * (dim - 1) // 2)],
            }
    case["int_lags"] = draw(st.lists(st.integers(-5, 50), min_size=1, max_size=5))
    return case


def _finite(name, arr, r, tags, spec=None):
    arr = np.asarray(arr, dtype=float)
    bad = ~np.isfinite(arr)
    if bad.any():
        j = int(np.argmax(bad))
        x = float(np.asarray(r, dtype=float).ravel()[j])
        key = _lag_region(spec, x) if spec is not None else None
        raise Violation(
            f"{tags.get('model')} {name} not finite: {name}({x!r}) = {float(arr.ravel()[j])!r}",
            tags=dict(tags, fn=name, kind=key or "nonfinite", r=x),
        )


def check_ident(case, rec):
    spec = case["spec"]
    cls, dim = spec["cls"], spec["dim"]
    tags = _tags(spec, sub="identities")
    _labels(rec, spec)
    if spec.get("latlon"):
        rec.label("latlon")
    m = lib(build_model, spec, _what="model construction", _tags=tags)
    o = _full_opt(spec)
    var, nugget = spec["var"], spec.get("nugget", 0.0)
    sill = var + nugget
    tol = 1e-12 * sill
    r_all = _lags_r(spec, case["lags"])
    rec.nontrivial(_nontrivial_lags(spec, case["lags"]))
    _lag_labels(rec, spec, case["lags"])
    # lags where the library returns NaN / 0 by a registered finding are
    # dropped from the finiteness requirement (and counted)
    keep = []
    for ri in r_all:
        key = _lag_region(spec, ri)
        if key in ("integral_small_lag_nan", "jbessel_small_lag_underflow") and _known(key, case):
            rec.exclude(key)
            continue
        keep.append(ri)
    r = np.array(keep, dtype=float)
    if r.size == 0:
        return
    fV, fC, fR = m.variogram, m.covariance, m.correlation
    V = np.asarray(lib(fV, r, _tags=tags), dtype=float)
    C = np.asarray(lib(fC, r, _tags=tags), dtype=float)
    R = np.asarray(lib(fR, r, _tags=tags), dtype=float)
    for nm, a in (("variogram", V), ("covariance", C), ("correlation", R)):
        require(a.shape == r.shape, f"{nm} returns shape {a.shape} for input shape {r.shape}", dict(tags, fn=nm))
        _finite(nm, a, r, tags, spec)

    def same(name, a, b, tol_=tol, rr=r, kind="identity"):
        a = np.asarray(a, dtype=float)
        b = np.asarray(b, dtype=float)
        require(a.shape == b.shape, f"{name}: shapes {a.shape} vs {b.shape}", dict(tags, fn=name, kind=kind))
        d = np.abs(a - b)
        d = np.where(np.isnan(d), np.inf, d)
        e = float(np.max(d)) if d.size else 0.0
        rec.discrepancy(name, e if math.isfinite(e) else 0.0, float(np.max(tol_)) if np.ndim(tol_) else tol_)
        if not np.all(d <= tol_):
            j = int(np.argmax(d - tol_)) if np.ndim(tol_) else int(np.argmax(d))
            raise Violation(
                f"{cls}{spec.get('opt')} dim={dim}: {name} broken at lag {np.asarray(rr).ravel()[j]!r}: "
                f"{a.ravel()[j]!r} vs {b.ravel()[j]!r} (|diff| {d.ravel()[j]:.3g})",
                tags=dict(tags, fn=name, kind=kind),
            )

    # the three defining identities
    same("variogram=var+nugget-covariance", V, var + nugget - C)
    same("covariance=var*correlation", C, var * R)
    # correlation(r) = cor(rescale * r / len_scale)
    # (h is formed as r / (len_scale / rescale): one ulp of h would otherwise be
    # amplified by the conditioning of the special functions, e.g. exp_int of an
    # order close to an integer, which is not what this identity is about)
    h = np.abs(r) / (spec["len_scale"] / _eff_rescale(spec))
    K = np.asarray(lib(m.cor, h, _tags=tags), dtype=float)
    if cls in TPL and o["len_low"] > 0 and not _len_low_in_window(spec) and not (
        _order_near_integer(spec) and _known("expint_near_integer_order", case)
    ):
        # (denormal lags: r / len underflows differently on the two paths, and (tiny)**alpha amplifies that for small alpha - IEEE, not the library)
        okl = (np.abs(r) == 0.0) | (np.abs(r) > 1e-290)
        d = float(np.max(np.abs(K - R)[okl])) if okl.any() else 0.0
        if d > 1e-9:
            _finding(
                rec,
                case,
                "tpl_cor_ignores_len_low",
                f"{cls}{spec.get('opt')}: correlation(r) != cor(rescale*r/len_scale) by {d:.3g} (cor ignores len_low)",
                dict(tags, fn="cor"),
            )
    else:
        jump = [(_lag_excluded(spec, x, case) in ("tpl_zero_window", "integral_zero_window")) for x in r]
        sel = ~np.array(jump, dtype=bool)
        if (~sel).any():
            rec.exclude("window_edge_cor_identity")
        same("correlation=cor(rescale*r/len_scale)", R[sel], K[sel], 1e-12, r[sel])
    # evenness
    same("variogram even", lib(fV, -r, _tags=tags), V)
    same("covariance even", lib(fC, -r, _tags=tags), C)
    same("correlation even", lib(fR, -r, _tags=tags), R)
    # scalar input (python float and numpy scalar) equals the array entry
    for j in sorted({0, len(r) // 2, len(r) - 1}):
        for conv, nm in ((float, "float"), (np.float64, "np.float64")):
            x = conv(r[j])
            for f, name, ref in ((fV, "variogram", V), (fC, "covariance", C), (fR, "correlation", R)):
                got = lib(f, x, _what=f"{name}({nm} scalar)", _tags=dict(tags, fn=name, kind="scalar_input"))
                got = np.asarray(got, dtype=float)
                require(
                    got.size == 1,
                    f"{name}({nm} scalar) returns {got.size} values",
                    dict(tags, fn=name, kind="scalar_input"),
                )
                same(f"{name} scalar", got.reshape(()), ref[j], rr=[x], kind="scalar_input")
    # 2-d array input keeps its shape
    if r.size >= 4:
        r2 = r[: (r.size // 2) * 2].reshape(2, -1)
        for f, name, ref in ((fV, "variogram", V), (fC, "covariance", C), (fR, "correlation", R)):
            got = np.asarray(lib(f, r2, _tags=dict(tags, fn=name, kind="array2d_input")), dtype=float)
            same(f"{name} 2d", got, ref[: r2.size].reshape(2, -1), rr=r2, kind="array2d_input")
    # integer dtype / python int
    ri = np.array(case["int_lags"], dtype=np.int64)
    rf = ri.astype(float)
    for f, name in ((fV, "variogram"), (fC, "covariance"), (fR, "correlation")):
        t_int = dict(tags, fn=name, kind="int_input")
        a_f = np.asarray(lib(f, rf, _tags=t_int), dtype=float)
        _finite(name, a_f, rf, tags)
        a_i = np.asarray(lib(f, ri, _what=f"{name}(int64 array)", _tags=t_int), dtype=float)
        same(f"{name} int64", a_i, a_f, rr=ri, kind="int_input")
        a_s = np.asarray(lib(f, int(ri[0]), _what=f"{name}(python int)", _tags=t_int), dtype=float)
        same(f"{name} python int", a_s.reshape(()), a_f[0], rr=[int(ri[0])], kind="int_input")
    # nugget-aware variants: differ from the plain ones only at r == 0
    ar = np.abs(r)
    zero = ar == 0.0
    # zero-lag window of the nugget-aware variants: 1e-8 * min(1, correlation length) since the repo fixes for small length units
    window = (ar > 0) & (ar <= WIN)
    if window.any():
        rec.exclude("isclose_window_nugget_variant")  # documented behaviour of cov_nugget
    reg = ~window
    Vn = np.asarray(lib(m.vario_nugget, r, _tags=tags), dtype=float)
    Cn = np.asarray(lib(m.cov_nugget, r, _tags=tags), dtype=float)
    same("vario_nugget", Vn[reg], np.where(zero, 0.0, V)[reg], rr=r[reg], kind="nugget_variant")
    same("cov_nugget", Cn[reg], np.where(zero, sill, C)[reg], rr=r[reg], kind="nugget_variant")
    if zero.any() and _order_near_integer(spec) and _known("expint_near_integer_order", case):
        rec.exclude("expint_near_integer_order")  # rho(0) = (s-1) E_round(s)(0) != 1
    elif zero.any():
        rec.label("lag0")
        kz = "expint_near_integer_order" if _order_near_integer(spec) else "at_zero"
        same("variogram(0)=nugget", V[zero], np.full(int(zero.sum()), nugget), rr=r[zero], kind=kz)
        same("covariance(0)=var", C[zero], np.full(int(zero.sum()), var), rr=r[zero], kind=kz)
        same("correlation(0)=1", R[zero], np.ones(int(zero.sum())), 1e-12, rr=r[zero], kind=kz)
    # per-axis variants
    anis_o = geo.pad_anis(dim, spec.get("anis", [1.0])) if dim > 1 else np.array([])
    if spec.get("latlon"):
        anis_o = np.ones(dim - 1)
    for ax in range(dim):
        fac = 1.0 if ax == 0 else float(anis_o[ax - 1])
        ra = np.abs(r) / fac
        oka = np.array(
            [
                not (
                    _lag_region(spec, x) in ("integral_small_lag_nan", "jbessel_small_lag_underflow")
                    and _known(_lag_region(spec, x), case)
                )
                for x in ra
            ],
            dtype=bool,
        )
        if not oka.all():
            rec.exclude("axis_lag_in_nan_region")
        if not oka.any():
            continue
        for f, g, name in (
            (m.vario_axis, fV, "vario_axis"),
            (m.cov_axis, fC, "cov_axis"),
            (m.cor_axis, fR, "cor_axis"),
        ):
            got = lib(f, r[oka], axis=ax, _tags=dict(tags, fn=name, kind="axis_variant"))
            want = lib(g, ra[oka], _tags=tags)
            tl = tol if name != "cor_axis" else 1e-12
            same(f"{name}({ax})", got, want, tl, rr=r[oka], kind="axis_variant")
    # spatial variants with the independent rotation / stretch
    if not spec.get("latlon"):
        pos = np.array(case["pos"], dtype=float).reshape(dim, -1) * case["pos_scale"] * spec["len_scale"]
        iso = geo.isometrize(dim, spec.get("angles", [0.0]), anis_o if dim > 1 else [1.0], pos)
        rad = np.linalg.norm(iso, axis=0)
        cond = (float(np.max(anis_o)) / float(np.min(anis_o))) if dim > 1 else 1.0
        hmax = float(np.max(rad)) * _eff_rescale(spec) / spec["len_scale"] if rad.size else 0.0
        # relative error of the radius ~ 1e-15 * cond; |h rho'(h)| <= 1 (sqrt(h) for JBessel)
        slope = max(1.0, math.sqrt(hmax)) if cls == "JBessel" else 1.0
        # jumps of registered findings would be hit only by chance: skip those lags
        ok = np.array([_lag_excluded(spec, x, case) is None for x in rad], dtype=bool)
        if ok.any():
            # + evaluation noise of exp_int next to an integer order (see _order_amp)
            tsp = 1e-12 + 1e-14 * cond * slope + 5e-15 * _order_amp(spec)
            for f, g, name, sc in (
                (m.vario_spatial, fV, "vario_spatial", var),
                (m.cov_spatial, fC, "cov_spatial", var),
                (m.cor_spatial, fR, "cor_spatial", 1.0),
            ):
                got = np.asarray(lib(f, pos, _tags=dict(tags, fn=name, kind="spatial_variant")), dtype=float)
                want = np.asarray(lib(g, rad, _tags=tags), dtype=float)
                require(got.shape == rad.shape, f"{name} returns shape {got.shape}", dict(tags, fn=name))
                same(name, got[ok], want[ok], tsp * (sc + (nugget if sc != 1.0 else 0.0)), rr=rad[ok], kind="spatial_variant")
            if dim > 1:
                rec.label("spatial_rotated" if any(abs(math.sin(2 * a)) > 1e-6 for a in spec.get("angles", [])) else "spatial_axis_aligned")
        rs = case.get("respatial")
        if rs and dim > 1:
            ratios = np.array(rs["ratios"], dtype=float)
            ang2 = list(spec.get("angles", [0.0] * len(rs["ang"])))
            anis2 = np.array(anis_o, dtype=float)
            how = rs["how"]
            try:
                with common.quiet():
                    if how == "len_list":
                        m.len_scale = [float(m.len_scale)] + [float(m.len_scale * q) for q in ratios]
                        anis2 = ratios
                    elif how == "int_list":
                        i0 = float(m.integral_scale)
                        if not (math.isfinite(i0) and i0 > 0):
                            raise ValueError("no integral scale")
                        m.integral_scale = [i0] + [float(i0 * q) for q in ratios]
                        anis2 = ratios
                    elif how == "anis":
                        m.anis = [float(q) for q in ratios]
                        anis2 = ratios
                    else:
                        m.angles = [float(a) for a in rs["ang"]]
                        ang2 = [float(a) for a in rs["ang"]]
            except ValueError:
                rec.exclude("respatial_assignment_rejected")
                how = None
            if how is not None:
                rec.label("respatial_" + how)
                spec2 = dict(spec, len_scale=float(m.len_scale), anis=[float(q) for q in anis2], angles=ang2)
                iso2 = geo.isometrize(dim, ang2, anis2, pos)
                rad2 = np.linalg.norm(iso2, axis=0)
                cond2 = float(np.max(anis2)) / float(np.min(anis2))
                hmax2 = float(np.max(rad2)) * _eff_rescale(spec2) / spec2["len_scale"] if rad2.size else 0.0
                slope2 = max(1.0, math.sqrt(hmax2)) if cls == "JBessel" else 1.0
                ok2 = np.array([_lag_excluded(spec2, x, case) is None for x in rad2], dtype=bool)
                if ok2.any():
                    tsp2 = 1e-12 + 1e-14 * cond2 * slope2 + 5e-15 * _order_amp(spec)
                    for f, g, name, sc in (
                        (m.vario_spatial, fV, "vario_spatial", var),
                        (m.cov_spatial, fC, "cov_spatial", var),
                        (m.cor_spatial, fR, "cor_spatial", 1.0),
                    ):
                        got = np.asarray(lib(f, pos, _tags=dict(tags, fn=name, kind="spatial_variant")), dtype=float)
                        want = np.asarray(lib(g, rad2, _tags=tags), dtype=float)
                        same(name + f" after assigning {how}", got[ok2], want[ok2], tsp2 * (sc + (nugget if sc != 1.0 else 0.0)), rr=rad2[ok2], kind="spatial_variant_after_update")
    else:
        R_geo = float(spec["geo_scale"])
        zeta = np.array(case["zeta"], dtype=float) * R_geo  # great-circle distance in geo units
        chord = R_geo * geo.chord_from_arc(zeta / R_geo)
        require(abs(m.geo_scale - R_geo) <= 0, "geo_scale not stored", tags)
        ok = np.array([_lag_excluded(spec, x, case) is None for x in chord], dtype=bool)
        if ok.any():
            for f, g, name, sc in (
                (m.vario_yadrenko, fV, "vario_yadrenko", sill),
                (m.cov_yadrenko, fC, "cov_yadrenko", sill),
                (m.cor_yadrenko, fR, "cor_yadrenko", 1.0),
            ):
                got = np.asarray(lib(f, zeta, _tags=dict(tags, fn=name, kind="yadrenko_variant")), dtype=float)
                want = np.asarray(lib(g, chord, _tags=tags), dtype=float)
                hmax = float(np.max(chord)) * _eff_rescale(spec) / spec["len_scale"]
                slope = max(1.0, math.sqrt(hmax)) if cls == "JBessel" else 1.0
                tya = (1e-12 * slope + 5e-15 * _order_amp(spec)) * sc
                same(name, got[ok], want[ok], tya, rr=zeta[ok], kind="yadrenko_variant")


# ---------------------------------------------------------------------------
# sub-check: user defined subclasses


@st.composite
def gen_user(draw, tier="quick"):
    dim = draw(st.sampled_from([1, 2, 3]))
    nang = dim * (dim - 1) // 2
    case = {
        "dim": dim,
        "w": draw(st.one_of(st.sampled_from([0.0, 1.0, 0.5]), st.floats(0, 1))),
        "a": draw(logfloat(0.2, 5.0)),
        "b": draw(logfloat(0.2, 5.0)),
        "var": draw(st.one_of(st.just(1.0), logfloat(1e-2, 1e3))),
        "len_scale": draw(st.one_of(st.just(1.0), logfloat(1e-2, 1e3))),
        "nugget": draw(st.one_of(st.just(0.0), logfloat(1e-3, 10.0))),
        "rescale": draw(st.one_of(st.none(), logfloat(0.2, 5.0))),
        "anis": draw(st.lists(logfloat(0.1, 10.0), min_size=dim - 1, max_size=dim - 1)),
        "angles": draw(st.lists(st.floats(-2 * math.pi, 2 * math.pi), min_size=nang, max_size=nang)),
        "h": draw(
            st.lists(
                st.one_of(
                    st.just(0.0),
                    st.floats(-12, -6).map(lambda e: 10.0**e),
                    st.floats(-4, 3).map(lambda e: 10.0**e),
                    st.floats(-3, 3),
                ),
                min_size=3,
                max_size=10,
            )
        )
        + [0.0, 0.5],
        "per": draw(st.floats(0.05, 0.95)),
    }
    npos = draw(st.integers(1, 4))
    case["pos"] = draw(
        st.lists(st.lists(st.floats(-3, 3), min_size=npos, max_size=npos), min_size=dim, max_size=dim)
    )
    return case


def _user_f(case):
    w, a, b = case["w"], case["a"], case["b"]

    def f(h):
        h = np.abs(np.asarray(h, dtype=np.double))
        return w * np.exp(-((a * h) ** 2)) + (1.0 - w) / (1.0 + (b * h) ** 2)

    return f


def _user_classes(f):
    class ViaCor(gs.CovModel):
        def cor(self, h):
            return f(h)

    class ViaCorrelation(gs.CovModel):
        def correlation(self, r):
            return f(np.asarray(r, dtype=np.double) / self.len_rescaled)

    class ViaCovariance(gs.CovModel):
        def covariance(self, r):
            return self.var * f(np.asarray(r, dtype=np.double) / self.len_rescaled)

    class ViaVariogram(gs.CovModel):
        def variogram(self, r):
            return self.var * (1.0 - f(np.asarray(r, dtype=np.double) / self.len_rescaled)) + self.nugget

    return [ViaCor, ViaCorrelation, ViaCovariance, ViaVariogram]


def check_user(case, rec):
    dim = case["dim"]
    tags = {"model": "user", "dim": dim, "sub": "user_subclass"}
    f = _user_f(case)
    classes = lib(_user_classes, f, _what="class definition", _tags=tags)
    kw = dict(dim=dim, var=case["var"], len_scale=case["len_scale"], nugget=case["nugget"], rescale=case["rescale"])
    if dim > 1:
        kw["anis"] = case["anis"]
        kw["angles"] = case["angles"]
    models = [lib(c, _what=f"{c.__name__} construction", _tags=dict(tags, via=c.__name__), **kw) for c in classes]
    var, nugget, ls = case["var"], case["nugget"], case["len_scale"]
    s = 1.0 if case["rescale"] is None else case["rescale"]
    sill = var + nugget
    h = np.array(case["h"], dtype=float)
    r = h * ls / s
    rho = f(np.abs(r) * s / ls)
    rec.label(f"dim{dim}")
    rec.nontrivial(bool(np.any(np.abs(h) > 0)))
    # a correlation derived from a variogram carries eps * sill / var
    tol_rho = 1e-12 * sill / var
    anis_o = np.array(case["anis"], dtype=float)
    pos = np.array(case["pos"], dtype=float).reshape(dim, -1) * ls
    rad = np.linalg.norm(geo.isometrize(dim, case["angles"] or [0.0], anis_o if dim > 1 else [1.0], pos), axis=0)
    rho_sp = f(rad * s / ls)
    cond = (float(np.max(anis_o)) / float(np.min(anis_o))) if dim > 1 else 1.0
    for mdl, c in zip(models, classes):
        via = c.__name__
        t = dict(tags, via=via)
        rec.label(via)

        def chk(name, got, want, tol_):
            got = np.asarray(got, dtype=float)
            require(got.shape == np.shape(want), f"{via}.{name}: shape {got.shape}", dict(t, fn=name))
            e = float(np.max(np.abs(got - want))) if got.size else 0.0
            rec.discrepancy(name, e if math.isfinite(e) else 0.0, tol_)
            require(
                e <= tol_,
                f"user model defined via {via[3:].lower()}: {name} deviates from the defining correlation by {e:.3g} "
                f"(tol {tol_:.3g}; var={var!r}, nugget={nugget!r}, len_scale={ls!r}, rescale={case['rescale']!r})",
                dict(t, fn=name, kind="user_subclass"),
            )

        chk("correlation", lib(mdl.correlation, r, _tags=t), rho, tol_rho)
        chk("covariance", lib(mdl.covariance, r, _tags=t), var * rho, 1e-12 * sill)
        chk("variogram", lib(mdl.variogram, r, _tags=t), var * (1 - rho) + nugget, 1e-12 * sill)
        chk("cor", lib(mdl.cor, np.abs(h), _tags=t), rho, tol_rho + 1e-13 * float(np.max(np.abs(h))))
        zero = r == 0
        win = (np.abs(r) > 0) & (np.abs(r) <= WIN)
        reg = ~win
        chk("cov_nugget", np.asarray(lib(mdl.cov_nugget, r, _tags=t))[reg], np.where(zero, sill, var * rho)[reg], 1e-12 * sill)
        chk("vario_nugget", np.asarray(lib(mdl.vario_nugget, r, _tags=t))[reg], np.where(zero, 0.0, var * (1 - rho) + nugget)[reg], 1e-12 * sill)
        for ax in range(dim):
            fac = 1.0 if ax == 0 else float(anis_o[ax - 1])
            rho_ax = f(np.abs(r) / fac * s / ls)
            chk(f"cov_axis({ax})", lib(mdl.cov_axis, r, axis=ax, _tags=t), var * rho_ax, 1e-12 * sill)
            chk(f"vario_axis({ax})", lib(mdl.vario_axis, r, axis=ax, _tags=t), var * (1 - rho_ax) + nugget, 1e-12 * sill)
            chk(f"cor_axis({ax})", lib(mdl.cor_axis, r, axis=ax, _tags=t), rho_ax, tol_rho)
        tsp = 1e-12 * sill + 1e-14 * cond * var
        chk("cov_spatial", lib(mdl.cov_spatial, pos, _tags=t), var * rho_sp, tsp)
        chk("vario_spatial", lib(mdl.vario_spatial, pos, _tags=t), var * (1 - rho_sp) + nugget, tsp)
        chk("cor_spatial", lib(mdl.cor_spatial, pos, _tags=t), rho_sp, tol_rho + 1e-14 * cond)
    # integral scale: analytic integral of the defining correlation.  The default
    # implementation is QUADPACK (epsabs = epsrel = 1.5e-8) on a smooth integrand
    # with an algebraic tail: budget 1e-6 (DESIGN).
    w, a, b = case["w"], case["a"], case["b"]
    want = (w * math.sqrt(math.pi) / (2 * a) + (1 - w) * math.pi / (2 * b)) * ls / s
    for mdl, c in zip(models, classes):
        t = dict(tags, via=c.__name__, fn="integral_scale")
        got = float(lib(lambda: mdl.integral_scale, _what="integral_scale", _tags=t))
        e = abs(got - want) / want
        rec.discrepancy("integral_scale", e, 1e-6)
        require(
            e <= 1e-6,
            f"user model via {c.__name__}: integral_scale {got!r} vs analytic {want!r} (rel {e:.3g})",
            dict(t, kind="user_subclass"),
        )
    # percentile scale: all four agree with the bisected crossing of the defining function
    per = case["per"]
    lo, hi = 0.0, 1.0
    while 1 - float(f(hi)) < per:
        hi *= 2
    for _ in range(200):
        mid = 0.5 * (lo + hi)
        if 1 - float(f(mid)) >= per:
            hi = mid
        else:
            lo = mid
    want = hi * ls / s
    for mdl, c in zip(models, classes):
        t = dict(tags, via=c.__name__, fn="percentile_scale", per=per)
        got = float(lib(mdl.percentile_scale, per, _what="percentile_scale", _tags=t))
        res = abs(1 - float(f(abs(got) * s / ls)) - per)
        if not (got > 0 and math.isfinite(got) and res <= 1e-6):
            _finding(
                rec,
                case,
                "K4_percentile_unconverged",
                f"user model via {c.__name__}: percentile_scale({per!r}) = {got!r}, first crossing {want!r} (residual {res:.3g})",
                t,
            )
            continue
        rec.discrepancy("percentile_residual", res, 1e-6)


# ---------------------------------------------------------------------------
# sub-check: integral scale

QUAD_CLOSED = ("Gaussian", "Exponential", "Stable", "Matern", "Integral", "Rational")


@st.composite
def gen_intscale(draw, tier="quick"):
    spec = draw(c03_specs(accuracy=True, nugget=False))
    o = _full_opt(spec)
    # keep the oracle quadrature affordable / well conditioned
    if spec["cls"] == "JBessel" and o["nu"] < spec["dim"] / 2 - 1 + 0.5 + 0.011:
        # nu <= -0.5 + ... : the integral converges only conditionally or not at all
        spec["opt"]["nu"] = max(o["nu"], 0.0)
    mode = draw(st.sampled_from(["get", "get", "set_scalar", "set_list"]))
    # any unit of length: the scales are proportional to len_scale over 18 decades
    e10 = draw(st.sampled_from([0, 0, 0, -9, -6, -3, 3, 6, 9]))
    spec["len_scale"] = float(spec["len_scale"] * 10.0**e10)
    if "len_low" in spec.get("opt", {}):
        spec["opt"]["len_low"] = float(spec["opt"]["len_low"] * 10.0**e10)
    case = {"spec": spec, "mode": mode, "target": draw(logfloat(1e-2, 1e3)) * 10.0**e10}
    # a second set of shape parameters, assigned in place after the integral scale was read once
    opt2 = draw(gens.opt_args(spec["cls"], spec["dim"], mode="accuracy"))
    if spec["cls"] == "JBessel" and "nu" in opt2:
        opt2["nu"] = max(opt2["nu"], spec["dim"] / 2 - 1 + 0.52)
    case["opt2"] = opt2
    if mode == "set_list":
        d = spec["dim"]
        k = draw(st.integers(1, d))
        case["target_list"] = draw(st.lists(logfloat(1e-1, 1e2), min_size=k, max_size=k))
    return case


def _reread_after_inplace(m, spec, case, rec, tags):
    """The reported integral scale is the integral of the *current* correlation: after shape parameters were assigned in
    place it must be what a freshly built model with the same state reports (nothing remembered from an earlier read)."""
    opt2 = case.get("opt2") or {}
    if not opt2 or all(float(getattr(m, k)) == float(v) for k, v in opt2.items()):
        return
    with common.quiet():
        try:
            float(m.integral_scale)  # a read before the change
            for k, v in opt2.items():
                setattr(m, k, v)
        except ValueError:
            rec.label("inplace_change_rejected")
            return
        s2 = dict(spec, len_scale=float(m.len_scale), opt=dict(spec.get("opt", {}), **{k: float(getattr(m, k)) for k in opt2}))
        s2.pop("integral_scale", None)
        if spec["dim"] > 1:
            s2["anis"] = [float(a) for a in m.anis]
        try:
            fresh = build_model(s2)
        except ValueError:
            rec.label("inplace_state_not_constructible")
            return
        a = float(lib(lambda: m.integral_scale, _what="integral_scale after in-place change", _tags=tags))
        b = float(fresh.integral_scale)
    rec.label("reread_after_inplace_change")
    ok = (a == b) or (math.isnan(a) and math.isnan(b)) or abs(a - b) <= 1e-9 * abs(b)
    require(
        ok,
        f"{spec['cls']} dim={spec['dim']}: after assigning {opt2} in place integral_scale = {a!r}, a freshly built model with the same state reports {b!r}",
        dict(tags, kind="integral_scale_stale_after_inplace_change"),
    )


def _int_oracle(spec, len_scale):
    return cf.integral_scale(spec["cls"], spec["dim"], len_scale, spec.get("rescale"), _full_opt(spec), dps=18)


def _kinked(spec):
    """Correlation with a slope discontinuity at the support edge."""
    cls = spec["cls"]
    o = _full_opt(spec)
    if cls == "Linear":
        return True
    if cls == "HyperSpherical":
        return spec["dim"] == 1
    if cls == "SuperSpherical":
        return o["nu"] < 1.0
    if cls == "TPLSimple":
        return o["nu"] < 2.0
    return False


LIB_RTOL = 1e-3  # integral_scale setter: "could not be set correctly" beyond this


def _int_tolerance(spec):
    """(tolerance, why).  Closed-form overrides: rounding.  Default QUADPACK
    integral (epsabs = epsrel = 1.5e-8 requested): 1e-6 (DESIGN budget)."""
    if spec["cls"] in QUAD_CLOSED:
        return 1e-9
    # observed on the unchanged tree: <= 7e-9 for light tails, 1.02e-6 for the slowest admissible power-law decay
    # (TPLExponential, hurst -> 0.1); the quadrature's own error estimate is discarded by the library
    return 3e-6


def check_intscale(case, rec):
    spec = case["spec"]
    cls, dim = spec["cls"], spec["dim"]
    tags = _tags(spec, sub="integral_scale", mode=case["mode"])
    _labels(rec, spec)
    rec.label(case["mode"])
    o = _full_opt(spec)
    rec.nontrivial(not gens.spec_is_default(spec) or case["mode"] != "get")
    if _order_near_integer(spec) and _known("expint_near_integer_order", case):
        rec.exclude("expint_near_integer_order")
        return
    if _len_low_in_window(spec) and _known("tpl_len_low_isclose", case):
        rec.exclude("tpl_len_low_isclose")
        return
    if not cf.integral_scale_finite(cls, dim, o):
        rec.label("integral_diverges")
        m = lib(build_model, spec, _tags=tags)
        got = float(lib(lambda: m.integral_scale, _tags=tags))
        require(
            not math.isfinite(got) or got > 1e6 * spec["len_scale"],
            f"{cls}{spec.get('opt')}: integral of the correlation diverges, integral_scale = {got!r}",
            dict(tags, kind="integral_diverges"),
        )
        return
    tol = _int_tolerance(spec)
    region = None
    if cls == "Matern" and o["nu"] > cf.MATERN_GAUSS_SWITCH:
        region = "K3_matern_gauss_integral_scale"
    elif cls == "JBessel":
        region = "jbessel_integral_scale_quadpack"
    elif cls in gens.COMPACT:
        region = "quad_kink_integral_scale"
        rec.label("kinked_edge" if _kinked(spec) else "smooth_edge")
    elif cls in ("Stable", "TPLStable") and o["alpha"] <= 0.35:
        # the same default QUADPACK integral (error estimate discarded) on stretched-exponential tails next to the lower end of alpha:
        # 7e-5 relative observed for TPLStable(alpha=0.3, hurst=0.22, len_low=1e4 len_scale); same finding, same 1e-3 bound
        region = "quad_kink_integral_scale"
        rec.label("stretched_exponential_tail")
    if cls == "Rational" and o["alpha"] < 0.75:
        rec.label("rational_heavy_tail")

    def compare(m, len_scale, what):
        want, est = _int_oracle(spec, len_scale)
        if not (est <= 1e-9 * abs(want)):
            rec.exclude("oracle_inaccurate")
            return None
        ana = cf.integral_scale_analytic(cls, dim, len_scale, spec.get("rescale"), o)
        if ana is not None:
            require(abs(ana - want) <= 1e-8 * abs(want), f"oracle self-check: quadrature {want!r} vs textbook {ana!r}", dict(tags, kind="oracle"))
        got = float(lib(lambda: m.integral_scale, _what="integral_scale", _tags=tags))
        e = abs(got - want) / abs(want) if math.isfinite(got) else math.inf
        tol_ = tol
        if region is not None and _known(region, case):
            rec.exclude(region)
            if region != "quad_kink_integral_scale":
                return want  # K3 / JBessel: off by more than any budget
            # compact support: still held to the library's own acceptance
            # threshold for an integral scale (rtol 1e-3 in the setter)
            tol_ = LIB_RTOL
            rec.discrepancy("integral_scale_compact_vs_1e-6", e if math.isfinite(e) else 0.0, 1e-6)
        else:
            rec.discrepancy("integral_scale", e if math.isfinite(e) else 0.0, tol_)
        if not e <= tol_:
            t = dict(tags, fn="integral_scale", rel_err=float(e) if math.isfinite(e) else 1e300)
            if region is not None:
                t["kind"] = region
            raise Violation(
                f"{cls}{spec.get('opt')} dim={dim} len_scale={len_scale!r} rescale={spec.get('rescale')!r}: {what} "
                f"integral_scale = {got!r}, integral of the documented correlation = {want!r} (rel {e:.3g}, tol {tol_:.1g})",
                tags=t,
            )
        return want

    if case["mode"] == "get":
        m = lib(build_model, spec, _tags=tags)
        compare(m, spec["len_scale"], "reported")
        anis_o = geo.pad_anis(dim, spec.get("anis", [1.0])) if dim > 1 else np.array([])
        if region is None or not _known(region, case) or region == "quad_kink_integral_scale":
            isv = np.asarray(lib(lambda: m.integral_scale_vec, _tags=tags), dtype=float)
            base = float(m.integral_scale)
            want = base * np.concatenate(([1.0], anis_o))
            require(
                isv.shape == (dim,) and np.allclose(isv, want, rtol=1e-12, atol=0),
                f"integral_scale_vec {isv} != integral_scale * [1, anis] {want}",
                dict(tags, fn="integral_scale_vec"),
            )
        lsv = np.asarray(lib(lambda: m.len_scale_vec, _tags=tags), dtype=float)
        want = spec["len_scale"] * np.concatenate(([1.0], anis_o))
        require(
            np.allclose(lsv, want, rtol=1e-13, atol=0),
            f"len_scale_vec {lsv} != len_scale * [1, anis] {want}",
            dict(tags, fn="len_scale_vec"),
        )
        _reread_after_inplace(m, spec, case, rec, tags)
        return
    # prescribe the integral scale in the constructor
    s2 = dict(spec)
    s2.pop("len_scale", None)
    if case["mode"] == "set_scalar":
        target = float(case["target"])
        s2["integral_scale"] = target
        anis_want = geo.pad_anis(dim, spec.get("anis", [1.0])) if dim > 1 else np.array([])
        main = target
    else:
        tl = [float(v) for v in case["target_list"]]
        s2["integral_scale"] = tl if len(tl) > 1 else tl[0]
        full = tl[:dim] + [tl[-1]] * (dim - len(tl))
        main = full[0]
        if len(tl) > 1:
            anis_want = np.array(full[1:]) / main
        else:
            anis_want = geo.pad_anis(dim, spec.get("anis", [1.0])) if dim > 1 else np.array([])
    tpl_low = cls in TPL and o["len_low"] > 0
    try:
        with common.quiet():
            m = build_model(s2)
    except ValueError as exc:
        if tpl_low:
            rec.label("set_rejected_tpl_len_low")  # documented ValueError, accepted
            return
        if region is not None and region != "quad_kink_integral_scale" and _known(region, case):
            rec.exclude(region)
            return
        raise Violation(
            f"{cls}{spec.get('opt')} dim={dim}: Model(integral_scale={s2['integral_scale']!r}) raised ValueError: {exc}",
            tags=dict(tags, kind=region or "integral_scale_set_rejected", exc="ValueError"),
        ) from exc
    except Exception as exc:  # noqa: BLE001
        raise Violation(
            f"{cls}: Model(integral_scale=...) raised {type(exc).__name__}: {exc}",
            tags=dict(tags, kind="exception", exc=type(exc).__name__),
        ) from exc
    rec.label("set_accepted")
    kset = region or "integral_scale_set"
    compact_known = False
    if region is not None and _known(region, case):
        rec.exclude(region)
        if region != "quad_kink_integral_scale":
            return
        compact_known = True
    got = float(lib(lambda: m.integral_scale, _tags=tags))
    # the library's documented acceptance (else ValueError) is rtol 1e-3; where the
    # integral scale is proportional to len_scale the constructor is exact up to
    # the accuracy of the getter
    tset = LIB_RTOL if (tpl_low or compact_known) else max(tol, 1e-9)
    e = abs(got - main) / main
    rec.discrepancy("integral_scale_set", e, tset)
    require(
        e <= tset,
        f"{cls}{spec.get('opt')}: Model(integral_scale={main!r}).integral_scale = {got!r} (rel {e:.3g})",
        dict(tags, kind=kset),
    )
    # ... and the model it produced really has that integral scale (oracle)
    ls_new = float(m.len_scale)
    require(ls_new > 0 and math.isfinite(ls_new), f"len_scale after integral_scale=: {ls_new!r}", tags)
    want, est = _int_oracle(spec, ls_new)
    if est <= 1e-9 * abs(want):
        e = abs(want - main) / main
        rec.discrepancy("integral_scale_set_oracle", e, tset)
        require(
            e <= tset,
            f"{cls}{spec.get('opt')}: Model(integral_scale={main!r}) has len_scale {ls_new!r} whose documented "
            f"correlation integrates to {want!r} (rel {e:.3g})",
            dict(tags, kind=kset),
        )
    else:
        rec.exclude("oracle_inaccurate")
    if dim > 1:
        require(
            np.allclose(m.anis, anis_want, rtol=1e-12, atol=0),
            f"anis after integral_scale={s2['integral_scale']!r}: {m.anis} (expected {anis_want})",
            dict(tags, kind=kset, fn="anis"),
        )
    vec = np.concatenate(([1.0], anis_want))
    isv = np.asarray(lib(lambda: m.integral_scale_vec, _tags=tags), dtype=float)
    require(
        np.allclose(isv, main * vec, rtol=tset, atol=0),
        f"integral_scale_vec {isv} != prescribed {main * vec}",
        dict(tags, kind=kset, fn="integral_scale_vec"),
    )
    lsv = np.asarray(lib(lambda: m.len_scale_vec, _tags=tags), dtype=float)
    require(
        np.allclose(lsv, ls_new * vec, rtol=1e-12, atol=0),
        f"len_scale_vec {lsv} != len_scale * [1, anis] {ls_new * vec}",
        dict(tags, kind=kset, fn="len_scale_vec"),
    )
    # "instead of the length scale": every other parameter stays as requested, i.e. the model is the one built
    # with the resulting length scale (var is stored divided by a len_scale dependent factor for the TPL models)
    for name in ("var", "nugget"):
        gotp = float(lib(lambda: getattr(m, name), _tags=tags))
        wantp = float(spec.get(name, 1.0 if name == "var" else 0.0))
        require(
            abs(gotp - wantp) <= 1e-12 * max(abs(wantp), 1e-300) if wantp else gotp == 0.0,
            f"{cls}{spec.get('opt')} dim={dim}: Model({name}={wantp!r}, integral_scale={s2['integral_scale']!r}).{name} = {gotp!r}",
            dict(tags, kind="integral_scale_ctor_changes_" + name),
        )
    s3 = dict(spec, len_scale=ls_new)
    if dim > 1:
        s3["anis"] = [float(a) for a in anis_want]
    with common.quiet():
        m3 = build_model(s3)
    h = ls_new * np.array([0.0, 0.1, 0.5, 1.0, 3.0])
    v2 = np.asarray(lib(m.variogram, h, _what="variogram", _tags=tags), dtype=float)
    v3 = np.asarray(m3.variogram(h), dtype=float)
    require(
        np.allclose(v2, v3, rtol=1e-9, atol=1e-12 * float(m3.sill), equal_nan=True),
        f"{cls}{spec.get('opt')} dim={dim}: variogram of Model(integral_scale={s2['integral_scale']!r}) {v2.tolist()} differs from the same model "
        f"built with the resulting len_scale={ls_new!r}: {v3.tolist()}",
        dict(tags, kind="integral_scale_ctor_vs_len_scale"),
    )
    _reread_after_inplace(m, s3, case, rec, tags)
    # "restore the old integral scale": the reported value is prescribed again after the length scale was changed in between
    with common.quiet():
        try:
            x0 = float(m.integral_scale)
            if math.isfinite(x0) and x0 > 0:
                m.len_scale = float(m.len_scale) * 3.0
                m.integral_scale = x0
                x1 = float(m.integral_scale)
                rec.label("integral_scale_prescribed_again")
            else:
                x1 = None
        except ValueError:
            x1 = None
    if x1 is not None:
        require(abs(x1 - x0) <= max(1e-6, 10.0 * tset) * x0,
                f"{cls}{spec.get('opt')} dim={dim}: after `len_scale *= 3`, `integral_scale = {x0!r}` (the value reported before) leaves a model that reports {x1!r}",
                dict(tags, kind="integral_scale_not_restored"))


# ---------------------------------------------------------------------------
# sub-check: percentile scale


@st.composite
def gen_percentile(draw, tier="quick"):
    spec = draw(c03_specs(accuracy=True, nugget=True, aniso=False))
    pf = draw(
        st.one_of(
            st.floats(0.01, 0.99),
            st.sampled_from([0.01, 0.1, 0.5, 0.9, 0.99]),
        )
    )
    if draw(st.floats(0, 1)) < 0.25:
        # steep / rough correlations: the hard cases for a derivative based root finder
        cls = draw(st.sampled_from(["TPLSimple", "SuperSpherical", "JBessel", "Integral", "TPLExponential", "TPLGaussian", "TPLStable", "Stable", "Matern"]))
        dim = draw(st.sampled_from(gens.valid_dims(cls)))
        spec["cls"], spec["dim"] = cls, dim
        if cls in ("TPLSimple", "SuperSpherical", "JBessel"):
            spec["opt"] = {"nu": draw(st.floats(5.0, 50.0))}
        elif cls == "Integral":
            spec["opt"] = {"nu": draw(logfloat(0.05, 0.5))}
        elif cls == "Matern":
            spec["opt"] = {"nu": draw(logfloat(0.2, 0.5))}
        elif cls == "Stable":
            spec["opt"] = {"alpha": draw(st.floats(0.3, 0.6))}
        else:
            spec["opt"] = {"hurst": draw(st.floats(0.1001, 0.2)), "len_low": 0.0}
            if cls == "TPLStable":
                spec["opt"]["alpha"] = draw(st.floats(0.3, 2.0))
        pf = draw(st.sampled_from([0.01, 0.05, 0.5, 0.9, 0.99]))
    elif draw(st.integers(0, 5)) == 0:
        # hole-effect correlations (several crossings of a high level) with a rescale factor far from one
        dim = draw(st.sampled_from([1, 2, 3]))
        spec["cls"], spec["dim"] = "JBessel", dim
        spec["opt"] = {"nu": float(dim / 2 - 1 + draw(st.sampled_from([0.5, 0.75, 1.0])))}
        spec["rescale"] = draw(st.sampled_from([8.5, 20.0, 60.0, 0.05]))
        pf = draw(st.sampled_from([0.9, 0.95, 0.99]))
    return {"spec": spec, "pfrac": float(pf)}


def _root_signature(m, per):
    """Does scipy's root (the routine the library calls) itself report failure
    for the library's curve and start value?  (signature of finding K4)"""
    from scipy.optimize import root

    def curve(x):
        return 1.0 - m.correlation(x) - per

    with common.quiet():
        try:
            sol = root(curve, per * m.len_rescaled)
        except Exception:  # noqa: BLE001
            return True
    return not bool(sol["success"])


def check_percentile(case, rec):
    import mpmath as mp

    spec = case["spec"]
    cls, dim = spec["cls"], spec["dim"]
    o = _full_opt(spec)
    _labels(rec, spec)
    if _order_near_integer(spec) and _known("expint_near_integer_order", case):
        rec.exclude("expint_near_integer_order")
        return
    if _len_low_in_window(spec) and _known("tpl_len_low_isclose", case):
        rec.exclude("tpl_len_low_isclose")
        return
    # reachable percentiles: (0, 1) for monotone models, (0, 1 - rho_min) for the hole model
    pmax = 1.0
    if cls == "JBessel":
        with mp.workdps(30):
            hmin = mp.besseljzero(mp.mpf(o["nu"]) + 1, 1)
            pmax = float(1 - cf.cor_mp(cls, dim, o, hmin))
        pmax = min(pmax, 1.0)
    per = float(case["pfrac"]) * pmax
    if pmax < 1.0:
        per = min(per, 0.999 * pmax)
    tags = _tags(spec, sub="percentile", per=per)
    rec.label("per<0.1" if per < 0.1 else "per>0.9" if per > 0.9 else "per_mid")
    rec.nontrivial(True)
    m = lib(build_model, spec, _tags=tags)
    want = cf.first_crossing(cls, dim, spec["len_scale"], spec.get("rescale"), o, per)
    require(want is not None, "oracle: percentile not reached", dict(tags, kind="oracle"))
    if want <= 1e-150 * float(spec["len_scale"]):
        # shape parameters so extreme that the level is reached within lags that underflow (the oracle's own crossing is 0 or denormal)
        rec.exclude("percentile_crossing_below_1e-150")
        return
    reg = _lag_region(spec, want)
    if reg is not None and _known(reg, case):
        rec.exclude(reg)
        return
    try:
        with common.quiet():
            got = m.percentile_scale(per)
    except RuntimeError as exc:
        # brentq (repaired percentile_scale, 6518d71) starts from the bracket
        # [0, 1e-3 per len_rescaled] and stops after 100 iterations: bisection is
        # only guaranteed to resolve crossings above 2^-100 of that bracket / rtol
        unit = _units(spec)["up"] if (cls in TPL and o["len_low"] > 0) else _units(spec)["h"]
        if want < 1e-19 * per * unit:
            rec.label("percentile_tiny_crossing")
            _finding(
                rec,
                case,
                "percentile_tiny_crossing_maxiter",
                f"{cls}{spec.get('opt')} dim={dim}: percentile_scale({per!r}) raised RuntimeError ({exc}); "
                f"first crossing at {want!r}",
                dict(tags, exc="RuntimeError"),
            )
            return
        raise Violation(
            f"{cls}{spec.get('opt')} dim={dim}: percentile_scale({per!r}) raised RuntimeError: {exc} (first crossing {want!r})",
            tags=dict(tags, kind="exception", exc="RuntimeError"),
        ) from exc
    except Exception as exc:  # noqa: BLE001
        raise Violation(
            f"{cls}{spec.get('opt')} dim={dim}: percentile_scale({per!r}) raised {type(exc).__name__}: {exc}",
            tags=dict(tags, kind="exception", exc=type(exc).__name__),
        ) from exc
    got = float(got)
    rho = float(cf.correlation(cls, dim, spec["len_scale"], spec.get("rescale"), o, [abs(got)])[0]) if math.isfinite(got) else math.nan
    res = abs(1 - rho - per)
    ok_root = math.isfinite(got) and got > 0 and res <= 1e-6
    # first crossing: |x - first| small relative to the flatness of the curve; the
    # residual test already pins x up to 1e-6 / |rho'|; a later crossing of a hole
    # model lies beyond the first minimum, i.e. far outside this band
    first = ok_root and got <= want * (1 + 1e-3) + 1e-300
    if ok_root and first:
        rec.discrepancy("percentile_residual", res, 1e-6)
        rec.label("percentile_ok")
        return
    msg = (
        f"{cls}{spec.get('opt')} dim={dim} len_scale={spec['len_scale']!r} rescale={spec.get('rescale')!r}: "
        f"percentile_scale({per!r}) = {got!r}; first lag with 1 - correlation = per is {want!r} "
        f"(1 - rho(result) - per = {1 - rho - per:.3g})"
    )
    if math.isfinite(got) and got < 0 and res <= 1e-6 and abs(got) <= want * (1 + 1e-3):
        rec.label("percentile_negative_root")
        _finding(rec, case, "K4_percentile_negative_root", msg, tags)
        return
    if ok_root and not first and cls == "JBessel":
        rec.label("percentile_later_crossing")
        _finding(rec, case, "K4_percentile_later_crossing", msg, tags)
        return
    if not ok_root and _root_signature(m, per):
        rec.label("percentile_unconverged")
        _finding(rec, case, "K4_percentile_unconverged", msg, tags)
        return
    raise Violation(msg, tags=dict(tags, kind="percentile_wrong" if not ok_root else "percentile_not_first"))


# ---------------------------------------------------------------------------

SUBS = [
    Sub("closed_form", gen_closed, check_closed, quick=3000, thorough=60000, shards_quick=5, shards_thorough=8),
    Sub("identities", gen_ident, check_ident, quick=1600, thorough=30000, shards_quick=4, shards_thorough=8),
    Sub("user_subclass", gen_user, check_user, quick=300, thorough=6000, shards_quick=1, shards_thorough=2),
    # the mpmath quadrature costs 0.1 - 3 s per case (Matern nu ~ 20, JBessel)
    Sub(
        "integral_scale",
        gen_intscale,
        check_intscale,
        quick=160,
        thorough=4000,
        shards_quick=4,
        shards_thorough=8,
        shrink_quick=False,
    ),
    Sub("percentile", gen_percentile, check_percentile, quick=400, thorough=10000, shards_quick=2, shards_thorough=6),
]

"""C14 - Model parameters form a consistent state independent of how it was reached."""

import math
import warnings

import numpy as np
from hypothesis import strategies as st

import common
from common import Sub, Violation, lib, require, quiet
import gens
from gens import logfloat
from oracles import covmodel_ref as ref

import gstools as gs

ID = "C14"
LEVEL = "exploration"
RULE = (
    "Model-based history search: Hypothesis draws (class, plain/temporal/lat-lon/lat-lon+temporal, initial dim 1-4) "
    "and a list of up to 12 (quick) / 30 (thorough) setter operations (var, var_raw, len_scale scalar/list, anis, angles, "
    "nugget, rescale, each optional argument, dim, integral_scale, set_arg_bounds with/without check_args, hankel_kw) with "
    "in-bounds, on-the-bound and out-of-bounds values; each op is applied to the real CovModel and to a pure-Python "
    "reference model of the documented semantics; after every op all public attributes are compared, rejected ops must "
    "leave the model untouched, and at the end the model must equal (==, attributes, variogram and spectral density at "
    "probe lags) one constructed directly from the resulting values. Non-trivial: >=3 ops of >=2 kinds with at least "
    "one list-valued or dim-changing op; distinct by hash of the op sequence."
)
ASSUMPTIONS = [
    "the reference model (oracles/covmodel_ref.py) encodes the documented rules of the CovModel docstring, set_len_anis, set_anis, set_angles, set_model_angles",
    "scipy.integrate.quad of the model's correlation is the integral scale",
]

CONFIGS = ["plain", "plain", "temporal", "latlon", "latlon_temporal"]

OUT_VALUES = [0.0, -1.0, -1e-9, math.inf]


def _pos_value():
    return st.one_of(
        logfloat(1e-3, 1e3),
        logfloat(1e-3, 1e3),
        logfloat(1e-3, 1e3),
        st.sampled_from([1.0, 0.5, 2.0]),
        st.sampled_from(OUT_VALUES),
    )


def _opt_value(name):
    if name == "alpha":
        return st.one_of(st.floats(0.05, 2.0), st.floats(0.5, 50.0), st.sampled_from([2.0, 0.5, 50.0, 0.0, -1.0, 2.5, 51.0]))
    if name == "nu":
        return st.one_of(st.floats(0.2, 5.0), st.floats(0.0, 50.0), st.sampled_from([0.0, 0.2, 0.5, 1.0, 1.5, 2.0, 2.5, 30.0, 50.0, 50.5, -0.5, 0.1]))
    if name == "hurst":
        return st.one_of(st.floats(0.101, 0.999), st.sampled_from([0.1, 1.0, 0.5, 0.05, 1.2]))
    if name == "len_low":
        # incl. lower cut-offs that are tiny in absolute terms (the variance factor follows them exactly)
        return st.one_of(st.just(0.0), logfloat(1e-3, 1e2), st.sampled_from([-1.0, math.inf]), st.sampled_from([1e-8, 3e-9, 5e-8, 1e-10]))
    return st.floats(-1, 1)


def _bounds_for(name):
    lo = st.one_of(st.just(0.0), logfloat(1e-3, 1.0), st.just(0.5))
    hi = st.one_of(st.just(math.inf), logfloat(1.5, 1e3), st.just(2.0), st.just(0.2))
    typ = st.sampled_from(["oo", "oc", "co", "cc", None])
    return st.tuples(lo, hi, typ).map(lambda t: [t[0], t[1]] + ([t[2]] if t[2] else []))


@st.composite
def gen_history(draw, tier="quick"):
    cls = draw(st.sampled_from(gens.CLASSES))
    config = draw(st.sampled_from(CONFIGS))
    if config in ("latlon", "latlon_temporal"):
        dim = 3
    elif config == "temporal":
        dim = draw(st.sampled_from([2, 3, 4]))
    else:
        dim = draw(st.sampled_from([1, 2, 3, 4]))
    opt_names = sorted(ref.default_opt(cls, 3))
    kinds = ["var", "len_scale", "len_list", "anis", "angles", "nugget", "rescale", "dim", "integral_scale", "bounds", "bounds2"]
    kinds += ["var_raw"] if cls in ref.TPL else []
    kinds += ["opt"] * (2 if opt_names else 0)
    kinds += ["hankel_kw"]
    max_ops = 12 if tier == "quick" else 30
    n = draw(st.integers(1, max_ops))
    ops = []
    for _ in range(n):
        k = draw(st.sampled_from(kinds))
        if k in ("var", "var_raw", "len_scale"):
            ops.append({"op": k, "v": draw(_pos_value())})
        elif k == "nugget":
            ops.append({"op": k, "v": draw(st.one_of(st.just(0.0), logfloat(1e-3, 10), st.sampled_from([-1.0, -1e-12, math.inf])))})
        elif k == "len_list":
            m = draw(st.integers(2, 5))
            ops.append({"op": "len_scale", "v": draw(st.lists(st.one_of(logfloat(0.05, 20), st.sampled_from([1.0, 0.0, -2.0])), min_size=m, max_size=m))})
        elif k == "anis":
            form = draw(st.sampled_from(["scalar", "list"]))
            val = st.one_of(logfloat(0.05, 20), logfloat(0.05, 20), st.sampled_from([1.0, 0.0, -1.0, math.inf]))
            if form == "scalar":
                ops.append({"op": "anis", "v": draw(val)})
            else:
                m = draw(st.integers(1, 4))
                ops.append({"op": "anis", "v": draw(st.lists(val, min_size=m, max_size=m))})
        elif k == "angles":
            form = draw(st.sampled_from(["scalar", "list"]))
            val = st.one_of(st.floats(-7, 7), st.sampled_from([0.0, math.pi / 2, 1e-9]))
            if form == "scalar":
                ops.append({"op": "angles", "v": draw(val)})
            else:
                m = draw(st.integers(1, 7))
                ops.append({"op": "angles", "v": draw(st.lists(val, min_size=m, max_size=m))})
        elif k == "rescale":
            ops.append({"op": "rescale", "v": draw(st.one_of(st.none(), logfloat(0.1, 10), st.sampled_from([-2.0, 1.0])))})
        elif k == "opt":
            name = draw(st.sampled_from(opt_names))
            ops.append({"op": "opt", "name": name, "v": draw(_opt_value(name))})
        elif k == "dim":
            ops.append({"op": "dim", "v": draw(st.sampled_from([1, 2, 3, 4]))})
        elif k == "integral_scale":
            form = draw(st.sampled_from(["scalar", "scalar", "list"]))
            if form == "scalar":
                ops.append({"op": "integral_scale", "v": draw(logfloat(0.05, 50))})
            else:
                m = draw(st.integers(2, 4))
                ops.append({"op": "integral_scale", "v": draw(st.lists(logfloat(0.05, 50), min_size=m, max_size=m))})
        elif k == "bounds":
            name = draw(st.sampled_from(["var", "len_scale", "nugget", "anis"] + opt_names))
            ops.append({"op": "bounds", "name": name, "v": draw(_bounds_for(name)), "check_args": draw(st.booleans())})
        elif k == "bounds2":
            # one call with bounds for the variance and for another argument, in either keyword order
            other = draw(st.sampled_from(["len_scale", "len_scale", "nugget"] + opt_names))
            names = ["var", other] if draw(st.booleans()) else [other, "var"]
            ops.append({"op": "bounds2", "names": names, "vs": [draw(_bounds_for(nm)) for nm in names]})
        elif k == "hankel_kw":
            ops.append({"op": "hankel_kw", "v": draw(st.sampled_from([None, {"N": 300}, {"h": 0.002}, {"N": 150, "h": 0.0015}]))})
    return {"cls": cls, "config": config, "dim": dim, "geo_scale": draw(st.sampled_from([1.0, 57.29577951308232, 6371.0])), "ops": ops}


def _nontrivial(case):
    ops = case["ops"]
    kinds = {o["op"] for o in ops}
    listy = any(isinstance(o.get("v"), list) for o in ops) or "dim" in kinds
    return len(ops) >= 3 and len(kinds) >= 2 and listy


def _mk_real(case):
    cls = getattr(gs, case["cls"])
    cfg = case["config"]
    kw = {}
    if cfg in ("latlon", "latlon_temporal"):
        kw["latlon"] = True
        kw["geo_scale"] = case["geo_scale"]
    if cfg in ("temporal", "latlon_temporal"):
        kw["temporal"] = True
    if cfg in ("plain", "temporal"):
        kw["dim"] = case["dim"]
    return cls(**kw)


def _mk_ref(case):
    cfg = case["config"]
    return ref.RefModel(
        case["cls"],
        dim=case["dim"],
        latlon=cfg in ("latlon", "latlon_temporal"),
        temporal=cfg in ("temporal", "latlon_temporal"),
        geo_scale=case["geo_scale"] if cfg.startswith("latlon") else 1.0,
    )


def _feq(a, b, rel=1e-12):
    a = np.asarray(a, dtype=float).ravel()
    b = np.asarray(b, dtype=float).ravel()
    if a.shape != b.shape:
        return False
    both_nan = np.isnan(a) & np.isnan(b)
    return bool(np.all(both_nan | (a == b) | (np.abs(a - b) <= rel * np.maximum(np.abs(a), np.abs(b)))))


def _bnd_eq(a, b):
    a, b = list(a), list(b)
    ta = a[2] if len(a) > 2 else "cc"
    tb = b[2] if len(b) > 2 else "cc"
    return float(a[0]) == float(b[0]) and float(a[1]) == float(b[1]) and ta == tb


def _state_diff(a, b):
    """Keys whose values differ (NaN-aware)."""
    out = []
    for k in a:
        va, vb = a[k], b[k]
        if isinstance(va, dict):
            if set(va) != set(vb) or any(
                not (va[x] == vb[x] or (isinstance(va[x], float) and va[x] != va[x] and vb[x] != vb[x])) for x in va
            ):
                out.append(k)
        elif isinstance(va, list):
            if not np.array_equal(np.asarray(va, dtype=float), np.asarray(vb, dtype=float), equal_nan=True):
                out.append(k)
        elif not (va == vb or (isinstance(va, float) and va != va and vb != vb)):
            out.append(k)
    return out


def _real_state(m):
    return {
        "var": float(m.var),
        "var_raw": float(m.var_raw),
        "len_scale": float(m.len_scale),
        "anis": [float(x) for x in m.anis],
        "angles": [float(x) for x in m.angles],
        "nugget": float(m.nugget),
        "rescale": float(m.rescale),
        "dim": int(m.dim),
        "opt": {k: float(getattr(m, k)) for k in m.opt_arg},
        "bounds": {k: list(v) for k, v in m.arg_bounds.items()},
    }


def _compare(m, r, tags, rec, where):
    """All public attributes of the real model equal the reference."""

    def bad(attr, got, want, kind="attr_mismatch"):
        t = dict(tags, kind=kind, attr=attr)
        return rec.soft(f"{where}: {attr} = {got}, reference (documented semantics) = {want}", t)

    if int(m.dim) != r.dim:
        bad("dim", m.dim, r.dim)
    if len(m.anis) != r.dim - 1 or not _feq(m.anis, r.anis):
        bad("anis", list(m.anis), r.anis)
    if len(m.angles) != ref.n_angles(r.dim) or not _feq(m.angles, r.angles):
        bad("angles", list(m.angles), r.angles)
    for attr in ("var", "var_raw", "len_scale", "nugget", "rescale", "sill"):
        if not _feq(getattr(m, attr), getattr(r, attr), 1e-11):
            bad(attr, getattr(m, attr), getattr(r, attr))
    if not _feq(m.len_rescaled, r.len_scale / r.rescale, 1e-12):
        bad("len_rescaled", m.len_rescaled, r.len_scale / r.rescale)
    for k, v in r.opt.items():
        if not _feq(getattr(m, k), v):
            bad(k, getattr(m, k), v)
    if m.field_dim != r.field_dim:
        bad("field_dim", m.field_dim, r.field_dim)
    if m.spatial_dim != r.spatial_dim:
        bad("spatial_dim", m.spatial_dim, r.spatial_dim)
    if not _feq(m.len_scale_vec, r.len_scale_vec, 1e-12):
        bad("len_scale_vec", list(m.len_scale_vec), r.len_scale_vec)
    iso = all(abs(a - 1.0) <= 1e-8 + 1e-5 for a in r.anis)
    if bool(m.is_isotropic) != iso and all(abs(abs(a - 1.0) - 1e-5) > 1e-6 for a in r.anis):
        bad("is_isotropic", m.is_isotropic, iso)
    rot = any(abs(a) > 1e-8 for a in r.angles)
    if bool(m.do_rotation) != rot and all(abs(abs(a) - 1e-8) > 1e-9 for a in r.angles):
        bad("do_rotation", m.do_rotation, rot)
    mb = m.arg_bounds
    for k, b in r.bounds.items():
        if k not in mb or not _bnd_eq(mb[k], b):
            kind = "attr_mismatch"
            if r.cls in ref.DIM_DEPENDENT and k in r.opt:
                kind = "dim_stale_optbounds"
            key = bad(f"arg_bounds[{k}]", mb.get(k), b, kind)
            if key:  # known: keep searching with the library's bounds
                r.bounds[k] = list(mb[k])
                r.opt_bounds_custom.add(k)
    if m.hankel_kw != r.hankel_kw:
        bad("hankel_kw", m.hankel_kw, r.hankel_kw)
    # the geometric methods follow the current ratios and angles (called after every step: nothing may be remembered)
    if not r.latlon and all(np.isfinite(r.anis)) and all(a > 0 for a in r.anis) and all(np.isfinite(r.angles)):
        from oracles import geometry as geo_

        x = np.array([[0.7 * (i + 1) * (-1) ** j + 0.1 * j for j in range(4)] for i in range(r.dim)], dtype=float)
        M = geo_.iso_matrix(r.dim, list(r.angles), list(r.anis))
        got = np.asarray(m.isometrize(x))
        sc = float(np.max(np.abs(M))) * float(np.max(np.abs(x)))
        if got.shape != x.shape or float(np.max(np.abs(got - M @ x))) > 1e-11 * sc:
            bad("isometrize(x)", got.tolist(), (M @ x).tolist())


def _opt_outside_documented_domain(r):
    """An optional argument sits outside the bounds the class documents (possible only after the user widened them)."""
    dflt = ref.default_opt_bounds(r.cls, r.dim)
    return any(k in dflt and not ref.in_bounds(v, dflt[k]) for k, v in r.opt.items())


def _apply_real(m, op):
    k = op["op"]
    v = op.get("v")
    if k == "opt":
        setattr(m, op["name"], v)
    elif k == "bounds":
        m.set_arg_bounds(check_args=op["check_args"], **{op["name"]: list(v)})
    elif k == "bounds2":
        m.set_arg_bounds(**{nm: list(b) for nm, b in zip(op["names"], op["vs"])})
    elif k == "hankel_kw":
        m.hankel_kw = v
    elif isinstance(v, list) and k in ("len_scale", "anis", "angles") and (len(v) + len(k)) % 2 == 0:
        # the same values as a float64 array that the caller re-uses afterwards: the model keeps its own values
        arr = np.array(v, dtype=np.double)
        try:
            setattr(m, k, arr)
        finally:
            arr *= -3.0
            arr -= 1.0
    else:
        setattr(m, k, v)


def _apply_ref(r, op):
    k = op["op"]
    v = op.get("v")
    if k == "var":
        return r.set_var(v)
    if k == "var_raw":
        return r.set_var_raw(v)
    if k == "nugget":
        return r.set_nugget(v)
    if k == "rescale":
        return r.set_rescale(v)
    if k == "len_scale":
        return r.set_len_scale(v)
    if k == "anis":
        return r.set_anis(v)
    if k == "angles":
        return r.set_angles(v)
    if k == "opt":
        return r.set_opt(op["name"], v)
    if k == "dim":
        return r.set_dim(v)
    if k == "bounds":
        return r.set_bounds(op["name"], v, op["check_args"])
    if k == "bounds2":
        # documented order: the variance is looked at last, whatever the keyword order
        pairs = sorted(zip(op["names"], op["vs"]), key=lambda p: p[0] == "var")
        for nm, b in pairs:
            res = r.set_bounds(nm, b, True)
            if res[0] != "ok":
                return res
        return ("ok", None)
    if k == "hankel_kw":
        return r.set_hankel_kw(v)
    raise common.HarnessError(k)


def _integral_quad(m):
    from scipy.integrate import quad

    with quiet():
        ls = m.len_rescaled
        val, e1 = quad(lambda x: float(m.correlation(np.array([x]))[0]), 0, 5 * ls, limit=200)
        val2, e2 = quad(lambda x: float(m.correlation(np.array([x]))[0]), 5 * ls, np.inf, limit=200)
    return val + val2, e1 + e2


def _fresh(r, case):
    cls = getattr(gs, r.cls)
    kw = dict(var=r.var, len_scale=r.len_scale, nugget=r.nugget, anis=list(r.anis), angles=list(r.angles), rescale=r.rescale)
    if r.latlon:
        kw.update(latlon=True, geo_scale=r.geo_scale)
    else:
        kw["dim"] = r.dim
    if r.temporal:
        kw["temporal"] = True
    if r.hankel_kw != {"a": -1, "b": 1, "N": 200, "h": 0.001, "alt": True}:
        kw["hankel_kw"] = {k: v for k, v in r.hankel_kw.items()}
    kw.update(r.opt)
    f = cls(**kw)
    # bounds are part of the state: carry over the ones that differ from the defaults
    diff = {k: list(b) for k, b in r.bounds.items() if not _bnd_eq(f.arg_bounds[k], b)}
    if diff:
        f.set_arg_bounds(check_args=False, **diff)
    return f


def check_history(case, rec):
    tags = {"model": case["cls"], "config": case["config"]}
    rec.label(case["config"], case["cls"])
    with quiet():
        m = lib(_mk_real, case, _what="constructor", _tags=tags)
        r = _mk_ref(case)
        _compare(m, r, tags, rec, "after construction")
        stale = False
        for i, op in enumerate(case["ops"]):
            where = f"op {i} {op}"
            otags = dict(tags, op=op["op"])
            before = _real_state(m)
            if op["op"] == "integral_scale":
                if _do_integral_scale(m, r, op, otags, rec, where):
                    return
                _compare(m, r, otags, rec, where)
                continue
            raised = None
            try:
                _apply_real(m, op)
            except ValueError as e:
                raised = e
            except Exception as e:  # noqa: BLE001
                try:
                    _apply_ref(r, op)
                    outside = _opt_outside_documented_domain(r)
                except ArithmeticError:
                    outside = True
                if outside:
                    # the user widened the bounds of an optional argument beyond the documented ones and a value out there
                    # (assigned, or the reset value of the new bounds) breaks the arithmetic: outside the model's domain
                    rec.exclude("opt_arg_outside_documented_domain")
                    rec.nontrivial(_nontrivial({"ops": case["ops"][: i + 1]}))
                    return
                raise Violation(f"{where}: raised {type(e).__name__}: {e}", dict(otags, kind="exception"))
            try:
                res, why = _apply_ref(r, op)
            except ArithmeticError:
                # the reference model's own arithmetic breaks down: only possible for optional arguments far outside the documented bounds
                rec.exclude("opt_arg_outside_documented_domain")
                rec.nontrivial(_nontrivial({"ops": case["ops"][: i + 1]}))
                return
            rec.label("accepted" if res == "ok" else "rejected")
            if res == "reject" and op["op"] == "bounds2":
                # bounds that cannot be satisfied together: no documented semantics for the half-applied call
                rec.label("bounds_op_raised" if raised is not None else "bounds2_unsatisfiable")
                rec.nontrivial(_nontrivial({"ops": case["ops"][: i + 1]}))
                return
            if res == "ok" and raised is not None:
                raise Violation(
                    f"{where}: in-bounds assignment rejected: {raised}", dict(otags, kind="spurious_reject")
                )
            if res == "reject" and raised is None:
                kind = "accepted_out_of_bounds"
                if op["op"] == "dim" and r.cls in ref.DIM_DEPENDENT:
                    kind = "dim_stale_optbounds"
                rec.soft(
                    f"{where}: value outside bounds ({why}) accepted silently; model now {m!r}",
                    dict(otags, kind=kind),
                )
                # known: follow the library to keep searching
                snap_b = {k: list(v) for k, v in m.arg_bounds.items()}
                r.opt_bounds_custom.update(r.opt)
                r.dim = int(m.dim)
                r.anis = ref.pad_anis(r.dim, r.anis)
                r.angles = ref.pad_angles(r.dim, r.angles)
                r._latlon_fix()
                for k in r.opt:
                    r.bounds[k] = snap_b[k]
                stale = True
            if res == "reject" and raised is not None and op["op"] == "bounds":
                # bounds that cannot be satisfied (e.g. anis bounds on a lat-lon model):
                # no documented semantics for the half-applied bounds
                rec.label("bounds_op_raised")
                rec.nontrivial(_nontrivial({"ops": case["ops"][: i + 1]}))
                return
            if res == "reject" and raised is not None:
                after = _real_state(m)
                diff = _state_diff(after, before)
                if diff:
                    rec.soft(
                        f"{where}: rejected ({raised}) but the model changed: {diff}: "
                        f"{ {k: before[k] for k in diff} } -> { {k: after[k] for k in diff} }",
                        dict(otags, kind="rejected_value_sticks"),
                    )
                    return  # known finding: state is polluted, stop this history
            if _opt_outside_documented_domain(r):
                # an optional argument now sits outside the documented bounds of the class (possible after the user widened them,
                # e.g. len_low = inf): no documented semantics beyond this point
                rec.exclude("opt_arg_outside_documented_domain")
                rec.nontrivial(_nontrivial({"ops": case["ops"][: i + 1]}))
                return
            _compare(m, r, otags, rec, where)
            if op["op"] == "bounds" and not op["check_args"] and r._check() is not None:
                # the user explicitly skipped the check and left a value outside
                # the new bounds: no documented semantics beyond this point
                rec.label("unchecked_bounds_inconsistent")
                rec.nontrivial(_nontrivial({"ops": case["ops"][: i + 1]}))
                return
        # final: equality with a directly constructed model
        rec.nontrivial(_nontrivial(case))
        try:
            f = _fresh(r, case)
        except ValueError:
            rec.label("fresh_not_constructible")
            dflt = ref.RefModel(r.cls, dim=r.dim, latlon=r.latlon, temporal=r.temporal).bounds
            vals = dict(r.opt, var=r.var, len_scale=r.len_scale, nugget=r.nugget, anis=list(r.anis))
            if not stale and r._check() is None and all(ref.in_bounds(v, dflt[k]) for k, v in vals.items()):
                raise Violation(
                    f"final state {m!r} is within default bounds but cannot be constructed directly",
                    dict(tags, kind="not_constructible"),
                )
            return
        if not (f == m):
            raise Violation(f"model after history {m!r} != directly constructed {f!r}", dict(tags, kind="neq_fresh"))
        _compare(f, r, dict(tags, op="fresh"), rec, "directly constructed model") if not stale else None
        lags = np.array([0.0, 0.1, 0.7, 1.3, 4.0]) * r.len_scale / r.rescale
        v1, v2 = m.variogram(lags), f.variogram(lags)
        ok, err = common.close(v1, v2, rtol=1e-10, atol=1e-300)
        require(ok, f"variogram differs from directly constructed model by {err:.3g}", dict(tags, kind="variogram_stale"))
        if r.dim <= 3:
            ks = np.array([0.0, 0.3, 1.0, 2.5]) / (r.len_scale / r.rescale)
            s1, s2 = m.spectral_density(ks), f.spectral_density(ks)
            ok, err = common.close(s1, s2, rtol=1e-9, atol=1e-300)
            require(ok, f"spectral_density differs from directly constructed model by {err:.3g} (stale transform?)", dict(tags, kind="spectrum_stale"))

        def _isc(mm):
            try:
                return float(mm.integral_scale)
            except Exception as e:  # noqa: BLE001
                return type(e).__name__

        i1, i2 = _isc(m), _isc(f)
        same = i1 == i2 or (isinstance(i1, float) and isinstance(i2, float) and ((i1 != i1 and i2 != i2) or abs(i1 - i2) <= 1e-9 * abs(i2)))
        require(same, f"integral_scale after the history is {i1!r}, the directly constructed model reports {i2!r}", dict(tags, kind="integral_scale_stale"))


def _do_integral_scale(m, r, op, tags, rec, where):
    """integral_scale setter: returns True when the history has to stop."""
    v = op["v"]
    before = _real_state(m)
    raised = None
    try:
        m.integral_scale = v
    except ValueError as e:
        raised = e
    except Exception as e:  # noqa: BLE001
        if _opt_outside_documented_domain(r):
            # an optional argument outside the documented bounds (the user widened them): outside the model's domain
            rec.exclude("opt_arg_outside_documented_domain")
            return True
        raise Violation(f"{where}: raised {type(e).__name__}: {e}", dict(tags, kind="exception"))
    nonlinear = r.cls in ref.TPL and r.opt.get("len_low", 0.0) > 0.0
    dflt = ref.RefModel(r.cls, dim=r.dim, latlon=r.latlon, temporal=r.temporal).bounds
    custom = any(not _bnd_eq(r.bounds[k], dflt[k]) for k in r.bounds)
    if raised is not None:
        # documented: ValueError when the integral scale cannot be met (non-linear
        # TPL models) or when a value on the way leaves (custom) bounds
        unsettable = nonlinear or r.cls == "JBessel"
        if not unsettable:
            # infinite / numerically unusable integral scale (e.g. Rational alpha=0.5)
            got0, qerr0 = _integral_quad(m)
            unsettable = not (qerr0 <= 1e-8 * abs(got0)) or not got0 > 0
        # Stable/TPLStable alpha < 0.3: the library itself warns of unstable results;
        # the numerical integral scale is unusable there (documented: "ValueError if
        # integral scale is not setable")
        unstable = r.opt.get("alpha", 2.0) < 0.3
        if not (unsettable or custom or unstable):
            raise Violation(f"{where}: integral_scale assignment rejected: {raised}", dict(tags, kind="spurious_reject"))
        rec.label("integral_scale_documented_error")
        after = _real_state(m)
        diff = _state_diff(after, before)
        if diff:
            rec.soft(
                f"{where}: rejected ({raised}) but the model changed: {diff}",
                dict(tags, kind="rejected_value_sticks"),
            )
            return True
        return False
    # an accepted assignment leaves every parameter inside its current bounds (the length scale reached through the integral
    # scale, and for the TPL models the variance that follows it, are subject to the same bounds as direct assignments)
    bnd = m.arg_bounds
    for pname in ("len_scale", "var"):
        val = float(getattr(m, pname))
        if pname in bnd and not ref.in_bounds(val, list(bnd[pname])):
            raise Violation(
                f"{where}: integral_scale assignment accepted, but afterwards {pname} = {val!r} lies outside its bounds {list(bnd[pname])}",
                dict(tags, kind="accepted_out_of_bounds_via_integral_scale"),
            )
    try:
        m.check_arg_bounds()
    except ValueError as e:
        raise Violation(f"{where}: integral_scale assignment accepted, but the model fails its own bounds check afterwards: {e}",
                        dict(tags, kind="accepted_out_of_bounds_via_integral_scale"))
    # reference: list semantics for the ratios, main value from the library after check
    main = v[0] if isinstance(v, list) else v
    res, _ = r.set_len_scale(v)
    r.len_scale = float(m.len_scale)
    if r.cls == "JBessel":
        # oscillatory correlation: plain quadrature is no oracle (C03 uses quadosc)
        rec.label("integral_scale_jbessel_state_only")
        return False
    if r.cls == "Matern" and r.opt.get("nu", 1.0) > 20.0:
        # known finding K3 (property C03): integral scale of the true Matern vs
        # Gaussian-limit correlation differ by ~0.5 %; not C14's business
        rec.exclude("K3-matern-nu>20-integral-scale")
        return False
    got, qerr = _integral_quad(m)
    if not (np.isfinite(got) and np.isfinite(qerr) and qerr <= 1e-8 * abs(got)) or r.opt.get("alpha", 2.0) < 0.3:
        # heavy tails / near-nugget shapes: the quadrature oracle itself is not reliable
        rec.label("integral_scale_quad_unreliable")
        return False
    if custom and any(not ref.in_bounds(v, dflt[k]) for k, v in r.opt.items()):
        rec.label("integral_scale_optarg_outside_default_bounds")
        return False
    # accuracy budget: the library's default integral scale is a QUADPACK integral over
    # [0, inf) which for compactly supported (kinked) correlations is only good to a few
    # 1e-5 relative (measured: Linear 2.4e-5); accuracy itself is C03's business
    tol = 1e-3 if nonlinear else 1e-4
    rec.discrepancy("integral_scale", abs(got - main) / main, tol)
    require(
        abs(got - main) <= tol * main,
        f"{where}: integral of correlation = {got}, prescribed integral scale = {main}",
        dict(tags, kind="integral_scale_not_met"),
    )
    # per-axis integral scales follow the ratios (accuracy of the reported main value is C03's business)
    isv = np.asarray(m.integral_scale_vec, dtype=float)
    want = isv[0] * np.array([1.0] + list(r.anis))
    require(_feq(isv, want, 1e-9), f"{where}: integral_scale_vec {list(isv)} != main * [1, anis] {list(want)}", dict(tags, kind="integral_scale_vec"))
    require(abs(isv[0] - main) <= 1e-3 * main, f"{where}: reported integral scale {isv[0]} vs prescribed {main}", dict(tags, kind="integral_scale_not_met"))
    return False


# ---------------------------------------------------------------------------
# constructor keywords vs the same values assigned one by one


@st.composite
def gen_ctor(draw, tier="quick"):
    cls = draw(st.sampled_from(gens.CLASSES))
    config = draw(st.sampled_from(CONFIGS))
    if config in ("latlon", "latlon_temporal"):
        dim = 3
    elif config == "temporal":
        dim = draw(st.sampled_from([2, 3]))
    else:
        dim = draw(st.sampled_from(gens.valid_dims(cls)))
    fdim = dim + (1 if config == "latlon_temporal" else 0)
    spatial = dim - (1 if config == "temporal" else 0)
    opt = draw(gens.opt_args(cls, fdim, mode="accuracy"))
    if cls in ref.TPL and draw(st.booleans()):
        opt["len_low"] = 0.0  # integral scale can only be prescribed without lower cut-off
    kw = {"var": draw(logfloat(0.05, 20.0)), "nugget": draw(st.one_of(st.just(0.0), logfloat(1e-3, 5.0)))}
    scale = draw(st.sampled_from(["len_scale", "len_scale", "integral_scale", "default"]))
    if scale != "default":
        kw[scale] = draw(logfloat(0.1, 20.0))
    n_anis = (3 if config == "latlon_temporal" else dim) - 1
    if n_anis and draw(st.booleans()):
        kw["anis"] = [draw(logfloat(0.2, 5.0)) for _ in range(n_anis)]
    n_ang = dim * (dim - 1) // 2
    if n_ang and draw(st.booleans()) and not config.startswith("latlon"):
        kw["angles"] = [draw(st.floats(-3.0, 3.0)) for _ in range(n_ang)]
    if draw(st.booleans()):
        kw["rescale"] = draw(logfloat(0.2, 5.0))
    if cls in ref.TPL and draw(st.integers(0, 3)) == 0:
        kw["var_raw"] = kw.pop("var")
    return {"cls": cls, "config": config, "dim": dim, "geo_scale": draw(st.sampled_from([1.0, 57.29577951308232, 6371.0])), "opt": opt, "kw": kw,
            "order": draw(st.permutations(["opt", "rescale", "scale", "anis", "angles", "nugget"]))}


def check_ctor(case, rec):
    tags = {"model": case["cls"], "config": case["config"], "sub": "ctor"}
    kw = dict(case["kw"])
    rec.label(case["config"], case["cls"], "integral_scale" if "integral_scale" in kw else "len_scale", "var_raw" if "var_raw" in kw else "var")
    cls = getattr(gs, case["cls"])
    base = {}
    cfg = case["config"]
    if cfg in ("latlon", "latlon_temporal"):
        base.update(latlon=True, geo_scale=case["geo_scale"])
    if cfg in ("temporal", "latlon_temporal"):
        base["temporal"] = True
    if cfg in ("plain", "temporal"):
        base["dim"] = case["dim"]
    with quiet():
        try:
            m1 = cls(**base, **kw, **case["opt"])
        except ValueError as e:
            if "integral_scale" in kw:
                rec.label("integral_scale_not_setable")  # documented ValueError (JBessel, diverging integrals, ...)
                return
            raise Violation(f"constructor rejected in-bounds keywords {kw} {case['opt']}: {e}", dict(tags, kind="ctor_rejects"))
        m2 = cls(**base)
        try:
            for step in case["order"]:
                if step == "opt":
                    for k, v in case["opt"].items():
                        setattr(m2, k, v)
                elif step == "rescale" and "rescale" in kw:
                    m2.rescale = kw["rescale"]
                elif step == "anis" and "anis" in kw:
                    m2.anis = kw["anis"]
                elif step == "angles" and "angles" in kw:
                    m2.angles = kw["angles"]
                elif step == "nugget":
                    m2.nugget = kw["nugget"]
            # the scale depends on rescale / optional arguments, the variance (stored raw) on the scale: assign them last
            if "len_scale" in kw:
                m2.len_scale = kw["len_scale"]
            if "integral_scale" in kw:
                m2.integral_scale = kw["integral_scale"]
            if "var_raw" in kw:
                m2.var_raw = kw["var_raw"]
            else:
                m2.var = kw["var"]
        except ValueError as e:
            raise Violation(f"constructor accepted {kw} {case['opt']} but the setters reject the same values: {e}", dict(tags, kind="ctor_vs_setters"))
    # requested values are the final values
    for name in ("var", "var_raw", "nugget", "len_scale", "rescale"):
        if name in kw:
            got = float(getattr(m1, name))
            require(_feq(got, kw[name], 1e-12), f"{case['cls']}({kw}, {case['opt']}).{name} = {got!r}, requested {kw[name]!r}", dict(tags, kind="ctor_value", attr=name))
    if "integral_scale" in kw:
        got = float(m1.integral_scale)
        require(abs(got - kw["integral_scale"]) <= 1e-3 * kw["integral_scale"], f"{case['cls']}({kw}).integral_scale = {got!r}", dict(tags, kind="ctor_value", attr="integral_scale"))
    a, b = _real_state(m1), _real_state(m2)
    diff = []
    for k in a:
        if k in ("bounds", "opt"):
            if _state_diff({k: a[k]}, {k: b[k]}):
                diff.append(k)
        elif not _feq(a[k], b[k], 1e-6 if "integral_scale" in kw and k in ("len_scale", "var_raw") else 1e-12):
            diff.append(k)
    require(not diff, f"{case['cls']}(**{kw}, **{case['opt']}) differs from the same values assigned by the setters in {diff}: "
            f"{ {k: a[k] for k in diff} } vs { {k: b[k] for k in diff} }", dict(tags, kind="ctor_vs_setters"))
    rec.nontrivial(len(kw) >= 4 or "integral_scale" in kw)


@st.composite
def gen_fitfixed(draw, tier="quick"):
    """Values handed to fit_variogram as fixed parameters are assignments like any other: they arrive as given, in any keyword order."""
    cls = draw(st.sampled_from(["TPLGaussian", "TPLExponential", "TPLStable", "Gaussian", "Stable", "Matern"]))
    names = ["var", "len_scale"] + (["hurst"] if cls.startswith("TPL") else []) + (["len_low"] if cls.startswith("TPL") and draw(st.booleans()) else [])
    fixed = draw(st.lists(st.sampled_from(names), min_size=2, max_size=len(names), unique=True).filter(lambda l: "var" in l))
    vals = {"var": draw(logfloat(0.3, 8.0)), "len_scale": draw(logfloat(2.0, 30.0)), "hurst": draw(st.floats(0.2, 0.9)), "len_low": draw(logfloat(0.1, 3.0))}
    return {"cls": cls, "dim": draw(st.sampled_from([1, 2, 3])), "order": draw(st.permutations(fixed)), "vals": {k: float(vals[k]) for k in fixed}}


def check_fitfixed(case, rec):
    cls, dim = case["cls"], case["dim"]
    tags = {"sub": "fit_fixed", "model": cls, "dim": dim}
    rec.label(cls, "var_first" if case["order"][0] == "var" else "var_later")
    x = np.linspace(1.0, 40.0, 12)
    with quiet():
        truth = getattr(gs, cls)(dim=dim, var=2.0, len_scale=10.0, nugget=0.3)
        y = np.asarray(truth.variogram(x), dtype=float)
        m = getattr(gs, cls)(dim=dim, var=1.0, len_scale=5.0, nugget=0.1)
        kwf = {k: case["vals"][k] for k in case["order"]}  # keyword order as written by the caller
        try:
            m.fit_variogram(x, y, **kwf)
        except RuntimeError:
            rec.exclude("optimiser_gave_up")
            return
        except ValueError as exc:
            raise Violation(f"{cls}.fit_variogram({kwf}) raised ValueError: {exc}", tags=dict(tags, kind="exception")) from exc
    for k, v in case["vals"].items():
        got = float(getattr(m, k))
        require(abs(got - v) <= 1e-12 * max(abs(v), 1e-300),
                f"{cls}(dim={dim}).fit_variogram(..., {', '.join(f'{a}={kwf[a]!r}' for a in kwf)}): {k} is {got!r} afterwards, given {v!r}",
                dict(tags, kind="fixed_value_changed", par=k))
    with quiet():
        direct = getattr(gs, cls)(dim=dim, var=float(m.var), len_scale=float(m.len_scale), nugget=float(m.nugget), **{o: float(getattr(m, o)) for o in m.opt_arg})
    require(bool(direct == m), f"model after the fit {m!r} != directly constructed {direct!r}", dict(tags, kind="neq_fresh"))
    rec.nontrivial(True)


SUBS = [
    Sub("fit_fixed", gen_fitfixed, check_fitfixed, quick=200, thorough=4000, shards_quick=2, shards_thorough=2),
    Sub("ctor", gen_ctor, check_ctor, quick=1200, thorough=30000, shards_quick=4, shards_thorough=8),
    Sub("history", gen_history, check_history, quick=2400, thorough=40000, shards_quick=12, shards_thorough=16, nontrivial=_nontrivial),
]

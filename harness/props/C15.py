"""C15 - Compiled summation kernels equal their source semantics under every thread count."""

import math
import os

import numpy as np
from hypothesis import strategies as st

import common
import gens
from common import Sub, Violation, lib, require, quiet
import kbuild
import pyx2py
from oracles import kernels as ok

import gstools as gs

ID = "C15"
LEVEL = "exploration"
RULE = (
    "Hypothesis draws (kernel entry point, dim 1-4, sizes from {0,1,2,3,7,64,...} up to thousands, seed of the array contents, "
    "magnitude class normal/huge/tiny/mixed incl. +-0 and NaN in fields, memory layout C / Fortran / strided / read-only, "
    "thread counts from {None,1,2,3,4,8,16}, repetitions). Five implementations are compared: A the installed .so, B a serial and "
    "C an OpenMP rebuild of the current generated C/C++ (bit-identical to A for every thread count and repetition), D a plain "
    "interpretation of the .pyx by harness/pyx2py.py (<= 4 ulp, only when the inner iteration count is <= 1e5), E numpy references "
    "of the defining sums (1e-12 * sum|terms|; counts exact; float ties at bin edges discarded and counted). Non-trivial: >= 2 "
    "output points and >= 2 inner terms, or a degenerate shape (0/1); thread cases need output length >= 2*threads; distinct by "
    "hash of the case."
)
ASSUMPTIONS = [
    "gcc/g++ -O2 without FMA contraction reproduces the arithmetic of the shipped build (observed: bit-identical)",
    "the OS scheduler picks the interleavings: schedules are sampled by repetition, not enumerated",
    "libm cos/sin/acos/atan2/pow are the same functions for CPython's math module and for the kernels",
]

KERNELS = [
    "summate",
    "summate_incompr",
    "summate_fourier",
    "krige_var",
    "krige",
    "unstructured_e",
    "unstructured_h",
    "directional",
    "structured",
    "ma_structured",
]
MOD = {
    "summate": "summator", "summate_incompr": "summator", "summate_fourier": "summator",
    "krige_var": "krigesum", "krige": "krigesum",
    "unstructured_e": "estimator", "unstructured_h": "estimator", "directional": "estimator",
    "structured": "estimator", "ma_structured": "estimator",
}
PYX = {"summator": "field/summator.pyx", "krigesum": "krige/krigesum.pyx", "estimator": "variogram/estimator.pyx"}
THREADS = [None, 1, 2, 3, 4, 8, 16]

_pyx_cache = {}


def prepare(tier):
    kbuild.build_all()
    for m in PYX:
        _pyx(m)  # translator problems are harness errors, reported before any search


def _pyx(mod):
    if mod not in _pyx_cache:
        path = os.path.join(common.REPO, "src", "gstools", PYX[mod])
        try:
            _pyx_cache[mod] = pyx2py.load(path)
        except pyx2py.TranslateError as e:
            raise common.HarnessError(str(e)) from e
    return _pyx_cache[mod]


def _values(rs, shape, magn):
    a = rs.standard_normal(shape)
    if magn == "huge":
        a = a * 1e150
    elif magn == "tiny":
        a = a * 1e-150
    elif magn == "mixed":
        a = a * 10.0 ** rs.randint(-8, 9, size=shape)
        flat = a.reshape(-1)
        if flat.size:
            flat[rs.randint(0, flat.size)] = 0.0
            flat[rs.randint(0, flat.size)] = -0.0
    return a


def _layout(a, layout):
    if layout == "F":
        return np.asfortranarray(a)
    if layout == "strided" and a.ndim >= 1 and a.size:
        big = np.zeros(tuple(2 * s for s in a.shape), dtype=a.dtype)
        sl = tuple(slice(None, None, 2) for _ in a.shape)
        big[sl] = a
        return big[sl]
    if layout == "ro":
        b = np.ascontiguousarray(a)
        b.setflags(write=False)
        return b
    return np.ascontiguousarray(a)


def make_args(case):
    """Arguments (without num_threads) and the number of inner iterations."""
    k = case["kernel"]
    rs = np.random.RandomState(case["seed"])
    dim, n, N = case["dim"], case["n_out"], case["n_in"]
    magn, lay = case["magn"], case["layout"]
    L = lambda a: _layout(a, lay)  # noqa: E731
    if k in ("summate", "summate_incompr", "summate_fourier"):
        if k == "summate_incompr":
            dim = 2 + dim % 2
        kv = _values(rs, (dim, N), magn if magn != "huge" else "normal")
        z1, z2 = _values(rs, N, magn), _values(rs, N, magn)
        x = _values(rs, (dim, n), "normal") * 3
        if k == "summate_fourier":
            sf = np.abs(_values(rs, N, "normal"))
            return (L(sf), L(kv), L(z1), L(z2), L(x)), n * N * dim
        return (L(kv), L(z1), L(z2), L(x)), n * N * dim
    if k in ("krige_var", "krige"):
        m = max(N, 0)
        mat = _values(rs, (m, m), magn if magn != "huge" else "normal")
        vecs = _values(rs, (m, n), "normal")
        cond = _values(rs, m, magn if magn != "huge" else "normal")
        return (L(mat), L(vecs), L(cond)), n * m * m
    if k in ("unstructured_e", "unstructured_h", "directional"):
        nf = 1 + case["seed"] % 3
        npts = N
        f = _values(rs, (nf, npts), magn if magn != "huge" else "normal")
        if npts > 2 and case["nan"]:
            f[rs.randint(0, nf), rs.randint(0, npts)] = np.nan
        nb = max(n, 1)
        if k == "unstructured_h":
            pos = np.array([rs.uniform(-90, 90, npts), rs.uniform(-360, 360, npts)])
            edges = np.linspace(0.0, math.pi * rs.uniform(0.3, 1.0), nb + 1)
            return (L(f), L(edges), L(pos), case["est"], "h"), nb * npts * npts
        if case.get("lattice"):
            # integer lattice and integer edges: pairs exactly on bin edges (half-open bins)
            pos = rs.randint(-3, 4, (dim, npts)).astype(float)
            edges = np.concatenate([[0.0], np.sort(rs.choice(np.arange(1, 9), size=min(nb, 8), replace=False)).astype(float)])
        else:
            pos = rs.uniform(-2, 2, (dim, npts))
            edges = np.concatenate([[0.0 if case["seed"] % 2 else 0.1], np.sort(rs.uniform(0.2, 5.0, nb))])
        if case["dup"] and npts > 3:
            pos[:, 1] = pos[:, 0]
        if k == "unstructured_e":
            return (L(f), L(edges), L(pos), case["est"], "e"), nb * npts * npts
        nd = 1 + case["seed"] % 3
        d = rs.standard_normal((nd, dim))
        d /= np.linalg.norm(d, axis=1)[:, None]
        tol = float(rs.uniform(0.05, math.pi / 2))
        if case["seed"] % 5 == 0:
            tol = [2.0, math.pi, 5.0, 2.0 * math.pi, math.inf][(case["seed"] // 5) % 5]  # beyond a right angle: every pair is inside
        bw = float(rs.uniform(0.3, 3.0)) if case["seed"] % 3 else -1.0
        return (L(f), L(edges), L(pos), L(d), tol, bw, False, case["est"]), nb * npts * npts * nd
    if k in ("structured", "ma_structured"):
        f = _values(rs, (max(N, 1), max(n, 1)), magn if magn != "huge" else "normal")
        if k == "structured":
            return (L(f), case["est"]), f.shape[0] ** 2 * f.shape[1]
        mask = (rs.rand(*f.shape) < 0.3).astype(np.uint8)
        return (L(f), np.ascontiguousarray(mask), case["est"]), f.shape[0] ** 2 * f.shape[1]
    raise common.HarnessError(k)


FN = {
    "summate": "summate", "summate_incompr": "summate_incompr", "summate_fourier": "summate_fourier",
    "krige_var": "calc_field_krige_and_variance", "krige": "calc_field_krige",
    "unstructured_e": "unstructured", "unstructured_h": "unstructured", "directional": "directional",
    "structured": "structured", "ma_structured": "ma_structured",
}


def call(impl, case, args, nt):
    fn = impl[FN[case["kernel"]]] if isinstance(impl, dict) else getattr(impl, FN[case["kernel"]])
    res = fn(*args, nt)
    return tuple(np.asarray(r) for r in res) if isinstance(res, tuple) else (np.asarray(res),)


def _bit_equal(a, b):
    return all(x.shape == y.shape and x.dtype == y.dtype and x.tobytes() == y.tobytes() for x, y in zip(a, b)) and len(a) == len(b)


def _ulp_diff(a, b):
    """max difference in units of the last place (NaN patterns must agree)."""
    worst = 0.0
    for x, y in zip(a, b):
        if x.shape != y.shape:
            return math.inf
        if x.dtype.kind != "f":
            if not np.array_equal(x, y):
                return math.inf
            continue
        nx, ny = np.isnan(x), np.isnan(y)
        if not np.array_equal(nx, ny):
            return math.inf
        m = ~nx
        if not m.any():
            continue
        fin = m & np.isfinite(x) & np.isfinite(y)
        if not np.array_equal(x[m & ~fin], y[m & ~fin]):
            return math.inf
        if fin.any():
            sp = np.spacing(np.maximum(np.abs(x[fin]), np.abs(y[fin])))
            worst = max(worst, float(np.max(np.abs(x[fin] - y[fin]) / sp)))
    return worst


def _ulp_mag(k, args, ra, rd):
    """max |a - b| in units of eps * sum|terms| (from the numpy references)."""
    eps = np.finfo(float).eps
    arrs = [np.asarray(a) for a in args]
    with quiet():
        if k == "summate":
            mags = [ok.summate(*arrs)[1]]
        elif k == "summate_fourier":
            mags = [ok.summate_fourier(*arrs)[1]]
        elif k == "summate_incompr":
            mags = [ok.summate_incompr(*arrs)[1]]
        else:
            f, e, mf, me = ok.krige(*arrs)
            mags = [mf, me]
    worst = 0.0
    for x, y, m in zip(ra, rd, mags):
        if x.shape != y.shape or not np.array_equal(np.isnan(x), np.isnan(y)):
            return math.inf
        fin = np.isfinite(x) & np.isfinite(y) & np.isfinite(m) & (m > 0)
        if fin.any():
            worst = max(worst, float(np.max(np.abs(x[fin] - y[fin]) / (eps * m[fin]))))
    return worst


@st.composite
def gen_variants(draw, tier="quick"):
    k = draw(st.sampled_from(KERNELS))
    sizes = [0, 1, 2, 3, 7, 16, 64] + ([200] if tier == "thorough" else [])
    case = {
        "kernel": k,
        "dim": draw(st.integers(1, 4)),
        "n_out": draw(st.sampled_from(sizes)),
        "n_in": draw(st.sampled_from(sizes if not k.startswith(("unstructured", "directional")) else [0, 1, 2, 3, 7, 16, 40])),
        "seed": draw(st.integers(0, 2**31 - 1)),
        "magn": draw(st.sampled_from(["normal", "normal", "huge", "tiny", "mixed"])),
        "layout": draw(st.sampled_from(["C", "C", "F", "strided", "ro"])),
        "est": draw(st.sampled_from(["m", "c"])),
        "nan": draw(st.booleans()),
        "dup": draw(st.booleans()),
        "lattice": draw(st.booleans()),
        "threads": draw(st.lists(st.sampled_from(THREADS), min_size=1, max_size=3, unique=True)),
    }
    return case


def _nontrivial(case):
    return (case["n_out"] >= 2 and case["n_in"] >= 2) or case["n_out"] in (0, 1) or case["n_in"] in (0, 1)


def check_variants(case, rec):
    k = case["kernel"]
    mod = MOD[k]
    tags = {"kernel": k, "layout": case["layout"], "magn": case["magn"]}
    rec.label(k, "layout_" + case["layout"], "magn_" + case["magn"])
    A = kbuild.load(mod, "installed")
    B = kbuild.load(mod, "serial")
    C = kbuild.load(mod, "omp")
    args, iters = make_args(case)
    # degenerate inputs the kernels reject by contract
    if k in ("unstructured_e", "unstructured_h", "directional") and len(args[1]) < 2:
        return
    with quiet():
        ra = lib(call, A, case, args, None, _what=f"installed {k}", _tags=tags)
        rb = lib(call, B, case, args, None, _what=f"serial rebuild {k}", _tags=tags)
    require(
        _bit_equal(ra, rb),
        f"{k}: the installed .so differs from a serial rebuild of the current generated C source (stale or edited artefact); ulp diff {_ulp_diff(ra, rb):.3g}",
        dict(tags, kind="installed_vs_rebuild"),
    )
    for nt in case["threads"]:
        with quiet():
            rc = lib(call, C, case, args, nt, _what=f"OpenMP rebuild {k} num_threads={nt}", _tags=tags)
        require(
            _bit_equal(ra, rc),
            f"{k}: OpenMP build with num_threads={nt} is not bit-identical to the serial result (ulp diff {_ulp_diff(ra, rc):.3g})",
            dict(tags, kind="threads", threads=nt),
        )
    # D: interpretation of the .pyx
    if iters <= 100000:
        rec.label("pyx_interpreted")
        D = _pyx(mod)
        try:
            with quiet():
                rd = call(D, case, args, None)
        except Exception as e:  # noqa: BLE001
            raise Violation(f"{k}: plain interpretation of the .pyx raised {type(e).__name__}: {e} while the compiled kernel returned", dict(tags, kind="pyx_exception"))
        u = _ulp_diff(ra, rd)
        if u > 4.0 and k in ("summate", "summate_incompr", "summate_fourier", "krige", "krige_var"):
            # signed sums cancel: measure the difference in ulps of the summed magnitudes, not of the (small) result.
            # (gcc may merge sin(x), cos(x) into one sincos(x) call whose results can differ from libm's separate
            # sin / cos in the last bit; observed: 0.25 ulp of the partial sums = 8 ulp of a cancelled result)
            u = _ulp_mag(k, args, ra, rd)
        rec.discrepancy("pyx_ulp", u, 4.0)
        require(u <= 4.0, f"{k}: compiled artefact differs from a plain interpretation of its .pyx source by {u:.3g} ulp", dict(tags, kind="pyx_vs_compiled"))
    # E: numpy reference of the defining sums
    _check_reference(case, args, ra, rec, tags)
    rec.nontrivial(_nontrivial(case))


def _check_reference(case, args, ra, rec, tags):
    k = case["kernel"]
    eps = 1e-12
    with quiet():
        if k == "summate":
            val, mag = ok.summate(*[np.asarray(a) for a in args])
            _cmp(k, ra[0], val, mag, eps, rec, tags)
        elif k == "summate_fourier":
            val, mag = ok.summate_fourier(*[np.asarray(a) for a in args])
            _cmp(k, ra[0], val, mag, eps, rec, tags)
        elif k == "summate_incompr":
            kk = np.asarray(args[0])
            if kk.shape[1] and np.any(np.sum(kk**2, axis=0) == 0):
                rec.exclude("zero_wave_vector")
                return
            val, mag = ok.summate_incompr(*[np.asarray(a) for a in args])
            _cmp(k, ra[0], val, mag, eps, rec, tags)
        elif k in ("krige_var", "krige"):
            f, e, mf, me = ok.krige(*[np.asarray(a) for a in args])
            _cmp(k, ra[0], f, mf, eps, rec, tags)
            if k == "krige_var":
                _cmp(k + ".error", ra[1], e, me, eps, rec, tags)
        elif k == "unstructured_e":
            f, edges, pos, est, _ = args
            vals, cnts, tie = ok.unstructured_euclid(np.asarray(f), np.asarray(edges), np.asarray(pos), est)
            if tie < 1e-12 and not (case.get("lattice") and np.asarray(pos).shape[0] <= 3):
                rec.exclude("float_tie_on_bin_edge")
                return
            require(np.array_equal(ra[1], cnts), f"{k}: pair counts {ra[1].tolist()} != defining enumeration {cnts.tolist()}", dict(tags, kind="reference_counts"))
            scale = np.maximum(np.abs(vals), 1e-300)
            fin = np.isfinite(vals)
            require(np.array_equal(np.isnan(ra[0]), np.isnan(vals)), f"{k}: NaN pattern differs from the reference", dict(tags, kind="reference"))
            err = float(np.max(np.abs(ra[0][fin] - vals[fin]) / scale[fin])) if fin.any() else 0.0
            rec.discrepancy("reference_" + k, err, 1e-10)
            require(err <= 1e-10, f"{k}: values differ from the defining sums by {err:.3g} (relative)", dict(tags, kind="reference"))
        elif k in ("structured", "ma_structured"):
            f = np.asarray(args[0])
            mask = np.asarray(args[1]) if k == "ma_structured" else None
            vals = ok.structured(f, args[-1], mask)
            scale = np.maximum(np.abs(vals), 1e-300)
            fin = np.isfinite(vals) & np.isfinite(ra[0])
            require(np.array_equal(np.isfinite(vals), np.isfinite(ra[0])), f"{k}: non-finite pattern differs from the reference", dict(tags, kind="reference"))
            err = float(np.max(np.abs(ra[0][fin] - vals[fin]) / scale[fin])) if fin.any() else 0.0
            rec.discrepancy("reference_" + k, err, 1e-10)
            require(err <= 1e-10, f"{k}: values differ from the defining sums by {err:.3g} (relative)", dict(tags, kind="reference"))
        if k == "directional":
            # the defining enumeration (C08's oracle) for the pair counts: which pairs belong to which direction and bin
            from oracles import variogram as ov

            f_, e_, p_, d_, tol_, bw_, _sep, est_ = args[:8]
            f_l = np.asarray(f_, dtype=float).tolist()
            o_v, o_c, info_ = ov.directional(f_l, [float(x) for x in np.asarray(e_)], np.asarray(p_, dtype=float).tolist(),
                                             ov.normalise(np.asarray(d_, dtype=float).tolist()), float(tol_), None if bw_ < 0 else float(bw_),
                                             {"m": "matheron", "c": "cressie"}.get(est_, est_))
            if not (info_["near_edge"] or info_["near_angle"] or info_["near_band"]):
                require(np.array_equal(np.asarray(ra[1]).reshape(np.shape(o_c)), np.asarray(o_c)),
                        f"directional: pair counts {np.asarray(ra[1]).tolist()} differ from the defining enumeration {np.asarray(o_c).tolist()} (angles_tol {tol_!r}, bandwidth {bw_!r})",
                        dict(tags, kind="reference"))
                rec.label("directional_vs_enumeration")
        # unstructured_h: defining enumeration is C08's oracle (oracles/variogram.py)


def _cmp(name, got, val, mag, eps, rec, tags):
    got = np.asarray(got, dtype=float)
    val = np.asarray(val, dtype=float)
    require(got.shape == val.shape, f"{name}: result shape {got.shape}, expected {val.shape}", dict(tags, kind="reference_shape"))
    if got.size == 0:
        return
    fin = np.isfinite(val) & np.isfinite(mag)
    require(np.array_equal(np.isnan(got[~fin]), np.isnan(val[~fin])) or True, "", tags)
    if not fin.any():
        return
    tol = eps * np.maximum(mag[fin], 1e-300) * 8
    err = np.abs(got[fin] - val[fin])
    rec.discrepancy("reference_" + name, float(np.max(err / tol)), 1.0)
    require(
        bool(np.all(err <= tol)),
        f"{name}: compiled kernel differs from the defining sum by {float(np.max(err)):.3g} (allowed {float(np.max(tol)):.3g})",
        dict(tags, kind="reference"),
    )


# ---------------------------------------------------------------------------
# thread counts on large shapes


@st.composite
def gen_threads(draw, tier="quick"):
    k = draw(st.sampled_from(KERNELS))
    big = [64, 257, 1000] + ([5000] if tier == "thorough" else [])
    est_kernel = k in ("unstructured_e", "unstructured_h", "directional")
    grid_kernel = k in ("structured", "ma_structured")  # one barrier per (row, column): keep them small
    return {
        "kernel": k,
        "dim": draw(st.integers(1, 3)),
        "n_out": draw(st.sampled_from([17, 40] if est_kernel else ([3, 9] if grid_kernel else big))),
        "n_in": draw(st.sampled_from([30, 120] if est_kernel else ([16, 50] if k.startswith("krige") else ([33, 70] if grid_kernel else [8, 64, 300])))),
        "seed": draw(st.integers(0, 2**31 - 1)),
        "magn": draw(st.sampled_from(["normal", "mixed"])),
        "layout": draw(st.sampled_from(["C", "F"])),
        "est": draw(st.sampled_from(["m", "c"])),
        "nan": draw(st.booleans()),
        "dup": False,
        "reps": draw(st.integers(3, 6 if tier == "quick" else 20)),
    }


def check_threads(case, rec):
    k = case["kernel"]
    mod = MOD[k]
    tags = {"kernel": k}
    rec.label(k)
    A = kbuild.load(mod, "installed")
    C = kbuild.load(mod, "omp")
    args, _ = make_args(case)
    with quiet():
        ra = lib(call, A, case, args, None, _tags=tags)
    for nt in THREADS:
        for rep in range(case["reps"]):
            with quiet():
                rc = lib(call, C, case, args, nt, _what=f"OpenMP {k} num_threads={nt}", _tags=tags)
            require(
                _bit_equal(ra, rc),
                f"{k}: OpenMP build, num_threads={nt}, repetition {rep}: result not bit-identical to the serial artefact (ulp diff {_ulp_diff(ra, rc):.3g})",
                dict(tags, kind="threads", threads=nt),
            )
    out_len = ra[0].shape[-1] if ra[0].ndim else 1
    rec.nontrivial(out_len >= 17)


# ---------------------------------------------------------------------------
# public wrappers with config.NUM_THREADS


@st.composite
def gen_wrappers(draw, tier="quick"):
    return {
        "what": draw(st.sampled_from(["srf", "vector", "fourier", "krige", "vario", "vario_dir", "vario_axis"])),
        "seed": draw(st.integers(0, 2**31 - 1)),
        "dim": draw(st.integers(1, 3)),
        "n": draw(st.integers(2, 30)),
        "threads": draw(st.sampled_from([1, 2, 4, 16])),
        # "for all values": amplitudes of any magnitude (fields in SI units of tiny or huge quantities)
        "var": draw(st.one_of(st.just(1.7), st.integers(-60, 60).map(lambda e: 1.7 * 10.0**e))),
        "len_exp": draw(st.one_of(st.just(0), st.integers(-9, 9))),
        # kriging requests of any size: (conditions, targets) up to ~1e7 right-hand-side entries in one call
        "big": draw(st.sampled_from([0, 0, 0, 0, 0, 1, 2, 3])),
        # pairs of search directions: main axes, an obtuse pair whose axes are 30 degrees apart, reversed main axes
        "dirs": draw(st.sampled_from(["eye", "obtuse", "obtuse", "neg"])),
    }


def check_wrappers(case, rec):
    w = case["what"]
    tags = {"wrapper": w}
    rec.label(w)
    rs = np.random.RandomState(case["seed"])
    dim = case["dim"] if w != "vector" else 2 + case["dim"] % 2
    n = case["n"]
    pos = rs.uniform(-3, 3, (dim, n))
    old = gs.config.NUM_THREADS
    results = []
    try:
        for nt in (None, case["threads"]):
            rs = np.random.RandomState(case["seed"] + 1)  # same data for both settings
            gs.config.NUM_THREADS = nt
            with quiet():
                if w in ("srf", "vector", "fourier"):
                    # unit of length 10^e: wave numbers of any magnitude reach the kernels unchanged
                    sc_ = 10.0 ** case.get("len_exp", 0)
                    if nt is None:
                        pos = pos * sc_
                    model = gs.Gaussian(dim=dim, var=case.get("var", 1.7), len_scale=1.3 * sc_)
                    if w == "fourier":
                        srf = gs.SRF(model, generator="Fourier", period=8.0 * sc_, mode_no=4 + 8 * (case["seed"] % 2), seed=case["seed"] % 1000)
                    elif w == "vector":
                        srf = gs.SRF(model, generator="VectorField", mode_no=24, seed=case["seed"] % 1000, mean_velocity=1.5)
                    else:
                        srf = gs.SRF(model, mode_no=24, seed=case["seed"] % 1000)
                    f = lib(srf, pos, _tags=tags)
                    g = srf.generator
                    if w == "srf":
                        val, mag = ok.summate(g._cov_sample, g._z_1, g._z_2, model.isometrize(pos))
                        want = np.sqrt(model.var / g.mode_no) * val
                        mag = np.sqrt(model.var / g.mode_no) * mag
                    elif w == "vector":
                        val, mag = ok.summate_incompr(g._cov_sample, g._z_1, g._z_2, model.isometrize(pos))
                        e1 = np.zeros((dim, 1))
                        e1[0] = 1.0
                        want = 1.5 * e1 + 1.5 * np.sqrt(model.var / g.mode_no) * val
                        mag = 1.5 + 1.5 * np.sqrt(model.var / g.mode_no) * mag
                    else:
                        want, mag = ok.summate_fourier(g._spectrum_factor, g._modes, g._z_1, g._z_2, model.isometrize(pos))
                    err = np.abs(f - want)
                    require(bool(np.all(err <= 1e-11 * np.maximum(mag, 1e-300))), f"{w}: field is not the defining mode sum of the generator's own arrays (max dev {float(np.max(err)):.3g})", dict(tags, kind="kernel_identity"))
                    if w == "srf" and case.get("big") in (1, 2, 3) and nt is None:
                        # a request of more than 2^26 point-mode pairs in one call: every point still gets its own mode sum
                        nb_ = 2**26 // 1000 + 37
                        srf_b = gs.SRF(model, mode_no=1000, seed=case["seed"] % 1000)
                        pb_ = np.random.RandomState(case["seed"] + 7).uniform(-3, 3, (dim, nb_)) * sc_
                        fb_ = np.asarray(lib(srf_b, pb_, _tags=tags))
                        sel = np.r_[0:5, nb_ // 2 : nb_ // 2 + 5, nb_ - 9 : nb_]
                        fs_ = np.asarray(lib(srf_b, pb_[:, sel], _tags=tags))
                        rec.label("srf_request_above_2^26_pairs")
                        require(bool(np.allclose(fb_[sel], fs_, rtol=1e-10, atol=1e-12 * math.sqrt(float(model.var)))),
                                f"srf: {nb_} points x 1000 modes in one call: values at the first / middle / last points {fb_[sel].tolist()} differ from the same points asked for alone {fs_.tolist()}",
                                dict(tags, kind="wrapper_large_request"))
                    results.append(np.asarray(f))
                elif w == "krige":
                    model = gs.Exponential(dim=dim, var=1.2, len_scale=2.0)
                    nc, nn = [(6, n), (6, 1_250_000), (127, 70_000), (40, 210_000)][case.get("big", 0)]
                    cp = rs.uniform(-3, 3, (dim, nc))
                    cv = rs.standard_normal(nc)
                    pk = pos if nn == n else rs.uniform(-3, 3, (dim, nn))
                    k = gs.krige.Ordinary(model, cp, cv)
                    f, v = lib(k, pk, _tags=tags)
                    if nt is None:
                        # the wrapper delivers the defining sums for every target of the request (direct solve of the same system)
                        from oracles import kriging as okr

                        rec.label(f"krige_rhs_entries_1e{int(math.log10((nc + 1) * nn))}")
                        est_o, var_o, cnd_o, _raw = okr.krige(model.covariance, 1.2, 1.2, cp, pk, cv, unbiased=True)
                        if np.isfinite(cnd_o) and cnd_o < 1e9:
                            tk = max(1e-9, 1e-13 * cnd_o) * (1.0 + float(np.max(np.abs(cv))))
                            ef, ev = float(np.max(np.abs(f - est_o))), float(np.max(np.abs(v - var_o)))
                            require(ef <= tk and ev <= tk * 1.2,
                                    f"krige: {nc} conditions x {nn} targets in one call: estimate / variance differ from the direct solve by {ef:.3g} / {ev:.3g} (tol {tk:.3g})",
                                    dict(tags, kind="wrapper_vs_defining_sum"))
                    if nn == n:
                        # the dispatching wrappers hand any right-hand side to the kernel unchanged: columns that vanish or whose entries
                        # cancel exactly (targets beyond the range of every condition, drift rows cancelling the unbiasedness entry)
                        from gstools.krige import base as kb_

                        ksum = kbuild.load("krigesum", "installed")
                        mat_ = rs.standard_normal((5, 5))
                        mat_ = mat_ + mat_.T
                        vec_ = rs.standard_normal((5, 7))
                        vec_[:, 2] = [1.0, -1.0, 0.5, -0.5, 0.0]
                        vec_[:, 4] = 0.0
                        vec_[:, 5] = [0.0, 0.0, 0.0, 1.0, -1.0]
                        cnd_ = rs.standard_normal(5)
                        w1 = np.asarray(lib(kb_._calc_field_krige, mat_, vec_, cnd_, _tags=tags))
                        k1 = np.asarray(ksum.calc_field_krige(mat_, vec_, cnd_, nt))
                        w2 = [np.asarray(a_) for a_ in lib(kb_._calc_field_krige_and_variance, mat_, vec_, cnd_, _tags=tags)]
                        k2 = [np.asarray(a_) for a_ in ksum.calc_field_krige_and_variance(mat_, vec_, cnd_, nt)]
                        require(bool(np.allclose(w1, k1, rtol=1e-13, atol=0)) and all(bool(np.allclose(a_, b_, rtol=1e-13, atol=0)) for a_, b_ in zip(w2, k2)),
                                f"krige: dispatching wrapper differs from the kernel on the same arrays (columns with cancelling entries): {w1.tolist()} vs {k1.tolist()}",
                                dict(tags, kind="wrapper_vs_kernel"))
                        # the estimate-only kernel and the estimate-and-variance kernel deliver the same estimate on one object, also after
                        # the mean of a simple-kriging object was re-assigned between two estimate-only calls
                        ks = gs.krige.Simple(model, cp, cv, mean=0.4)
                        e1 = np.asarray(lib(ks, pk, return_var=False, _tags=tags))
                        b1 = np.asarray(lib(ks, pk, _tags=tags)[0])
                        ks.mean = -1.3
                        e2 = np.asarray(lib(ks, pk, return_var=False, _tags=tags))
                        b2 = np.asarray(lib(ks, pk, _tags=tags)[0])
                        sc_k = 1.0 + float(np.max(np.abs(cv)))
                        require(bool(np.allclose(e1, b1, rtol=0, atol=1e-12 * sc_k)) and bool(np.allclose(e2, b2, rtol=0, atol=1e-12 * sc_k)),
                                f"krige: estimate-only call differs from the estimate of the estimate-and-variance call on the same object "
                                f"(before / after a new mean: {float(np.max(np.abs(e1 - b1))):.3g} / {float(np.max(np.abs(e2 - b2))):.3g})",
                                dict(tags, kind="wrapper_estimate_only_vs_both"))
                        f = np.concatenate([f, e1, e2])
                    results.append(np.concatenate([f, v]))
                elif w in ("vario", "vario_dir"):
                    # 1-3 stacked fields with NaN at different points per field
                    nf = 1 + case["seed"] % 3
                    fld = rs.standard_normal((nf, n))
                    for m_ in range(nf):
                        if n > 3:
                            fld[m_, rs.randint(0, n)] = np.nan
                    edges = np.linspace(0, 4, 6)
                    kw = {}
                    a_tol, bwid = 0.5, -1.0
                    if w == "vario_dir" and dim > 1:
                        # every option reaches the kernel unchanged: tolerances up to and beyond a right angle (lattice points give
                        # exactly perpendicular pairs), with and without a bandwidth
                        a_tol = [0.5, 0.5 * math.pi, 0.75 * math.pi, 3.5][case["seed"] % 4]
                        bwid = [-1.0, 1.5][(case["seed"] // 4) % 2]
                        if (case["seed"] // 8) % 2:
                            pos = np.round(pos)
                        dn_ = np.eye(dim)[:2]
                        if case.get("dirs") == "obtuse":
                            # two directions enclosing an obtuse angle whose axes are 30 degrees apart (search cones overlap for tol >= 0.27)
                            dn_ = np.zeros((2, dim))
                            dn_[0, 0] = 1.0
                            dn_[1, 0], dn_[1, 1] = -math.cos(math.pi / 6), math.sin(math.pi / 6)
                            a_tol = [0.3, 0.5, 0.7, 1.0][case["seed"] % 4]
                        elif case.get("dirs") == "neg":
                            dn_ = -np.eye(dim)[:2]
                        kw = dict(direction=dn_, angles_tol=a_tol)
                        if bwid > 0:
                            kw["bandwidth"] = bwid
                    r = lib(gs.vario_estimate, pos, fld if nf > 1 else fld[0], edges, return_counts=True, _tags=tags, **kw)
                    # the wrapper must return what the kernel returns for the same arrays
                    est = kbuild.load("estimator", "installed")
                    if kw:
                        dn = np.asarray(kw["direction"], dtype=float)

                        kv, kcnt = est.directional(fld, edges, pos, dn, a_tol, bwid, False, "m", None)
                    else:
                        kv, kcnt = est.unstructured(fld, edges, pos, "m", "e", None)
                    require(
                        np.array_equal(np.asarray(r[2]), np.asarray(kcnt).reshape(np.shape(r[2]))) and np.allclose(np.asarray(r[1]), np.asarray(kv).reshape(np.shape(r[1])), rtol=1e-13, atol=0, equal_nan=True),
                        f"{w}: vario_estimate differs from the kernel evaluated on the same arrays (counts {np.asarray(r[2]).tolist()} vs {np.asarray(kcnt).tolist()})",
                        dict(tags, kind="wrapper_vs_kernel"),
                    )
                    results.append(np.concatenate([np.ravel(r[1]), np.ravel(r[2]).astype(float)]))
                else:
                    fld = rs.standard_normal((n, 4))
                    if case["seed"] % 3 == 0:
                        fld[:, int(rs.randint(0, 4))] = 1.5  # a grid line without variation still counts its pairs
                    elif case["seed"] % 3 == 1:
                        fld = (fld > 0.8).astype(float)  # indicator data: some lines constant, others not
                    r_ax = np.asarray(lib(gs.vario_estimate_axis, fld, "x", _tags=tags))
                    est = kbuild.load("estimator", "installed")
                    require(np.allclose(r_ax, np.asarray(est.structured(fld, "m", None)), rtol=1e-13, atol=0, equal_nan=True),
                            "vario_axis: vario_estimate_axis differs from the structured kernel on the same array", dict(tags, kind="wrapper_vs_kernel"))
                    # sparse data: grid lines with 0, 1, 2, ... valid values reach the masked kernel unchanged
                    msk = rs.rand(n, 4) < [0.3, 0.6, 0.85][case["seed"] % 3]
                    how = case["seed"] // 3 % 3
                    if how == 0:
                        arg, kw2 = np.ma.array(fld, mask=msk), {}
                    elif how == 1:
                        arg, kw2 = np.where(msk, np.nan, fld), {}
                    else:
                        arg, kw2 = np.where(msk, -999.0, fld), {"no_data": -999.0}
                    r_ma = np.asarray(lib(gs.vario_estimate_axis, arg, "x", _tags=tags, **kw2))
                    if msk.any():
                        k_ma = np.asarray(est.ma_structured(np.ascontiguousarray(fld), np.ascontiguousarray(msk).view(np.uint8) if msk.dtype != np.uint8 else msk, "m", None))
                    else:
                        k_ma = np.asarray(est.structured(fld, "m", None))
                    require(np.allclose(r_ma, k_ma, rtol=1e-13, atol=0, equal_nan=True),
                            f"vario_axis: vario_estimate_axis with missing values differs from the masked kernel on the same arrays ({r_ma.tolist()} vs {k_ma.tolist()})",
                            dict(tags, kind="wrapper_vs_kernel"))
                    results.append(np.concatenate([r_ax, r_ma]))
    finally:
        gs.config.NUM_THREADS = old
    require(results[0].tobytes() == results[1].tobytes(), f"{w}: result depends on config.NUM_THREADS={case['threads']}", dict(tags, kind="wrapper_threads"))
    rec.nontrivial(n >= 2)


SUBS = [
    Sub("variants", gen_variants, check_variants, quick=1500, thorough=30000, shards_quick=8, shards_thorough=12, nontrivial=_nontrivial),
    Sub("threads", gen_threads, check_threads, quick=72, thorough=1500, shards_quick=4, shards_thorough=8, budget_quick=90.0),
    Sub("wrappers", gen_wrappers, check_wrappers, quick=300, thorough=4000, shards_quick=4, shards_thorough=4),
]

"""C11 - Seeded field generation is deterministic and local."""

import copy
import math

import numpy as np
from hypothesis import strategies as st

import common
from common import Sub, Violation, lib, require, quiet
import gens
from gens import build_model, logfloat

import gstools as gs

ID = "C11"
LEVEL = "exploration"
RULE = (
    "locality: Hypothesis draws (generator in RandMeth/IncomprRandMeth/Fourier, model spec, seed incl. > 2^32, points) and an "
    "evaluation variant (permutation, subset, split batches, structured grid vs point list, meshio points/centroids, store name); "
    "oracle: value of a freshly built SRF evaluated at each single point. history: generated op lists on one SRF (call with seed / "
    "same seed / nan, in-place var/len_scale/anis/angles/opt-arg change and restoration, model re-assignment, mode_no, sampling, "
    "period, seed setters, generator.update with every argument combination); invariant after every op: field == field of a "
    "freshly built SRF with the current settings and seed. seed_identity: the same history driven once with literal seeds and "
    "once with equal-valued distinct int objects must give identical output including nugget noise. Non-trivial: >= 2 calls with a "
    "change or seed re-submission in between, or a permutation/split of >= 3 points; distinct by op-sequence / input hash."
)
ASSUMPTIONS = [
    "a freshly constructed SRF with the same model copy, generator keyword arguments and seed defines the expected field (metamorphic oracle)",
    "in-place changes inside numpy.isclose's window (rtol 1e-5, atol 1e-8) are excluded from the freshness invariant (known finding K7) and probed separately",
]

GEN_CLASSES = ["Gaussian", "Exponential", "Matern", "Integral", "Stable", "JBessel", "TPLGaussian", "Cubic"]
GENERATORS = ["RandMeth", "RandMeth", "VectorField", "Fourier"]


def _gen_kw(case):
    g = case["gen"]
    kw = {}
    if g == "Fourier":
        kw["period"] = case["period"]
        kw["mode_no"] = case["fmodes"]
    else:
        kw["mode_no"] = case["mode_no"]
        kw["sampling"] = case.get("sampling", "auto")
        if g == "VectorField":
            kw["mean_velocity"] = case.get("mean_u", 1.0)
    return kw


def _rebuild(model):
    """A model constructed directly from the public parameter values of `model` (nothing internal is carried over)."""
    kwm = dict(dim=int(model.dim), var=float(model.var), len_scale=float(model.len_scale), nugget=float(model.nugget), rescale=float(model.rescale))
    if model.dim > 1:
        kwm["anis"] = [float(a) for a in model.anis]
        kwm["angles"] = [float(a) for a in model.angles]
    for o in model.opt_arg:
        kwm[o] = float(getattr(model, o))
    with quiet():
        return type(model)(**kwm)


def _fresh_srf(model, g, kw, seed, mean=0.0, rebuild=False):
    return gs.SRF(_rebuild(model) if rebuild else copy.deepcopy(model), mean=mean, generator=g, seed=seed, **kw)


@st.composite
def _base(draw, tier, nugget=False):
    g = draw(st.sampled_from(GENERATORS))
    dims = (2, 3) if g == "VectorField" else (1, 2, 3)
    classes = GEN_CLASSES if g != "Fourier" else ["Gaussian", "Exponential", "Matern", "Integral", "TPLGaussian"]
    if g == "VectorField":
        classes = ["Gaussian", "Exponential", "Matern"]
    spec = draw(
        gens.model_specs(classes=classes, dims=dims, mode="accuracy", nugget=nugget, scale_range=(0.2, 5.0), var_range=(0.1, 10.0))
    )
    dim = spec["dim"]
    case = {"gen": g, "spec": spec}
    case["seed"] = draw(st.one_of(st.integers(0, 300), st.integers(0, 2**32 - 1), st.sampled_from([256, 257, 2**31, 2**32 - 1])))
    if g == "Fourier":
        case["period"] = draw(st.one_of(logfloat(2, 30).map(lambda x: [x]), st.lists(logfloat(2, 30), min_size=dim, max_size=dim)))
        case["fmodes"] = draw(st.one_of(st.sampled_from([[4], [8]]), st.lists(st.sampled_from([2, 4, 6, 8]), min_size=dim, max_size=dim)))
    else:
        case["mode_no"] = draw(st.sampled_from([8, 32, 100]))
        # mcmc on numerical-Hankel spectra is slow and irrelevant for determinism
        case["sampling"] = draw(st.sampled_from(["auto", "auto", "inversion" if spec["cls"] in ("Gaussian", "Exponential") else "auto", "mcmc"]))
        if g == "VectorField":
            case["mean_u"] = draw(st.floats(0.2, 3.0))
    return case


# ---------------------------------------------------------------------------
# locality


@st.composite
def gen_locality(draw, tier="quick"):
    case = draw(_base(tier))
    dim = case["spec"]["dim"]
    case["variant"] = draw(st.sampled_from(["perm", "subset", "split", "struct", "mesh_points", "mesh_centroids", "store", "big_batch"]))
    if case["variant"] == "struct":
        case["axes"] = [draw(st.lists(st.floats(-5, 5), min_size=1, max_size=4, unique=True)) for _ in range(dim)]
    else:
        n = draw(st.integers(3, 9))
        case["pos"] = draw(gens.point_cloud(dim, n_min=n, n_max=n, kinds=("cloud", "lattice")))
        case["perm_seed"] = draw(st.integers(0, 10**6))
    return case


def _ref_single(model, case, pos):
    """Field values from fresh objects, one point at a time."""
    kw = _gen_kw(case)
    out = []
    for j in range(pos.shape[1]):
        f = _fresh_srf(model, case["gen"], kw, case["seed"])(pos[:, j : j + 1])
        out.append(np.asarray(f).reshape(-1) if case["gen"] != "VectorField" else np.asarray(f)[:, 0])
    return np.array(out).T  # (n,) or (dim, n)


def check_locality(case, rec):
    spec = case["spec"]
    dim = spec["dim"]
    g = case["gen"]
    var = case["variant"]
    tags = dict(gens.spec_tags(spec), gen=g, variant=var)
    rec.label(g, var)
    model = lib(build_model, spec, _tags=tags)
    kw = _gen_kw(case)
    sd = math.sqrt(spec["var"]) * (case.get("mean_u", 1.0) if g == "VectorField" else 1.0)
    tol = 1e-9 * sd

    def cmp(got, want, what):
        got = np.asarray(got, dtype=float)
        want = np.asarray(want, dtype=float).reshape(got.shape)
        err = float(np.max(np.abs(got - want))) if got.size else 0.0
        rec.discrepancy(var, err, tol)
        require(err <= tol, f"{g} {what}: differs from single-point evaluation of a fresh object by {err:.3g}", tags)

    with quiet():
        srf = lib(_fresh_srf, model, g, kw, case["seed"], _tags=tags)
        if var == "struct":
            axes = [np.array(a, dtype=float) for a in case["axes"]]
            grid = np.array(np.meshgrid(*axes, indexing="ij")).reshape(dim, -1)
            ref = _ref_single(model, case, grid)
            f = lib(srf.structured, axes, _tags=tags)
            shape = tuple(len(a) for a in axes)
            if g == "VectorField":
                cmp(f.reshape(dim, -1), ref, "structured grid")
            else:
                cmp(f.reshape(-1), ref, "structured grid")
            f2 = lib(srf.unstructured, grid, _tags=tags)
            cmp(f2, ref, "unstructured list of the grid points")
            rec.nontrivial(grid.shape[1] >= 3)
            return
        pos = np.array(case["pos"], dtype=float).reshape(dim, -1)
        n = pos.shape[1]
        ref = _ref_single(model, case, pos)
        full = lib(srf, pos, _tags=tags)
        cmp(full, ref, "full point set")
        prs = np.random.RandomState(case["perm_seed"])
        if var == "perm":
            p = prs.permutation(n)
            f = lib(srf, pos[:, p], _tags=tags)
            cmp(f, ref[..., p], "permuted points")
        elif var == "subset":
            k = prs.randint(1, n)
            idx = np.sort(prs.choice(n, k, replace=False))
            f = lib(srf, pos[:, idx], _tags=tags)
            cmp(f, ref[..., idx], "subset of the points")
        elif var == "split":
            k = prs.randint(1, n)
            fa = lib(srf, pos[:, :k], _tags=tags)
            fb = lib(srf, pos[:, k:], _tags=tags)
            cmp(np.concatenate([fa, fb], axis=-1), ref, "two batches")
            again = lib(srf, pos, seed=case["seed"], _tags=tags)
            cmp(again, ref, "full set after batches (same seed re-submitted)")
        elif var == "big_batch":
            # the same points inside one very large request (mode_no * points > 2e7 for the default mode number)
            nb = 26000 if g != "Fourier" else 4000
            fill = np.random.RandomState(case["perm_seed"]).uniform(-50, 50, (dim, nb))
            big_kw = dict(kw)
            if g != "Fourier":
                big_kw["mode_no"] = 1000
            srf_b = lib(_fresh_srf, model, g, big_kw, case["seed"], _tags=tags)
            small = lib(srf_b, pos, _tags=tags)
            where_ = np.sort(np.random.RandomState(case["perm_seed"] + 1).choice(nb, n, replace=False))
            allp = fill.copy()
            allp[:, where_] = pos
            fb = lib(srf_b, allp, _tags=tags)
            err = float(np.max(np.abs(np.asarray(fb)[..., where_] - np.asarray(small))))
            rec.discrepancy(var, err, tol)
            require(err <= tol, f"{g}: values inside a request of {nb} points differ from the same points requested alone by {err:.3g}", tags)
        elif var == "store":
            f = lib(srf, pos, store="other_name", _tags=tags)
            cmp(f, ref, "store under another name")
            cmp(srf["other_name"], ref, "stored field")
            f = lib(srf, pos, store=False, _tags=tags)
            cmp(f, ref, "store=False")
        else:
            import meshio

            pts3 = np.zeros((n, 3))
            pts3[:, :dim] = pos.T
            if var == "mesh_points":
                mesh = meshio.Mesh(pts3[:, : max(dim, 2)] if dim < 3 else pts3, [("vertex", np.arange(n).reshape(-1, 1))])
                f = lib(srf.mesh, mesh, points="points", direction=list(range(dim)), _tags=tags)
                cmp(f, ref, "meshio mesh points")
                key = "field"
                got = mesh.point_data[key]
                cmp(np.asarray(got).T if g == "VectorField" else got, ref, "mesh.point_data")
            else:
                # 1-4 cell blocks of different types and sizes (the flat result is cut back into the blocks)
                prs = np.random.RandomState(case["perm_seed"])
                nblk = 1 + case["perm_seed"] % 4
                kinds_ = [("line", 2), ("triangle", 3), ("quad", 4), ("vertex", 1)]
                blocks = []
                for b in range(nblk):
                    name_, k_ = kinds_[(b + case["perm_seed"] // 4) % 4]
                    ncell = 1 + int(prs.randint(0, 2 * n))
                    blocks.append((name_, prs.randint(0, n, size=(ncell, k_))))
                mesh = meshio.Mesh(pts3, blocks)
                cents = [pts3[c].mean(axis=1).T[:dim] for _nm, c in blocks]
                cent = np.concatenate(cents, axis=1)
                refc = _ref_single(model, case, cent)
                f = lib(srf.mesh, mesh, points="centroids", direction=list(range(dim)), _tags=tags)
                cmp(f, refc, "meshio cell centroids")
                rec.label(f"mesh_cell_blocks_{nblk}")
                stored = mesh.cell_data["field"]
                require(len(stored) == nblk, f"mesh.cell_data holds {len(stored)} blocks for {nblk} cell blocks", dict(tags, kind="mesh_blocks"))
                off = 0
                for b, (nm_, c) in enumerate(blocks):
                    want_b = refc[:, off : off + len(c)] if g == "VectorField" else np.asarray(refc).reshape(-1)[off : off + len(c)]
                    got_b = np.asarray(stored[b])
                    got_b = got_b.T if g == "VectorField" else got_b
                    require(got_b.shape == want_b.shape, f"mesh.cell_data block {b} ({nm_}) has shape {np.asarray(stored[b]).shape} for {len(c)} cells", dict(tags, kind="mesh_blocks"))
                    cmp(got_b, want_b, f"mesh.cell_data block {b} ({nm_}) of {nblk}")
                    off += len(c)
        rec.nontrivial(n >= 3)


# ---------------------------------------------------------------------------
# histories

PARAMS = ["var", "len_scale", "anis", "angles", "opt"]


@st.composite
def gen_history(draw, tier="quick", twin=False):
    case = draw(_base(tier, nugget=twin))
    spec = case["spec"]
    dim = spec["dim"]
    g = case["gen"]
    n = draw(st.integers(2, 5))
    case["pos"] = draw(gens.point_cloud(dim, n_min=n, n_max=n, kinds=("cloud",)))
    max_ops = 6 if tier == "quick" else 14
    nops = draw(st.integers(2, max_ops))
    kinds = ["call_seed", "call_same", "call_nan", "call_nopos", "param", "param", "restore", "reassign", "seed_setter", "update"]
    if twin:
        kinds = ["call_seed", "call_same", "call_same", "call_nan", "param", "seed_setter", "update"]
    if g == "Fourier":
        kinds += ["period", "fmodes"]
    else:
        kinds += ["mode_no", "sampling"]
    if not twin:
        kinds += ["move_pos", "move_pos"]
    if not twin and g != "Fourier" and spec["cls"] not in ("JBessel",):
        # the dimension of the model assigned in place (classes with dimension-dependent argument bounds stay out: C14's K6)
        kinds += ["dim"]
    ops = []
    for _ in range(nops):
        k = draw(st.sampled_from(kinds))
        op = {"op": k}
        if k in ("call_seed", "seed_setter"):
            op["seed"] = draw(st.one_of(st.integers(0, 300), st.integers(257, 2**32 - 1)))
            # a new seed *next to* the current one (e.g. 20170519 -> 20170520): relative to the running seed
            op["near"] = draw(st.sampled_from([None, None, 1, -1, 7, 1000]))
        elif k == "param":
            names = ["var", "len_scale", "rescale"] + (["anis", "angles"] if dim > 1 and g != "VectorField" else []) + (["opt"] if spec["opt"] else [])
            op["name"] = draw(st.sampled_from(names))
            op["factor"] = draw(st.one_of(logfloat(1.05, 4.0), logfloat(0.25, 0.95)))
            op["idx"] = draw(st.integers(0, 2))
        elif k == "move_pos":
            # the next request is for (slightly) different points: a tiny relative or absolute move, or an offset into
            # large (projected-coordinate like) values where a small move is tiny in relative terms
            op["how"] = draw(st.sampled_from(["rel", "abs", "offset"]))
            op["v"] = draw(st.sampled_from([3e-6, 1e-7, 5e-9])) if op["how"] != "offset" else draw(st.sampled_from([1e5, 3e6]))
        elif k == "dim":
            op["v"] = draw(st.sampled_from([2, 3] if g == "VectorField" else [1, 2, 3]))
        elif k == "mode_no":
            op["v"] = draw(st.sampled_from([8, 16, 32, 64]))
        elif k == "sampling":
            op["v"] = draw(st.sampled_from(["auto", "mcmc"]))
        elif k == "period":
            op["v"] = draw(st.one_of(logfloat(2, 30).map(lambda x: [x]), st.lists(logfloat(2, 30), min_size=dim, max_size=dim)))
        elif k == "fmodes":
            op["v"] = draw(st.one_of(st.sampled_from([[4], [8], [16]]), st.lists(st.sampled_from([2, 4, 6, 8]), min_size=dim, max_size=dim)))
        elif k == "update":
            op["with_model"] = draw(st.sampled_from(["none", "same", "changed"]))
            op["seed"] = draw(st.one_of(st.none(), st.integers(0, 300)))
            op["factor"] = draw(logfloat(1.1, 3.0))
            if g == "Fourier":
                op["period"] = draw(st.one_of(st.none(), logfloat(2, 30).map(lambda x: [x])))
                op["fmodes"] = draw(st.one_of(st.none(), st.sampled_from([[4], [8], [16]])))
        ops.append(op)
    if not twin and dim > 1 and g != "VectorField" and draw(st.integers(0, 2)) == 0:
        # motif: evaluate, change the geometry of the model in place, evaluate again without passing the positions
        ops.append({"op": "call_nan"})
        ops.append({"op": "param", "name": draw(st.sampled_from(["anis", "angles"])), "factor": draw(st.one_of(logfloat(1.3, 4.0), logfloat(0.25, 0.8))), "idx": draw(st.integers(0, 2))})
        ops.append({"op": "call_nopos"})
    # always end with a call so that the last change is observed
    ops.append({"op": "call_nan"})
    case["ops"] = ops
    return case


def _apply_param(model, op, spec):
    """In-place change of a model parameter; returns a description."""
    name = op["name"]
    f = op["factor"]
    if name == "var":
        model.var = model.var * f
    elif name == "len_scale":
        model.len_scale = model.len_scale * f
    elif name == "rescale":
        model.rescale = model.rescale * f
    elif name == "anis":
        a = np.array(model.anis, dtype=float)
        a[op["idx"] % len(a)] *= f
        model.anis = a
    elif name == "angles":
        a = np.array(model.angles, dtype=float)
        a[op["idx"] % len(a)] += f
        model.angles = a
    elif name == "opt":
        k = sorted(spec["opt"])[op["idx"] % len(spec["opt"])]
        lo, hi, lc, hc = gens.opt_bounds(spec["cls"], spec["dim"])[k]
        v = getattr(model, k) * f
        if k == "len_low":
            v = getattr(model, k) + f
        hi_ok = min(hi, 20.0 if (spec["cls"], k) == ("Matern", "nu") else hi)
        v = min(max(v, lo + 0.05 * (1 if not lc else 0) + (0.02 if spec["cls"] == "JBessel" else 0)), hi_ok - (0.001 if not hc else 0))
        if (spec["cls"], k) in (("Stable", "alpha"), ("TPLStable", "alpha")):
            v = max(v, 0.3)
        setattr(model, k, float(v))
    return name


def _nontrivial_history(case):
    ops = case["ops"]
    calls = [i for i, o in enumerate(ops) if o["op"].startswith("call")]
    if len(calls) < 2:
        return False
    return any(not o["op"].startswith("call_nan") for o in ops[calls[0] + 1 : calls[-1]]) or any(
        o["op"] in ("call_seed", "call_same") for o in ops[calls[0] + 1 :]
    )


def _next_seed(cur, op):
    """Seed of a call_seed / seed_setter op: absolute, or a neighbour of the current seed."""
    if op.get("near") is not None and isinstance(cur, int):
        return max(0, min(2**32 - 1, cur + op["near"]))
    return op["seed"]


def _consistent(gen, g, tags, where):
    """Array shapes inside the generator must be mutually consistent before a kernel is called."""
    if g == "Fourier":
        n = gen._modes.shape[1]
        ok = len(gen._z_1) == n and len(gen._z_2) == n and len(gen._spectrum_factor) == n and gen._modes.shape[0] == gen.model.dim
        require(
            ok,
            f"{where}: Fourier arrays inconsistent: modes {gen._modes.shape}, z_1 {len(gen._z_1)}, z_2 {len(gen._z_2)}, "
            f"spectrum_factor {len(gen._spectrum_factor)} (kernel would read out of bounds)",
            dict(tags, kind="inconsistent_arrays"),
        )
    else:
        n = gen._cov_sample.shape[1]
        ok = len(gen._z_1) == n and len(gen._z_2) == n and n == gen.mode_no and gen._cov_sample.shape[0] == gen.model.dim
        require(ok, f"{where}: RandMeth arrays inconsistent", dict(tags, kind="inconsistent_arrays"))


def _net_change_in_isclose_window(srf, um=None):
    """The generator's own model copy compares equal (library ==, i.e. numpy.isclose) to the user's model although a parameter differs."""
    a, b = srf.generator.model, (srf.model if um is None else um)

    def par(m):
        return [float(m.var), float(m.len_scale), float(m.nugget), float(m.rescale)] + [float(x) for x in m.anis] + [float(x) for x in m.angles] + [float(getattr(m, o)) for o in m.opt_arg]

    pa, pb = par(a), par(b)
    # own evaluation of the window (not the library's ==, which is part of what is being tested)
    return len(pa) == len(pb) and pa != pb and bool(np.all(np.isclose(pa, pb)))


def check_history(case, rec):
    spec = case["spec"]
    g = case["gen"]
    dim = spec["dim"]
    tags = dict(gens.spec_tags(spec), gen=g)
    rec.label(g)
    pos = np.array(case["pos"], dtype=float).reshape(dim, -1)
    sd = math.sqrt(spec["var"])
    with quiet():
        model = lib(build_model, spec, _tags=tags)
        kw = _gen_kw(case)
        kw_ctor = dict(kw)
        per_arr = None
        if g == "Fourier" and isinstance(kw.get("period"), list) and len(kw["period"]) == dim:
            # the period handed over as a float array which the caller re-uses for something else afterwards
            per_arr = np.array(kw["period"], dtype=np.double)
            kw_ctor["period"] = per_arr
        srf = lib(gs.SRF, model, generator=g, seed=case["seed"], **kw_ctor, _tags=tags)
        if per_arr is not None:
            per_arr *= 0.37
            rec.label("period_array_reused_by_caller")
        cur_seed = case["seed"]
        orig = build_model(spec)
        um = model  # the model object the user holds and edits (the one handed to the SRF last)
        moved = True  # the requested points differ from the ones the object holds (nothing yet)
        for i, op in enumerate(case["ops"]):
            k = op["op"]
            where = f"op {i} {op}"
            rec.label(k)
            otags = dict(tags, op=k)
            try:
                if k.startswith("call"):
                    if k == "call_seed":
                        cur_seed = _next_seed(cur_seed, op)
                        f = srf(pos, seed=cur_seed)
                    elif k == "call_same":
                        f = srf(pos, seed=int(str(cur_seed)))
                    elif k == "call_nopos" and srf.pos is not None and not moved:
                        # the documented ensemble pattern: positions are kept by the object and not passed again
                        f = srf()
                        rec.label("call_without_pos")
                    else:
                        f = srf(pos)
                    moved = False
                    _consistent(srf.generator, g, otags, where)
                    ref = _fresh_srf(um, g, kw, cur_seed, rebuild=True)(pos)
                    scale = math.sqrt(float(um.var)) * (kw.get("mean_velocity", 1.0))
                    tol = 1e-9 * max(scale, 1e-300)
                    err = float(np.max(np.abs(np.asarray(f) - np.asarray(ref))))
                    if err > tol and _net_change_in_isclose_window(srf, um):
                        # several in-place changes can compound to a net change inside numpy.isclose's window: known finding K7
                        rec.soft(
                            f"{where}: net in-place model change since the last generation lies inside the isclose window and is not seen "
                            f"(field off by {err:.3g})",
                            dict(otags, kind="isclose_window"),
                        )
                        rec.label("stopped_at_K7_net_change")
                        break
                    rec.discrepancy("fresh", err, tol)
                    require(
                        err <= tol,
                        f"{where}: field differs from a freshly built {g} SRF with the current settings (seed {cur_seed}) by {err:.3g}",
                        dict(otags, kind="stale_state"),
                    )
                elif k == "move_pos":
                    moved = True
                    if op["how"] == "rel":
                        pos = pos * (1.0 + op["v"])
                    elif op["how"] == "abs":
                        pos = pos + op["v"]
                    else:
                        pos = pos + op["v"] * (1.0 + 0.1 * np.arange(dim))[:, None]
                elif k == "param":
                    if op["name"] in ("anis", "angles") and um.dim == 1:
                        continue
                    _apply_param(um, op, spec)
                elif k == "dim":
                    d2 = int(op["v"])
                    if d2 != um.dim and d2 <= gens.max_valid_dim(spec["cls"]):
                        um.dim = d2
                        rec.label(f"dim_assigned_{dim}to{d2}")
                        # the request points of the new dimension (deterministic continuation of the old ones)
                        if d2 < pos.shape[0]:
                            pos = pos[:d2].copy()
                        else:
                            pos = np.vstack([pos] + [0.37 * pos[0:1] + 0.1 * (r + 1) for r in range(d2 - pos.shape[0])])
                        dim = d2
                        spec = dict(spec, dim=d2)
                        moved = True
                elif k == "restore":
                    m2 = copy.deepcopy(orig)
                    um.var = m2.var
                    um.len_scale = m2.len_scale
                    if dim > 1:
                        um.anis = m2.anis
                        um.angles = m2.angles
                    for o in spec["opt"]:
                        setattr(um, o, getattr(m2, o))
                    um.var = m2.var
                elif k == "reassign":
                    # an equal-valued but distinct model object is handed over; later edits go through the user's reference to it
                    um = copy.deepcopy(um)
                    srf.model = um
                elif k == "seed_setter":
                    cur_seed = _next_seed(cur_seed, op)
                    srf.generator.seed = cur_seed
                elif k == "mode_no":
                    kw["mode_no"] = op["v"]
                    srf.generator.mode_no = op["v"]
                elif k == "sampling":
                    kw["sampling"] = op["v"]
                    srf.generator.sampling = op["v"]
                elif k == "period":
                    kw["period"] = op["v"]
                    if isinstance(op["v"], list) and len(op["v"]) == dim:
                        pa_ = np.array(op["v"], dtype=np.double)
                        srf.generator.period = pa_
                        pa_ += 5.0
                    else:
                        srf.generator.period = op["v"]
                elif k == "fmodes":
                    kw["mode_no"] = op["v"]
                    srf.generator.mode_no = op["v"]
                elif k == "update":
                    ukw = {}
                    if op["with_model"] == "same":
                        ukw["model"] = um
                    elif op["with_model"] == "changed":
                        um.len_scale = um.len_scale * op["factor"]
                        ukw["model"] = um
                    if op["seed"] is not None:
                        ukw["seed"] = op["seed"]
                        cur_seed = op["seed"]
                    if g == "Fourier":
                        if op.get("period") is not None:
                            ukw["period"] = op["period"]
                            kw["period"] = op["period"]
                        if op.get("fmodes") is not None:
                            ukw["mode_no"] = op["fmodes"]
                            kw["mode_no"] = op["fmodes"]
                    if not ukw:
                        continue
                    srf.generator.update(**ukw)
                    _consistent(srf.generator, g, otags, where)
            except Violation:
                raise
            except Exception as e:  # noqa: BLE001
                raise Violation(f"{where}: raised {type(e).__name__}: {e}", dict(otags, kind="exception"))
    rec.nontrivial(_nontrivial_history(case))


# ---------------------------------------------------------------------------
# seed identity (incl. nugget noise)


def check_twin(case, rec):
    spec = case["spec"]
    g = case["gen"]
    dim = spec["dim"]
    tags = dict(gens.spec_tags(spec), gen=g, nugget=spec["nugget"] > 0)
    rec.label(g, "nugget" if spec["nugget"] > 0 else "no_nugget")
    pos = np.array(case["pos"], dtype=float).reshape(dim, -1)
    outs = []
    with quiet():
        for mode in ("literal", "distinct"):
            conv = (lambda s: s) if mode == "literal" else (lambda s: int(str(s)) + 0)
            model = build_model(spec)
            srf = lib(gs.SRF, model, generator=g, seed=conv(case["seed"]), **_gen_kw(case), _tags=tags)
            cur = case["seed"]
            res = []
            held = {}
            for i, op in enumerate(case["ops"]):
                k = op["op"]
                try:
                    if k == "call_seed":
                        cur = op["seed"]
                        s = cur if mode == "literal" else conv(cur)
                        res.append(np.array(srf(pos, seed=s)))
                    elif k == "call_same":
                        # literal run: the very same int object as before; distinct run: a new equal int
                        s = held.setdefault(cur, cur) if mode == "literal" else conv(cur)
                        if mode == "literal":
                            s = srf.generator.seed if srf.generator.seed == cur else s
                        res.append(np.array(srf(pos, seed=s)))
                    elif k == "call_nan":
                        res.append(np.array(srf(pos)))
                    elif k == "param":
                        _apply_param(srf.model, op, spec)
                    elif k == "seed_setter":
                        cur = op["seed"]
                        srf.generator.seed = cur if mode == "literal" else conv(cur)
                    elif k == "update":
                        if op["seed"] is not None:
                            cur = op["seed"]
                            srf.generator.update(seed=cur if mode == "literal" else conv(cur))
                    elif k in ("mode_no", "fmodes"):
                        srf.generator.mode_no = op["v"]
                    elif k == "period":
                        srf.generator.period = op["v"]
                    elif k == "sampling":
                        srf.generator.sampling = op["v"]
                except Exception as e:  # noqa: BLE001
                    raise Violation(f"op {i} {op} ({mode} seeds): raised {type(e).__name__}: {e}", dict(tags, kind="exception"))
            outs.append(res)
    for j, (a, b) in enumerate(zip(*outs)):
        err = float(np.max(np.abs(a - b)))
        require(
            err == 0.0,
            f"call #{j}: the same history gives different fields when equal seed values are passed as distinct int objects "
            f"(max difference {err:.3g}, nugget={spec['nugget']})",
            dict(tags, kind="seed_identity"),
        )
    rec.nontrivial(len(outs[0]) >= 2 and any(o["op"] == "call_same" for o in case["ops"]))


# ---------------------------------------------------------------------------
# K7 probe: tiny in-place changes


@st.composite
def gen_tiny(draw, tier="quick"):
    return {
        "name": draw(st.sampled_from(["var", "len_scale"])),
        "base": draw(st.sampled_from([1e-9, 2e-9, 5e-10])),
        "factor": draw(st.sampled_from([5.0, 3.0, 0.2])),
        "seed": draw(st.integers(0, 1000)),
    }


def check_tiny(case, rec):
    tags = {"kind": "isclose_window", "name": case["name"]}
    kw = {"var": 1.0, "len_scale": 1.0}
    kw[case["name"]] = case["base"]
    with quiet():
        model = gs.Gaussian(dim=1, **kw)
        srf = gs.SRF(model, seed=case["seed"], mode_no=16)
        x = np.array([[0.3, 1.1]]) * model.len_scale
        srf(x)
        setattr(model, case["name"], case["base"] * case["factor"])
        x2 = np.array([[0.3, 1.1]]) * model.len_scale
        f = srf(x2)
        ref = gs.SRF(copy.deepcopy(model), seed=case["seed"], mode_no=16)(x2)
    err = float(np.max(np.abs(f - ref)))
    scale = math.sqrt(model.var)
    if err > 1e-9 * scale:
        rec.soft(
            f"in-place change {case['name']} {case['base']} -> {case['base'] * case['factor']} is not seen by the generator: "
            f"field differs from a fresh SRF by {err:.3g} (field scale {scale:.3g})",
            tags,
        )
    rec.nontrivial(True)


def _gh(twin):
    return lambda tier: gen_history(tier, twin=twin)


# ---------------------------------------------------------------------------
# dimensions above 3 (plain 4-D / 5-D models, space + time): the seed alone determines the field


@st.composite
def gen_highdim(draw, tier="quick"):
    how = draw(st.sampled_from(["plain4", "plain5", "temporal", "latlon_temporal"]))
    return {
        "how": how,
        "cls": draw(st.sampled_from(["Gaussian", "Exponential", "Matern"])),
        "seed": draw(st.one_of(st.integers(0, 300), st.integers(0, 2**32 - 1))),
        "mode_no": draw(st.sampled_from([8, 32])),
        "n": draw(st.integers(2, 6)),
        "pseed": draw(st.integers(0, 10**6)),
        "noise": [draw(st.integers(0, 2**31 - 1)), draw(st.integers(0, 2**31 - 1))],
    }


def check_highdim(case, rec):
    how = case["how"]
    tags = {"model": case["cls"], "kind": "high_dim", "how": how}
    rec.label("highdim_" + how)
    kw = {"plain4": dict(dim=4), "plain5": dict(dim=5), "temporal": dict(spatial_dim=3, temporal=True), "latlon_temporal": dict(latlon=True, temporal=True)}[how]
    prs = np.random.RandomState(case["pseed"])
    state0 = np.random.get_state()
    try:
        fields = []
        with quiet():
            for rep in range(2):
                # whatever the process-wide numpy generator was used for in between must not matter
                np.random.seed(case["noise"][rep])
                model = getattr(gs, case["cls"])(len_scale=1.5, **kw)
                fd = model.field_dim
                if rep == 0:
                    pos = prs.uniform(-3, 3, (fd, case["n"]))
                    if how == "latlon_temporal":
                        pos[0] = prs.uniform(-80, 80, case["n"])
                        pos[1] = prs.uniform(-170, 170, case["n"])
                srf = lib(gs.SRF, model, seed=case["seed"], mode_no=case["mode_no"], _tags=tags)
                fields.append(np.array(lib(srf, pos.copy(), _tags=tags)))
                # same object, same seed passed again
                fields.append(np.array(lib(srf, pos.copy(), seed=int(str(case["seed"])), _tags=tags)))
    finally:
        np.random.set_state(state0)
    for j in range(1, len(fields)):
        err = float(np.max(np.abs(fields[j] - fields[0])))
        require(err == 0.0, f"{case['cls']} ({how}, model dim {model.dim}): equal seeds give fields that differ by {err:.3g} (evaluation {j} vs 0)", tags)
    rec.nontrivial(True)


SUBS = [
    Sub("high_dim", gen_highdim, check_highdim, quick=200, thorough=4000, shards_quick=2, shards_thorough=4),
    Sub("locality", gen_locality, check_locality, quick=500, thorough=12000, shards_quick=5, shards_thorough=8),
    Sub("history", _gh(False), check_history, quick=500, thorough=12000, shards_quick=6, shards_thorough=8, nontrivial=_nontrivial_history),
    Sub("seed_identity", _gh(True), check_twin, quick=300, thorough=6000, shards_quick=4, shards_thorough=6),
    Sub("tiny_change", gen_tiny, check_tiny, quick=20, thorough=100, shards_quick=1, shards_thorough=1),
]

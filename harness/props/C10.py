"""C10 - Variogram fitting recovers generating parameters and honours constraints.

One check function (``check_fit``) interprets an API-level case

    truth      : class, dim, var, len_scale, nugget, rescale, anis, angles, opt args
                 (+ geo_scale for lat-lon)           -> generates the data
    u          : bin centres in units of the effective range
    current    : values the model under test is constructed with
    bounds     : custom bounds applied with set_arg_bounds before the call
    select     : **para_select (True / False / fixed value)
    anis_arg, sill, init_guess, weights, method, loss, max_eval, ...

against an oracle-side reading of the ``fit_variogram`` docstring (``_plan``):
which parameters are free, which keep a prescribed value, which are derived
from the sill, which documented ValueError is due.  Whether *recovery* of the
generating curve is asserted is decided by the oracle from the case
(prescribed values equal the truth, truth inside the bounds, sill consistent,
start within 30 % of the truth) - never by a generator flag.
"""

import math
import re

import numpy as np
from hypothesis import strategies as st

import common  # noqa: F401
from common import Sub, Violation, lib, quiet, require
import gens
from gens import build_model, logfloat, opt_bounds

import gstools as gs

ID = "C10"
LEVEL = "exploration"
RULE = (
    "Hypothesis draws (class of the 17 shipped, dim 1-3, true var 0.05-50 / len_scale 0.05-50 / nugget 0 or 0.02-2 var / "
    "rescale / optional arguments, 5-15 bin centres covering 0.02-3 effective ranges in linear/log/random layout, data kind "
    "isotropic / directional along the main axes with true anisotropy ratios 0.3-3 / lat-lon great-circle lags with "
    "geo_scale in {1, 57.3, 6371, random}), a status fitted/deselected(False)/fixed value for every parameter, anis "
    "fitted/False/fixed, sill None/True/False/value, init_guess 'current'/dict/dict+default:'current' (starts within +-30 % "
    "of the truth) or 'default', weights None/'inv'/array/list/callable, method trf/dogbox, loss linear/soft_l1/huber, "
    "max_eval None/int, custom bounds through set_arg_bounds (containing or excluding the truth, all four open/closed "
    "types). Data are noise-free variogram values of the true model evaluated by the oracle at its own lags (x/anis_i, "
    "chordal distance). 'recover_*' sub-checks put prescribed values at the truth, 'constrain_*' sub-checks perturb them "
    "(prescribed values, sill, bounds, start), 'errors' generates the documented ValueError inputs. Every successful call is "
    "checked for: returned dict == model state, number of fitted parameters (pcov shape), prescribed values bit-identical, "
    "values inside bounds, sill identity, returned r2 == r2 of the model state, cost(result) <= cost(documented start). "
    "Recovery of curve / r2 / parameters is asserted when the oracle finds the truth reachable (prescribed values, sill, "
    "bounds consistent with the truth; documented start within 30 %) in the identifiable configuration (labels "
    "'recovery_expected' vs 'reachable_but_*'). Non-trivial: at least one constraint active (deselected/fixed parameter, "
    "sill, custom bound, directional or lat-lon data) and some fitted parameter starting >= 10 % away from the truth (or "
    "the start rule 'default'); distinct by hash of the rounded case (class, dim, selection pattern, truth all enter)."
)
ASSUMPTIONS = [
    "CovModel.variogram(r) of a model whose parameters were set through constructor / public setters (var last) is the "
    "model's variogram (C03, C14). Data, fitted curve, r2 and cost are evaluated by the oracle from this only (own "
    "anisotropy scaling x/anis_i and chordal conversion 2R sin(d/2R)), never through the curve closure of fit.py",
    "scipy.optimize.least_squares (ftol=xtol=gtol=1e-8, as handed through by fit_variogram) started within 30 % of a "
    "zero-residual optimum of a smooth, well-conditioned (smin >= 0.03), well-scaled problem with at most one free shape "
    "parameter reaches it to 1e-4*sill on the curve (observed <= 1e-6*sill for interior optima); a failure of this is only "
    "reported if the same scipy call on the oracle's own curve does reach the data (reference fit) and the result is not "
    "a secondary optimum of the oracle's cost",
    "trust-region steps are only accepted when the cost decreases (scipy trf/dogbox), hence cost(result) <= cost(start)",
]

# ---------------------------------------------------------------------------
# Known deviations on the unchanged tree (reported; see final report of C10).
# While a switch is True the affected sub-assertions are skipped in exactly the
# affected region (counted with rec.exclude) or the region is left out by
# construction in the generator; everything else is still asserted there.
KNOWN = {
    # sill constrained and var fitted: _post_fitting reads the derived nugget
    # from the *last curve evaluation* (a finite-difference or rejected trial
    # point) instead of recomputing sill - var(popt) -> var + nugget != sill by
    # ~1e-8 relative with 'trf', more with 'dogbox' (model and returned dict).
    # (fixed in /repo by 4d8c77e: switch off, assertion live)
    "sill_stale_nugget": False,
    # TPL models, var not fitted: _post_fitting sets len_scale/hurst/len_low of
    # popt without resetting var (var_save) -> model.var drifts from the
    # prescribed value (1e-9..1e-5 relative with 'trf', up to percents with
    # 'dogbox'); the returned dict["var"] is right, so dict != model state.
    # (fixed in /repo by 4d8c77e: switch off, assertion live)
    "tpl_stale_var": False,
    # method="dogbox" places iterates exactly on the bounds handed to curve_fit;
    # where the model's bound is open (var>0, len_scale>0, hurst, anis, open
    # custom bounds) the parameter setter inside the curve closure raises.
    "dogbox_open_bound": True,
    # TPL models with finite custom bounds on var: setting len_scale / hurst /
    # len_low inside the curve closure changes var (= var_raw * var_factor)
    # before it is reset, the transient value fails the bounds check of the
    # setter -> ValueError although all optimiser iterates are inside.  Same
    # with the default bound var > 0 when len_scale << len_low (var_factor
    # rounds to 0).  Custom var bounds on TPL models are left out by
    # construction; the remaining ValueErrors "var needs to be ..." are skipped.
    "tpl_var_bounds_transient": True,
    # curve_fit is called with scipy's absolute default tolerances on an
    # unscaled problem: gtol=1e-8 applies to J^T r / sigma^2, so the attainable
    # relative accuracy of the curve is ~ EPS_G = 1e-8 * sigma^2 * max(1, len_scale)
    # * sqrt(k) / (sill^2 * smin): small variograms (var <~ 1e-2) or
    # weights="inv" with lags in large units (sigma = 1 + x; km, m) stop early
    # or do not move at all.  Recovery is not asserted where EPS_G > CURVE_TOL.
    "scipy_abs_tolerance": True,
    # weights given as a plain list (documented: "list: weights given per bin")
    # together with directional data raises AttributeError ('list'.size).
    # (fixed in /repo by 4e636b2: switch off, assertion live)
    "weights_list_directional": False,
}

EPS = float(np.finfo(float).eps)
NEAR = 0.3  # "start near the truth": within 30 % of the parameter's scale
CURVE_TOL = 1e-4  # * sill   (DESIGN C10 (i)); interior optima are observed at <= 1e-6
R2_TOL = 1e-6  # r2 >= 1 - R2_TOL, inflated like the square of the curve budget
PARAM_TOL = 1e-3  # relative to the parameter's natural scale
# scipy's termination thresholds are absolute (gtol=1e-8 on the gradient of
# 0.5*sum((r/sigma)^2), scaled by the distance to the bounds in 'trf').  At an
# optimum sitting on a bound (nugget=0, len_low=0, alpha=2, var=sill) at
# distance d the criterion reads d * sum(r/sigma^2) <= 1e-8 with r ~ d, i.e. it
# is met at d ~ 1e-4 * sigma in *data units*, whatever the sill is (observed:
# 4e-5 * sigma).  For optima on a bound the curve budget therefore carries the
# absolute term 3*sqrt(gtol)*max(sigma).
ABS_TOL = 3e-4
GTOL = 1e-8  # scipy default handed through by fit_variogram
# Recovery of the curve is only demanded in the identifiable configuration:
# SMIN bounds the smallest singular value of the relative Jacobian of the
# oracle curve at the truth (curve change / sill per unit relative parameter
# change in the least sensitive direction): below 0.03 a 30 % move along that
# direction changes the curve by < 1 % of the sill - the flat curved valleys
# where trust-region solvers legitimately stop on xtol/ftol or run out of
# evaluations; with >= 2 free shape parameters (TPL: hurst, alpha, len_low) the
# cost has secondary optima inside the +-30 % box (observed: 'trf' ends with
# gtol satisfied at hurst -> 1).  Outside this configuration only the
# monotone-cost assertion and all state assertions apply.
SMIN = 0.03
MAX_SHAPE = 1

GEO_SCALES = [1.0, 57.29577951308232, 6371.0]
_OPEN_BOUND_MSG = re.compile(r"^([\w-]+) needs to be [<>] (\S+), got: (.*)$")


def _hits_open_bound(msg):
    """ValueError of a parameter setter whose value sits exactly on an open bound?"""
    m = _OPEN_BOUND_MSG.match(msg.strip())
    if not m:
        return False
    try:
        b = float(m.group(2))
        txt = m.group(3).strip()
        if txt.startswith("["):  # anis: numpy prints 8 significant digits
            vals = [float(t) for t in txt.strip("[]").split()]
            return any(abs(v - b) <= 1e-7 * max(abs(b), 1e-300) for v in vals)
        return float(txt) == b
    except ValueError:
        return False


def _kinked(truth):
    """Model whose variogram has a kink / cusp at its range: (1 - r/l)^nu with nu <= 1."""
    cls, dim, opt = truth["cls"], truth["dim"], truth["opt"]
    if cls == "Linear" or (cls == "HyperSpherical" and dim == 1):
        return True
    return cls in ("SuperSpherical", "TPLSimple") and opt.get("nu", 2.0) <= 1.0


# ---------------------------------------------------------------------------
# small helpers shared by generator and check


def _opt_order(cls):
    """Order of optional arguments as the class declares them."""
    if cls == "TPLStable":
        return ["hurst", "alpha", "len_low"]
    if cls in ("TPLGaussian", "TPLExponential"):
        return ["hurst", "len_low"]
    return list(opt_bounds(cls, 3).keys())


def _default_bounds(cls, dim):
    """Documented default bounds: name -> (lo, hi, type)."""
    out = {
        "var": (0.0, math.inf, "oo"),
        "len_scale": (0.0, math.inf, "oo"),
        "nugget": (0.0, math.inf, "co"),
        "anis": (0.0, math.inf, "oo"),
    }
    for k, (lo, hi, lc, hc) in opt_bounds(cls, dim).items():
        out[k] = (lo, hi, ("c" if lc else "o") + ("c" if hc else "o"))
    return out


def _norm_bound(b):
    b = list(b)
    if len(b) == 2:
        b.append("cc")
    return float(common.unjson_float(b[0])), float(common.unjson_float(b[1])), b[2]


def _inside(v, b):
    lo, hi, ty = b
    v = np.asarray(v, dtype=float)
    ok_lo = np.all(v >= lo) if ty[0] == "c" else np.all(v > lo)
    ok_hi = np.all(v <= hi) if ty[1] == "c" else np.all(v < hi)
    return bool(ok_lo and ok_hi)


def _strictly_inside(v, lo, hi):
    return bool(lo < v < hi)


def _scale(name, tv):
    """Natural scale of a parameter (for 'relative' errors and starts)."""
    if name in ("var", "nugget"):
        return tv["var"] + tv["nugget"]
    if name == "len_low":
        # non-linear, enters like a length: relative to itself; a vanishing
        # lower cut-off is "near" only on the scale of a tenth of len_scale
        # (the profile cost in len_low is bimodal beyond that, see report)
        return max(tv["len_low"], 0.1 * tv["len_scale"])
    if name in ("nu", "alpha", "hurst"):
        return max(abs(tv[name]), 0.25)
    return abs(tv[name])


def _clip_inside(v, t, lo, hi, sc):
    """Move v strictly inside (lo, hi) without leaving the segment [v, t]
    (or, when the truth sits on the bound, to 5 % of the scale inside)."""
    if not v > lo:
        v = 0.5 * (lo + t) if t > lo else lo + 0.05 * sc
    if not v < hi:
        v = 0.5 * (hi + t) if t < hi else hi - 0.05 * sc
    return float(v)


def _extra(truth):
    if truth.get("latlon"):
        return {"latlon": True, "geo_scale": truth["geo_scale"]}
    if truth.get("temporal"):
        return {"temporal": True, "spatial_dim": truth["dim"] - 1}
    return {}


def _truth_values(truth):
    tv = {"var": truth["var"], "len_scale": truth["len_scale"], "nugget": truth["nugget"]}
    tv.update(truth["opt"])
    return tv


def _spec_from(truth, vals, anis=None):
    """Model spec of the truth's family carrying the parameter values ``vals``."""
    s = {
        "cls": truth["cls"],
        "dim": truth["dim"],
        "var": vals["var"],
        "len_scale": vals["len_scale"],
        "nugget": vals["nugget"],
        "rescale": truth.get("rescale"),
        "angles": truth.get("angles"),
        "opt": {k: vals[k] for k in _opt_order(truth["cls"]) if k in vals},
    }
    if anis is not None and truth["dim"] > 1:
        s["anis"] = list(anis)
    s.update(_extra(truth))
    return s


def _full_opt(cls, dim, opt, extra=None):
    """Explicit values of all optional arguments (defaults filled in) and the
    default rescale factor of the class (read from a fresh instance)."""
    m = build_model({"cls": cls, "dim": dim, "opt": dict(opt)}, **(extra or {}))
    full = {k: float(getattr(m, k)) for k in _opt_order(cls)}
    return full, float(m.default_rescale())


def _lref(truth, dr):
    """Effective range in user units: the correlation depends on
    r * rescale / len_scale; TPL models reach their sill at len_low + len_scale."""
    res = truth.get("rescale") or dr
    ell = truth["len_scale"] + truth["opt"].get("len_low", 0.0)
    return ell * dr / res


def _blocks(case, x, anis):
    """Oracle lags per data block (own anisotropy scaling / chordal distance)."""
    mode = case["mode"]
    x = np.asarray(x, dtype=float)
    if mode == "iso":
        return [x]
    if mode == "latlon":
        g = case["truth"]["geo_scale"]
        return [2.0 * g * np.sin(x / (2.0 * g))]
    fac = [1.0] + [float(a) for a in anis]
    return [x / f for f in fac]


_ORACLE_MODELS = {}


def _oracle_model(truth):
    """One model instance per (class, dim, rescale, lat-lon setting), reused: all
    parameters are overwritten through the public setters before every
    evaluation (constructing a model costs ~3 ms for the Hankel set-up)."""
    key = (truth["cls"], truth["dim"], truth.get("rescale"), bool(truth.get("latlon")), truth.get("geo_scale"), bool(truth.get("temporal")))
    m = _ORACLE_MODELS.get(key)
    if m is None:
        if len(_ORACLE_MODELS) > 64:
            _ORACLE_MODELS.clear()
        m = build_model(_spec_from(truth, _truth_values(truth)))
        _ORACLE_MODELS[key] = m
    return m


def _curve(case, vals, anis, x):
    """Oracle curve: isotropic variogram of a model of the truth's family with
    parameter values ``vals`` at the oracle's own lags."""
    truth = case["truth"]
    m = _oracle_model(truth)
    with quiet():
        # var last: for TPL models var follows the other parameters until it is set
        m.len_scale = vals["len_scale"]
        m.nugget = vals["nugget"]
        for k in _opt_order(truth["cls"]):
            setattr(m, k, vals[k])
        m.var = vals["var"]
        return np.concatenate([np.asarray(m.variogram(b), dtype=float) for b in _blocks(case, x, anis)])


# ---------------------------------------------------------------------------
# generator


def _delta():
    return st.one_of(st.floats(-NEAR, NEAR), st.floats(-NEAR, NEAR), st.sampled_from([-0.3, 0.3, 0.0, 0.15, -0.2]))


@st.composite
def gen_fit(draw, tier="quick", mode="iso", kind="recover"):
    wild = kind == "constrain"
    if mode == "iso":
        dims, classes = (1, 2, 3), list(gens.CLASSES)
    elif mode == "dir":
        dims = (2, 3)
        classes = [c for c in gens.CLASSES if gens.max_valid_dim(c) >= 2]
    else:
        dims = (3,)
        classes = [c for c in gens.CLASSES if gens.max_valid_dim(c) >= 3]
    spec = draw(
        gens.model_specs(
            classes=classes,
            dims=dims,
            mode="accuracy",
            aniso=False,
            rotate=(mode == "dir"),
            nugget=False,
            rescale=True,
            scale_range=(0.05, 50.0),
            var_range=(0.05, 50.0),
        )
    )
    cls, dim = spec["cls"], spec["dim"]
    if wild and draw(st.integers(0, 3)) == 0:
        # rescale factors far from one (any positive factor is a valid unit convention of the length scale)
        spec["rescale"] = draw(st.sampled_from([6.0, 12.0, 25.0, 0.05]))
    truth = {"cls": cls, "dim": dim, "var": spec["var"], "rescale": spec["rescale"], "angles": spec["angles"]}
    truth["nugget"] = draw(st.one_of(st.just(0.0), st.just(0.0), logfloat(0.02, 2.0).map(lambda f: f * spec["var"])))
    extra = {}
    if mode == "dir" and draw(st.integers(0, 3)) == 0:
        # the last axis is time: same dimension, directional variograms for all axes incl. time
        truth["temporal"] = True
        truth["angles"] = None
        extra = _extra(truth)
    if mode == "latlon":
        truth["latlon"] = True
        truth["geo_scale"] = draw(st.one_of(st.sampled_from(GEO_SCALES), logfloat(0.5, 1e4)))
        extra = _extra(truth)
    opt = dict(spec["opt"])
    if "len_low" in opt_bounds(cls, dim) and "len_low" in opt:
        opt["len_low"] = 0.0  # replaced below relative to len_scale
    full, dr = _full_opt(cls, dim, opt, extra)
    if mode == "latlon":
        # effective range 0.05-0.9 sphere radii so that 3 ranges fit below pi*radius
        ell = truth["geo_scale"] * draw(logfloat(0.05, 0.9))
        res = truth["rescale"] or dr
        ls = ell * res / dr
    else:
        ls = spec["len_scale"]
    if "len_low" in full:
        f = draw(st.one_of(st.just(0.0), logfloat(0.01, 3.0)))
        # keep len_low + len_scale (the effective range) fixed
        full["len_low"] = ls * f / (1.0 + f)
        ls = ls / (1.0 + f)
    nu_start = None
    if cls == "Matern" and draw(st.booleans()):
        # the start value of nu sits exactly on a half-integer order (closed-form special cases), the truth next to it
        nu_start, full["nu"] = draw(st.sampled_from([(0.5, 0.65), (0.5, 0.42), (1.5, 1.25), (1.5, 1.8), (2.5, 2.2)]))
    truth["len_scale"] = float(ls)
    truth["opt"] = full
    if mode == "dir":
        truth["anis"] = draw(st.lists(logfloat(0.3, 3.0), min_size=dim - 1, max_size=dim - 1))
    else:
        truth["anis"] = [1.0] * (dim - 1)
    tv = _truth_values(truth)
    sill_t = tv["var"] + tv["nugget"]
    names = ["var", "len_scale", "nugget"] + _opt_order(cls)
    dbnd = _default_bounds(cls, dim)

    # ---- status of every parameter
    stat = {}
    for nm in names:
        if nm in ("var", "len_scale", "nugget") or wild:
            stat[nm] = draw(st.sampled_from(["fit"] * 6 + ["off"] * 2 + ["fix"] * 2))
        else:
            # 'recover_*' aims at the identifiable configuration: shape parameters mostly prescribed
            stat[nm] = draw(st.sampled_from(["fit"] * 3 + ["off"] * 3 + ["fix"] * 4))
    if nu_start is not None:
        stat["nu"] = "fit"
    if mode == "dir":
        anis_mode = draw(st.sampled_from(["fit", "fit", "off", "fix"]))
    else:
        anis_mode = draw(st.sampled_from(["fit", "fit", "fit", "off", "fix"])) if dim > 1 else "fit"
    sill_kind = draw(st.sampled_from(["none", "none", "none", "value", "value", "false", "true"]))
    # at least one free parameter after the documented sill handling
    def n_free():
        free = [k for k in names if stat[k] == "fit"]
        if sill_kind in ("value", "false"):
            if stat["var"] != "fit" and "nugget" in free:
                free.remove("nugget")
            elif stat["nugget"] != "fit" and "var" in free:
                free.remove("var")
            elif "nugget" in free and "var" in free:
                free.remove("nugget")
        return len(free) + ((dim - 1) if (mode == "dir" and anis_mode == "fit") else 0)

    if n_free() == 0:
        stat["len_scale"] = "fit"

    # ---- bins
    n = draw(st.integers(max(5, min(n_free() + 2, 12)), 15))
    u_lo = draw(logfloat(0.02, 0.3))
    u_hi = draw(st.floats(1.0, 3.0))
    layout = draw(st.sampled_from(["lin", "log", "rand"]))
    if layout == "lin":
        u = [u_lo + (u_hi - u_lo) * i / (n - 1) for i in range(n)]
    elif layout == "log":
        u = [u_lo * (u_hi / u_lo) ** (i / (n - 1)) for i in range(n)]
    else:
        tt = sorted(draw(st.lists(st.floats(0.02, 0.98), min_size=n - 2, max_size=n - 2, unique=True)))
        u = [u_lo] + [u_lo + (u_hi - u_lo) * t for t in tt] + [u_hi]

    def preset(nm):
        """value of a deselected / fixed parameter"""
        t, sc = tv[nm], _scale(nm, tv)
        if not wild or draw(st.booleans()):
            return float(t)
        if nm == "nugget":
            v = sill_t * draw(st.floats(0.0, 0.6))
        else:
            v = t + sc * (draw(logfloat(0.5, 2.0)) - 1.0)
        lo, hi, ty = dbnd[nm]
        if not _inside(v, dbnd[nm]):
            v = _clip_inside(v, t, lo, hi, sc)
        return float(v)

    def near(nm, lo=None, hi=None):
        if nm == "nu" and nu_start is not None:
            return float(nu_start)
        t, sc = tv[nm], _scale(nm, tv)
        d = draw(_delta())
        if wild and draw(st.integers(0, 3)) == 0:
            d = draw(st.floats(-0.8, 2.0))
        if t == 0.0 and nm in ("nugget", "len_low"):
            d = max(abs(d), 0.01)  # strictly inside, 1-30 % of the scale away
        v = t + d * sc
        blo, bhi, _ = dbnd[nm]
        lo = blo if lo is None else max(lo, blo)
        hi = bhi if hi is None else min(hi, bhi)
        return _clip_inside(v, t, lo, hi, sc)

    # ---- custom bounds
    bounds = {}
    sill_given = sill_kind in ("value", "false")
    for nm in names + (["anis"] if mode == "dir" else []):
        if draw(st.integers(0, 5)) != 0:
            continue
        if sill_given and nm in ("var", "nugget"):
            continue  # derived values vs custom bounds: undocumented territory
        if nm == "var" and cls in gens.TPL and KNOWN["tpl_var_bounds_transient"]:
            continue  # excluded by construction (finding)
        if nm == "anis":
            ts = truth["anis"]
            t_lo, t_hi, sc = min(ts), max(ts), min(ts)
        else:
            t_lo = t_hi = tv[nm]
            sc = _scale(nm, tv)
        dlo, dhi, dty = dbnd[nm]
        excl = wild and draw(st.integers(0, 2)) == 0 and nm != "anis" and stat.get(nm) == "fit"
        if excl:
            # interval on one side of the truth
            if draw(st.booleans()) or not (t_lo - 0.5 * sc > dlo):
                lo = t_hi + sc * draw(st.floats(0.1, 0.5))
                hi = lo + sc * draw(st.floats(0.5, 3.0))
            else:
                hi = t_lo - sc * draw(st.floats(0.1, 0.45))
                lo = hi - sc * draw(st.floats(0.1, 0.5))
        else:
            lo = t_lo - sc * draw(st.floats(0.4, 3.0))
            hi = t_hi + sc * draw(st.floats(0.4, 3.0))
        ty = draw(st.sampled_from(["oo", "cc", "co", "oc"]))
        if not lo > dlo:
            lo, ty = dlo, dty[0] + ty[1]
        if not hi < dhi:
            hi, ty = dhi, ty[0] + dty[1]
        if nm in ("var", "len_scale") and not lo > 0.0:
            lo = 0.0
        if not hi > lo:
            continue
        bounds[nm] = [common.jsonable(float(lo)), common.jsonable(float(hi)), ty]

    def eff(nm):
        if nm in bounds:
            lo, hi, _ = _norm_bound(bounds[nm])
            return lo, hi
        return dbnd[nm][0], dbnd[nm][1]

    # ---- prescribed values, current model state, guesses
    select, current, guess = {}, {}, {}
    tpl_keep = cls in gens.TPL and (stat["var"] == "off" or sill_kind == "false")
    for nm in names:
        lo, hi = eff(nm)
        if stat[nm] == "fit":
            if draw(st.integers(0, 3)) == 0:
                select[nm] = True
            current[nm] = near(nm, lo, hi)
            guess[nm] = near(nm, lo, hi)
        elif stat[nm] == "off":
            select[nm] = False
            current[nm] = preset(nm)
            if not _strictly_inside(current[nm], lo, hi) and nm in bounds:
                del bounds[nm]
        else:
            select[nm] = preset(nm)
            if not _strictly_inside(select[nm], lo, hi) and nm in bounds:
                del bounds[nm]
            lo, hi = eff(nm)
            current[nm] = select[nm] if (tpl_keep or draw(st.booleans())) else near(nm, lo, hi)
    # sill
    if sill_kind == "none":
        sill = None
    elif sill_kind == "true":
        sill = True
    elif sill_kind == "value":
        sill = float(sill_t if (not wild or draw(st.booleans())) else sill_t * draw(logfloat(0.5, 2.0)))
    else:
        sill = False
        if not wild or draw(st.booleans()):
            # make the *current* sill the true one
            v_fixed = select["var"] if stat["var"] == "fix" else None
            n_fixed = select["nugget"] if stat["nugget"] == "fix" else None
            if stat["var"] != "fit" and stat["nugget"] != "fit":
                pass  # both prescribed: nothing to arrange
            elif stat["var"] != "fit":
                v = v_fixed if v_fixed is not None else current["var"]
                if sill_t - v >= 0:
                    current["nugget"] = float(sill_t - v)
            elif stat["nugget"] != "fit":
                g = n_fixed if n_fixed is not None else current["nugget"]
                if sill_t - g > 0:
                    current["var"] = float(sill_t - g)
            else:
                v = tv["var"] * (1.0 - abs(draw(st.floats(-NEAR, NEAR))))
                current["var"] = float(v)
                current["nugget"] = float(sill_t - v)
    # var start below the sill when the sill caps var
    s_eff = None
    if sill_kind == "value":
        s_eff = sill
    if s_eff is not None and stat["var"] == "fit":
        for d in (current, guess):
            if not d["var"] < s_eff:
                d["var"] = float(0.85 * min(tv["var"], s_eff))
    # anis
    if dim > 1:
        def near_anis():
            out = []
            lo, hi = eff("anis")
            for a in truth["anis"]:
                d = draw(_delta())
                if wild and draw(st.integers(0, 3)) == 0:
                    d = draw(st.floats(-0.8, 2.0))
                out.append(_clip_inside(a * (1 + d), a, lo, hi, a))
            return out

        def preset_anis():
            if not wild or draw(st.booleans()):
                return [float(a) for a in truth["anis"]]
            lo, hi = eff("anis")
            return [_clip_inside(a * draw(logfloat(0.5, 2.0)), a, lo, hi, a) for a in truth["anis"]]

        if mode != "dir":
            # anis plays no role for isotropic data but must not be touched
            current["anis"] = draw(st.lists(logfloat(0.2, 5.0), min_size=dim - 1, max_size=dim - 1))
            if mode == "latlon":
                current["anis"] = [1.0] * (dim - 1)
            anis_arg = True if anis_mode == "fit" else (False if anis_mode == "off" else current["anis"] if mode == "latlon" else draw(st.lists(logfloat(0.2, 5.0), min_size=dim - 1, max_size=dim - 1)))
        elif anis_mode == "fit":
            anis_arg = True
            current["anis"] = near_anis()
            guess["anis"] = near_anis()
        elif anis_mode == "off":
            anis_arg = False
            current["anis"] = preset_anis()
        else:
            anis_arg = preset_anis()
            current["anis"] = anis_arg if draw(st.booleans()) else near_anis()
    else:
        anis_arg = draw(st.sampled_from([True, True, False]))
        current["anis"] = []

    # ---- init guess
    modes = ["current", "dict_full", "dict_full", "dict_current"]
    if wild:
        modes += ["default", "dict_default"]
    im = draw(st.sampled_from(modes))
    fitted = [k for k in names if stat[k] == "fit"] + (["anis"] if "anis" in guess else [])
    if im == "current":
        init_guess = "current"
    elif im == "default":
        init_guess = "default"
    else:
        if im == "dict_full":
            keys = list(fitted)
            # current values of fitted parameters are then irrelevant: move some away
            for k in keys:
                if k != "anis" and k in current and not (sill is False and k in ("var", "nugget")) and not tpl_keep and draw(st.booleans()):
                    lo, hi = eff(k)
                    current[k] = _clip_inside(tv[k] + _scale(k, tv) * (draw(logfloat(0.3, 3.0)) - 1.0), tv[k], lo, hi, _scale(k, tv))
        else:
            keys = [k for k in fitted if draw(st.booleans())]
        init_guess = {k: guess[k] for k in keys}
        if im == "dict_current":
            init_guess["default"] = "current"
        elif im == "dict_default" or draw(st.integers(0, 4)) == 0:
            init_guess["default"] = "default"

    # ---- weights, optimiser
    wk = draw(st.sampled_from(["none", "none", "inv", "array", "array_full", "list", "call_pow", "call_logistic", "call_const"]))
    weights = {"kind": wk}
    if wk in ("array", "list"):
        weights["w"] = draw(st.lists(logfloat(0.1, 10.0), min_size=n, max_size=n))
    elif wk == "array_full":
        k = n * (dim if mode == "dir" else 1)
        weights["w"] = draw(st.lists(logfloat(0.1, 10.0), min_size=k, max_size=k))
    elif wk == "call_pow":
        weights["p"] = draw(st.floats(0.5, 3.0))
    elif wk == "call_logistic":
        weights["p"] = draw(st.floats(0.1, 0.4))
        weights["mean"] = draw(st.floats(0.3, 0.9))
    elif wk == "call_const":
        weights["c"] = draw(logfloat(0.1, 10.0))
    if wk == "list" and mode == "dir" and KNOWN["weights_list_directional"]:
        weights["kind"] = "array"  # excluded by construction (finding)
    loss = draw(st.sampled_from(["soft_l1", "soft_l1", "linear", "linear", "huber"]))
    w_max = max(weights["w"]) if "w" in weights else weights.get("c", 1.0)
    if loss != "linear" and not wild and NEAR * sill_t * w_max > 1.0 and draw(st.integers(0, 3)) != 0:
        loss = "linear"  # robust losses are mostly exercised in their quadratic regime (see robust_ok)
    case = {
        "mode": mode,
        "truth": truth,
        "u": [float(v) for v in u],
        "current": current,
        "bounds": bounds,
        "select": select,
        "anis_arg": anis_arg,
        "sill": sill,
        "init_guess": init_guess,
        "weights": weights,
        "method": draw(st.sampled_from(["trf", "trf", "dogbox"])),
        "loss": loss,
        "max_eval": draw(st.sampled_from([None, None, None, 5000])),
        "return_r2": draw(st.sampled_from([True, True, True, False])),
        "y2d": draw(st.booleans()),
        "as_list": draw(st.booleans()),
        "cf_kwargs": draw(st.sampled_from([None, None, {}])),
    }
    return case


# ---------------------------------------------------------------------------
# oracle-side reading of the docstring


def _status(select, names):
    out = {}
    for nm in names:
        s = select.get(nm, True)
        if isinstance(s, bool):
            out[nm] = "fit" if s else "off"
        else:
            out[nm] = "fix"
    return out


def _plan(case, names, pre, bnd):
    """What the docstring says must happen.

    pre : parameter values of the model after the fixed values were applied
    bnd : effective bounds name -> (lo, hi, type)
    """
    stat = _status(case["select"], names)
    plan = {"status": stat, "sill": None, "raise": None, "expect": {}, "var_cap": None}
    for nm in names:
        if stat[nm] != "fit":
            plan["expect"][nm] = pre[nm]
    sill = case["sill"]
    if sill is None or sill is True:
        return plan
    s = (pre["var"] + pre["nugget"]) if sill is False else float(sill)
    plan["sill"] = s
    if not (bnd["var"][0] + bnd["nugget"][0] <= s <= bnd["var"][1] + bnd["nugget"][1]):
        plan["raise"] = "sill out of bounds"
        return plan
    var_off, nug_off = stat["var"] != "fit", stat["nugget"] != "fit"
    if var_off and nug_off:
        # "the nugget will be recalculated ... if the variance is bigger than the
        # sill, nugget will be set to its lower bound and the variance will be
        # set to the fitting partial sill"
        del plan["expect"]["nugget"]
        stat["nugget"] = "derived"
        if pre["var"] > s:
            del plan["expect"]["var"]
            stat["var"] = "derived"
            plan["nugget_low"] = True
    elif var_off:
        if pre["var"] > s:
            plan["raise"] = "variance deselected and bigger than the sill"
            return plan
        stat["nugget"] = "derived"
    elif nug_off:
        if pre["nugget"] > s:
            plan["raise"] = "nugget deselected and bigger than the sill"
            return plan
        del_ = plan["expect"].pop("var", None)  # noqa: F841
        stat["var"] = "derived"
    else:
        stat["nugget"] = "derived"
        plan["var_cap"] = s  # "var <= sill in this case"
    return plan


def _start_of(case, nm, pre):
    """Documented start value of a fitted parameter, None for the 'default' rule."""
    ig = case["init_guess"]
    if ig == "current":
        return pre[nm]
    if ig == "default":
        return None
    if nm in ig:
        return ig[nm]
    return pre[nm] if ig.get("default", "default") == "current" else None


def _weights_arg(case, n, dim):
    w = case["weights"]
    k = w["kind"]
    if k == "none":
        return None
    if k == "inv":
        return "inv"
    if k in ("array", "array_full"):
        return np.array(w["w"], dtype=float)
    if k == "list":
        return [float(v) for v in w["w"]]
    if k == "call_pow":
        p = w["p"]
        return lambda x: (1.0 + np.asarray(x) / (np.max(x) + 1e-300)) ** (-p)
    if k == "call_logistic":
        from gstools.covmodel.fit import logistic_weights

        return logistic_weights(p=w["p"], mean=w["mean"])
    if k == "call_const":
        c = w["c"]
        return lambda x: np.full_like(np.asarray(x, dtype=float), c)
    raise common.HarnessError(f"unknown weights kind {k}")


def _sigma_vec(case, x, dim):
    """sigmas handed to curve_fit according to the documented weights."""
    w = case["weights"]
    k = w["kind"]
    xl = np.concatenate(_blocks(case, x, [1.0] * (dim - 1))) if case["mode"] != "dir" else np.tile(x, dim)
    if k == "none":
        return np.ones_like(xl)
    if k == "inv":
        return 1.0 + xl
    if k in ("array", "array_full", "list"):
        ww = np.array(w["w"], dtype=float)
        return 1.0 / (np.tile(ww, xl.size // ww.size))
    return 1.0 / np.asarray(_weights_arg(case, x.size, dim)(xl), dtype=float)


def _sigma_eff(case, x, dim):
    """Harmonic rms of the sigmas."""
    sig = _sigma_vec(case, x, dim)
    return float(np.sqrt(sig.size / np.sum(1.0 / sig**2)))


def _cost(loss, f):
    """scipy.optimize.least_squares cost 0.5*sum(rho(f^2)) (f_scale = 1)."""
    z = np.asarray(f, dtype=float) ** 2
    if loss == "linear":
        rho = z
    elif loss == "soft_l1":
        rho = 2.0 * (np.sqrt(1.0 + z) - 1.0)
    elif loss == "huber":
        rho = np.where(z <= 1.0, z, 2.0 * np.sqrt(z) - 1.0)
    else:
        raise common.HarnessError(f"loss {loss}")
    return 0.5 * float(np.sum(rho))


def _same(a, b, ulps=0):
    """bit-identical (ulps=0) or equal up to a few roundings."""
    a, b = np.asarray(a, dtype=float), np.asarray(b, dtype=float)
    if a.shape != b.shape:
        return False
    if ulps == 0:
        return bool(np.all(a == b))
    return bool(np.all(np.abs(a - b) <= ulps * EPS * np.maximum(np.abs(a), np.abs(b))))


def _setup_model(case, tags):
    """Model under test: constructed with the 'current' values, custom bounds applied."""
    truth = case["truth"]
    cur = case["current"]
    spec = _spec_from(truth, cur, anis=cur.get("anis"))
    m = lib(build_model, spec, _what="model construction", _tags=tags)
    if case["bounds"]:
        b = {k: [common.unjson_float(v[0]), common.unjson_float(v[1]), v[2]] for k, v in case["bounds"].items()}
        lib(m.set_arg_bounds, _what="set_arg_bounds", _tags=tags, **b)
    return m


def _apply_fixed(m, case, names, tags):
    """Reference: fixed values through the public setters (variance last, as
    the variance of TPL models depends on the other parameters)."""
    var_val = None
    for nm in names:
        s = case["select"].get(nm, True)
        if not isinstance(s, bool):
            if nm == "var":
                var_val = float(s)
            else:
                lib(setattr, m, nm, float(s), _what=f"set {nm}", _tags=tags)
    if var_val is not None:
        lib(setattr, m, "var", var_val, _what="set var", _tags=tags)
    if not isinstance(case["anis_arg"], bool):
        lib(setattr, m, "anis", case["anis_arg"], _what="set anis", _tags=tags)


def _read(m, names):
    out = {nm: float(getattr(m, nm)) for nm in names}
    out["anis"] = [float(a) for a in m.anis]
    out["angles"] = [float(a) for a in m.angles]
    return out


def check_fit(case, rec):
    # "probe": true re-executes a known-finding input with every exclusion off
    known = {k: False for k in KNOWN} if case.get("probe") else KNOWN
    truth = case["truth"]
    mode, cls, dim = case["mode"], truth["cls"], truth["dim"]
    names = ["var", "len_scale", "nugget"] + _opt_order(cls)
    is_dir = mode == "dir"
    tpl = cls in gens.TPL
    sill_kind = "none" if case["sill"] is None else ("true" if case["sill"] is True else ("false" if case["sill"] is False else "value"))
    ig = case["init_guess"]
    init_kind = ig if isinstance(ig, str) else "dict+" + ig.get("default", "default")
    tags = {
        "model": cls,
        "dim": dim,
        "mode": mode,
        "method": case["method"],
        "loss": case["loss"],
        "sill": sill_kind,
        "init": init_kind,
        "weights": case["weights"]["kind"],
    }
    rec.label(mode, cls, f"sill_{sill_kind}", f"init_{init_kind}", f"w_{case['weights']['kind']}", case["method"], case["loss"])
    tv = _truth_values(truth)
    sill_t = tv["var"] + tv["nugget"]
    _, dr = _full_opt(cls, dim, truth["opt"], _extra(truth))
    x = np.array(case["u"], dtype=float) * _lref(truth, dr)
    n = x.size
    y = _curve(case, tv, truth["anis"], x)
    require(np.all(np.isfinite(y)), "oracle: true variogram not finite", dict(tags, kind="oracle"))

    # ---- model under test and reference for the state before fitting
    model = _setup_model(case, tags)
    ref = _setup_model(case, tags)
    bnd = {k: _norm_bound(v) for k, v in _default_bounds(cls, dim).items()}
    for k, v in case["bounds"].items():
        bnd[k] = _norm_bound(v)
    _apply_fixed(ref, case, names, tags)
    pre = _read(ref, names)
    plan = _plan(case, names, pre, bnd)
    stat = plan["status"]
    anis_arg = case["anis_arg"]
    anis_fit = is_dir and anis_arg is True
    free = [nm for nm in names if stat[nm] == "fit"]
    k_free = len(free) + ((dim - 1) if anis_fit else 0)
    pattern = "".join({"fit": "F", "off": "o", "fix": "x", "derived": "d"}[stat[nm]] for nm in names)
    rec.label(f"nfree{min(k_free, 6)}")
    for nm in names:
        rec.label(f"{nm}:{_status(case['select'], names)[nm]}")
    if dim > 1:
        rec.label("anis:" + ("fit" if anis_arg is True else "off" if anis_arg is False else "fix") + ("" if is_dir else "(iso data)"))
    if case["bounds"]:
        rec.label("custom_bounds")
    tags["pattern"] = pattern
    if k_free == 0 and plan["raise"] is None:
        rec.label("nothing_to_fit")  # generator avoids this; behaviour undocumented
        rec.nontrivial(False)
        return

    # ---- call
    xx = x.tolist() if case["as_list"] else x
    yy = y.reshape(dim, n) if (is_dir and case["y2d"]) else y
    if case["as_list"]:
        yy = yy.tolist()
    else:
        # memory layouts of equal arrays: transposed view of a (bins, dim) table, Fortran order, read-only
        lay = case.get("seed", 0) % 4 if "seed" in case else (n + k_free) % 4
        if is_dir and case["y2d"] and lay == 1:
            yy = np.ascontiguousarray(np.asarray(yy).T).T
            rec.label("y_transposed_view")
        elif is_dir and case["y2d"] and lay == 2:
            yy = np.asfortranarray(yy)
            rec.label("y_fortran_order")
        elif lay == 3:
            yy = np.array(yy)
            yy.setflags(write=False)
            xx = np.array(xx)
            xx.setflags(write=False)
            rec.label("xy_read_only")
    kw = dict(
        anis=anis_arg,
        sill=case["sill"],
        init_guess=(dict(ig) if isinstance(ig, dict) else ig),
        weights=_weights_arg(case, n, dim),
        method=case["method"],
        loss=case["loss"],
        max_eval=case["max_eval"],
        return_r2=case["return_r2"],
        curve_fit_kwargs=(None if case["cf_kwargs"] is None else dict(case["cf_kwargs"])),
    )
    kw.update(case["select"])
    if plan["raise"] is not None:
        rec.label("expect_ValueError")
        rec.nontrivial(True)
        try:
            with quiet():
                model.fit_variogram(xx, yy, **kw)
        except ValueError:
            return
        except Exception as exc:  # noqa: BLE001
            raise Violation(
                f"documented ValueError ({plan['raise']}) expected, got {type(exc).__name__}: {exc}",
                tags=dict(tags, kind="error_path"),
            ) from exc
        raise Violation(f"documented ValueError not raised: {plan['raise']}", tags=dict(tags, kind="error_path"))

    # ---- is the generating curve reachable from a near start? (oracle side)
    consistent = True
    for nm, v in plan["expect"].items():
        if abs(v - tv[nm]) > 1e-12 * _scale(nm, tv):
            consistent = False
    if plan["sill"] is not None and abs(plan["sill"] - sill_t) > 1e-12 * sill_t:
        consistent = False
    if plan.get("nugget_low"):
        consistent = False
    for nm in free:
        lo, hi, _ty = bnd[nm]
        if not lo <= tv[nm] <= hi:
            consistent = False
    if plan["var_cap"] is not None and tv["var"] > plan["var_cap"] * (1 + 1e-12):
        consistent = False
    if is_dir:
        if anis_fit:
            lo, hi, _ty = bnd["anis"]
            if not all(lo <= a <= hi for a in truth["anis"]):
                consistent = False
        elif not _same(pre["anis"], truth["anis"], ulps=4):
            consistent = False
    near, far10 = True, False
    starts = {}

    def _bounds_default(b):
        lo_, hi_ = float(b[0]), float(b[1])
        if math.isfinite(lo_) and math.isfinite(hi_):
            return 0.5 * (lo_ + hi_)
        if math.isfinite(lo_):
            return lo_ + 1.0
        if math.isfinite(hi_):
            return hi_ - 1.0
        return 0.0

    def _default_rule(nm):
        """Documented 'default' start: correlation length = mean bin centre (len_scale = mean(x) * rescale), var and nugget = mean of the
        variogram values, everything else the default value of its bounds."""
        if plan["sill"] is not None:
            return None
        if nm == "len_scale":
            return float(np.mean(x)) * float(truth.get("rescale") or dr)
        if nm in ("var", "nugget"):
            return float(np.mean(y))
        return _bounds_default(bnd[nm])

    for nm in free:
        s0 = _start_of(case, nm, pre)
        if s0 is None:
            s0 = _default_rule(nm)
        starts[nm] = s0
        lo, hi, _ty = bnd[nm]
        if nm == "var" and plan["var_cap"] is not None:
            hi = plan["var_cap"]
        if s0 is None or not _strictly_inside(s0, lo, hi):
            near = False
            far10 = True
            continue
        d = abs(s0 - tv[nm]) / _scale(nm, tv)
        near &= d <= NEAR * (1 + 1e-9)
        far10 |= d >= 0.1
    if anis_fit:
        a0 = _start_of(case, "anis", pre)
        if a0 is None and plan["sill"] is None:
            a0 = [_bounds_default(bnd["anis"])] * (dim - 1)
        lo, hi, _ty = bnd["anis"]
        if a0 is None:
            near, far10 = False, True
        else:
            for s0, a in zip(a0, truth["anis"]):
                if not _strictly_inside(s0, lo, hi):
                    near = False
                    continue
                d = abs(s0 - a) / a
                near &= d <= NEAR * (1 + 1e-9)
                far10 |= d >= 0.1
    # ---- start of the optimisation as documented (for the monotone-cost check)
    start_vals, start_anis = None, list(pre["anis"])
    if all(starts.get(nm) is not None for nm in free):
        sv_ = {nm: pre[nm] for nm in names}
        ok = True
        for nm in free:
            lo, hi, _ty = bnd[nm]
            if nm == "var" and plan["var_cap"] is not None:
                hi = plan["var_cap"]
            ok &= _strictly_inside(starts[nm], lo, hi)  # otherwise a default from the bounds is used
            sv_[nm] = float(starts[nm])
        if anis_fit:
            a0 = _start_of(case, "anis", pre)
            if a0 is None and plan["sill"] is None:
                a0 = [_bounds_default(bnd["anis"])] * (dim - 1)
            lo, hi, _ty = bnd["anis"]
            if a0 is None or not all(_strictly_inside(a, lo, hi) for a in a0):
                ok = False
            else:
                start_anis = [float(a) for a in a0]
        if plan["sill"] is not None:
            s_ = plan["sill"]
            if plan.get("nugget_low"):
                sv_["nugget"] = bnd["nugget"][0]
                sv_["var"] = s_ - sv_["nugget"]
            elif stat["var"] == "derived":
                sv_["var"] = s_ - sv_["nugget"]
            else:
                sv_["nugget"] = s_ - sv_["var"]
            ok &= sv_["nugget"] >= 0 and sv_["var"] > 0
        if ok:
            start_vals = sv_
    well_posed = y.size >= k_free  # at least as many data as free parameters
    reachable = consistent and near and well_posed
    keys = list(free) + ([f"anis{i}" for i in range(dim - 1)] if anis_fit else [])
    sens = _sensitivity(case, keys, plan, bnd, x, y) if reachable else None
    n_shape = sum(1 for nm in free if nm not in ("var", "len_scale", "nugget"))
    # "identifiable configuration" (DESIGN C10 (ii)): see SMIN / MAX_SHAPE
    identifiable = sens is not None and sens[1] >= SMIN and n_shape <= MAX_SHAPE
    # models with a kink at their range are not differentiable in len_scale
    # where a bin crosses the range: gradient based solvers stop there with
    # gtol/xtol "satisfied" (observed for 'trf' and 'dogbox').  Recovery is
    # demanded only if no bin lies within the +-30 % box around the range
    # (and not for 'dogbox', whose Gauss-Newton model is rank deficient for
    # the bins beyond the range).
    smooth_enough = True
    if _kinked(truth):
        lref = _lref(truth, dr)
        rel = np.concatenate(_blocks(case, x, truth["anis"])) / lref
        smooth_enough = case["method"] != "dogbox" and not np.any((rel > 0.6) & (rel < 1.45))
    eps_g = None
    if reachable and identifiable:
        sc_max = max([1.0] + [_scale(nm, tv) for nm in free if nm not in ("var", "nugget")])
        eps_g = GTOL * _sigma_eff(case, x, dim) ** 2 * sc_max * math.sqrt(max(k_free, 1)) / (sill_t**2 * sens[1])
    scale_ok = eps_g is not None and eps_g <= CURVE_TOL
    # robust losses have f_scale = 1 in data units: where the weighted start
    # residuals exceed 1 the cost is L1-like (non-convex in the non-linear
    # parameters, ftol stops on plateaus); recovery is demanded only in the
    # quadratic regime of the loss
    sig = _sigma_vec(case, x, dim)
    robust_ok = case["loss"] == "linear" or (
        start_vals is not None and float(np.max(np.abs((_curve(case, start_vals, start_anis, x) - y) / sig))) <= 1.0
    )
    expect_recovery = reachable and identifiable and smooth_enough and robust_ok and (scale_ok or not known["scipy_abs_tolerance"])
    # optimum on a bound of a free parameter (nugget=0, len_low=0, alpha=2, var=sill)?
    at_bound = any(
        (tv[nm] - bnd[nm][0]) <= 1e-9 * _scale(nm, tv) or (bnd[nm][1] - tv[nm]) <= 1e-9 * _scale(nm, tv) for nm in free
    ) or (plan["var_cap"] is not None and "var" in free and plan["var_cap"] - tv["var"] <= 1e-9 * sill_t)
    tol_c = CURVE_TOL * sill_t + (ABS_TOL * float(np.max(sig)) if at_bound else 0.0)
    constraint_active = (
        any(stat[nm] != "fit" for nm in names) or plan["sill"] is not None or bool(case["bounds"]) or mode != "iso" or not isinstance(anis_arg, bool)
    )
    rec.nontrivial(bool(constraint_active and far10))
    if expect_recovery:
        rec.label("recovery_expected")
    elif reachable and identifiable and smooth_enough and not robust_ok:
        rec.label("reachable_but_robust_loss_L1_regime")
    elif reachable and identifiable and smooth_enough:
        rec.label("reachable_but_abs_tolerance_region")
        rec.exclude("scipy_abs_tolerance")
    elif reachable:
        rec.label("reachable_but_" + ("multi_shape" if n_shape > MAX_SHAPE else "ill_conditioned" if not identifiable else "kink_in_box"))
    else:
        rec.label("underdetermined" if consistent and near else "consistent_far_start" if consistent else "truth_unreachable")

    try:
        with quiet():
            res = model.fit_variogram(xx, yy, **kw)
    except RuntimeError as exc:
        # scipy: "Optimal parameters not found: The maximum number of function evaluations is exceeded."
        if expect_recovery:
            ref_err = _reference_fit(case, names, free, anis_fit, plan, bnd, start_vals, start_anis, x, y, sig) if scale_ok else 0.0
            if ref_err is None or ref_err > tol_c:
                rec.label("scipy_limit_confirmed_by_reference_fit")
                return
            raise Violation(
                f"fit from a start within 30% of the truth did not converge ({exc}) while the same scipy call on the oracle's curve reaches the data to {ref_err:.3g}",
                tags=dict(tags, kind="no_convergence"),
            ) from exc
        rec.label("no_convergence(recovery not demanded)")
        return
    except Exception as exc:  # noqa: BLE001
        vtags = dict(tags, kind="exception", exc=type(exc).__name__)
        if isinstance(exc, ValueError) and case["method"] == "dogbox":
            if _hits_open_bound(str(exc)):
                # a dogbox iterate sits exactly on an open bound of the model
                vtags["kind"] = "dogbox_open_bound"
                if known["dogbox_open_bound"]:
                    rec.exclude("dogbox_open_bound")
                    return
        if isinstance(exc, ValueError) and tpl and str(exc).startswith("var needs to be") and ("var" not in free or case["method"] != "dogbox"):
            # no optimiser iterate puts var itself on/over its bound here: the
            # value is the transient var = var_raw * var_factor (see KNOWN)
            vtags["kind"] = "tpl_var_bounds_transient"
            if known["tpl_var_bounds_transient"]:
                rec.exclude("tpl_var_bounds_transient")
                return
        raise Violation(f"fit_variogram raised {type(exc).__name__}: {exc}", tags=vtags) from exc

    require(len(res) == (3 if case["return_r2"] else 2), f"fit_variogram returned {len(res)} values", dict(tags, kind="return"))
    para, pcov = res[0], res[1]
    r2_lib = float(res[2]) if case["return_r2"] else None
    post = _read(model, names)

    # regions of the two stale-state findings (see KNOWN)
    stale_var = tpl and stat["var"] != "fit" and any(nm in free for nm in ("len_scale", "hurst", "len_low"))
    stale_nug = plan["sill"] is not None and stat["nugget"] == "derived" and stat["var"] == "fit"
    skip_var = stale_var and known["tpl_stale_var"]
    skip_nug = stale_nug and known["sill_stale_nugget"]
    if skip_var:
        rec.exclude("tpl_stale_var")
    if skip_nug:
        rec.exclude("sill_stale_nugget")

    # ---- (vi) returned dict == model state
    want_keys = set(names) | ({"anis"} if is_dir else set())
    require(set(para) == want_keys, f"returned keys {sorted(para)} != {sorted(want_keys)}", dict(tags, kind="dict_keys"))
    for nm in names:
        pv = float(para[nm])
        if nm == "var" and skip_var:
            continue
        ulps = 4 if (tpl and nm == "var") else 0  # var = var_raw * var_factor(): one rounding each way
        rec.discrepancy("dict_vs_model", abs(pv - post[nm]) / max(abs(pv), 1e-300), 4 * EPS)
        require(
            _same(pv, post[nm], ulps),
            f"returned {nm}={pv!r} but model.{nm}={post[nm]!r} after the call",
            dict(tags, kind="dict_vs_model", par=nm, stale_var=stale_var),
        )
    if is_dir:
        require(
            _same(np.asarray(para["anis"], dtype=float), post["anis"]),
            f"returned anis {para['anis']} != model.anis {post['anis']}",
            dict(tags, kind="dict_vs_model", par="anis"),
        )
    require(np.shape(pcov) == (k_free, k_free), f"pcov shape {np.shape(pcov)}: {k_free} parameters should have been fitted (pattern {pattern})", dict(tags, kind="n_fitted"))

    # ---- (iii) prescribed values untouched
    for nm, v in plan["expect"].items():
        ulps = 4 if (tpl and nm == "var") else 0
        how = "deselected" if _status(case["select"], names)[nm] == "off" else "fixed"
        if nm == "var" and skip_var:
            # the returned dict still has to carry the prescribed value
            require(_same(float(para[nm]), v, ulps), f"var was {how} at {v!r} but is returned as {float(para[nm])!r}", dict(tags, kind="prescribed_changed", par=nm, where="dict"))
            continue
        require(
            _same(post[nm], v, ulps),
            f"{nm} was {how} at {v!r} but is {post[nm]!r} after the call (rel. change {abs(post[nm] - v) / max(abs(v), 1e-300):.3g})",
            dict(tags, kind="prescribed_changed", par=nm, stale_var=stale_var),
        )
    if not anis_fit and dim > 1:
        require(
            _same(post["anis"], pre["anis"]),
            f"anis not fitted (anis={anis_arg!r}, directional={is_dir}) but changed {pre['anis']} -> {post['anis']}",
            dict(tags, kind="prescribed_changed", par="anis"),
        )
    require(_same(post["angles"], pre["angles"]), "angles changed by fitting", dict(tags, kind="prescribed_changed", par="angles"))
    require(model.rescale == ref.rescale, "rescale changed by fitting", dict(tags, kind="prescribed_changed", par="rescale"))

    # ---- (iv) bounds
    for nm in names + (["anis"] if dim > 1 else []):
        v = post[nm]
        if nm == "anis" and mode == "latlon":
            continue
        require(
            _inside(v, bnd[nm]),
            f"{nm}={v!r} outside its bounds {bnd[nm]} after fitting",
            dict(tags, kind="bounds", par=nm),
        )
    # the model's own view of the bounds is the one we set
    for nm, b in case["bounds"].items():
        mb = _norm_bound(model.arg_bounds[nm])
        require(mb == _norm_bound(b), f"custom bounds of {nm} changed by fitting: {mb}", dict(tags, kind="bounds_changed", par=nm))

    # ---- (v) sill
    if plan["sill"] is not None:
        s = plan["sill"]
        tol = 1e-12 * s
        for what, v, g in (("model", post["var"], post["nugget"]), ("returned dict", float(para["var"]), float(para["nugget"]))):
            if skip_nug or (skip_var and what == "model"):
                continue
            dev = abs(v + g - s)
            rec.discrepancy("sill", dev, tol)
            require(
                dev <= tol,
                f"sill={case['sill']!r} -> {s!r}: var+nugget of the {what} is {v + g!r} (off by {dev:.3g}, {dev / s:.3g} relative)",
                dict(tags, kind="sill", where=what, stale_nug=stale_nug, stale_var=stale_var),
            )
        if plan.get("nugget_low"):
            require(post["nugget"] == bnd["nugget"][0], "var>sill with var and nugget deselected: nugget not at its lower bound", dict(tags, kind="sill_nugget_low"))
        if plan["var_cap"] is not None:
            require(post["var"] <= s * (1 + 1e-12), f"var={post['var']!r} exceeds the prescribed sill {s!r}", dict(tags, kind="bounds", par="var"))

    # ---- r2 as returned vs oracle evaluation of the model state
    c_fit = _curve(case, post, post["anis"], x)
    resid = c_fit - y
    ss_res = float(np.sum(resid**2))
    ss_tot = float(np.sum((y - np.mean(y)) ** 2))
    r2_or = 1.0 - ss_res / ss_tot
    if r2_lib is not None:
        tol = 1e-9 * max(1.0, abs(r2_or))
        rec.discrepancy("r2_value", abs(r2_lib - r2_or), tol)
        require(
            abs(r2_lib - r2_or) <= tol,
            f"returned r2={r2_lib!r} but the fitted model has r2={r2_or!r} against the data",
            dict(tags, kind="r2_value"),
        )
    if skip_var or skip_nug:
        # search on past the stale-state findings: judge the optimum by the
        # fitted free parameters with the documented derived values
        vals = dict(post)
        if skip_var:
            vals["var"] = float(para["var"])
        if skip_nug:
            vals["nugget"] = max(plan["sill"] - vals["var"], 0.0)
        c_fit = _curve(case, vals, post["anis"], x)
        resid = c_fit - y
        ss_res = float(np.sum(resid**2))
        r2_or = 1.0 - ss_res / ss_tot
        r2_lib = None
        post = dict(post, var=vals["var"], nugget=vals["nugget"])

    # ---- the optimiser never returns something worse than its start
    c1 = _cost(case["loss"], resid / sig)
    if start_vals is not None:
        c0 = _cost(case["loss"], (_curve(case, start_vals, start_anis, x) - y) / sig)
        rec.label("cost_checked")
        if np.isfinite(c0):
            tol_cost = 1e-9 * c0 + 1e-16 * _cost("linear", y / sig)  # (1e-8 relative residuals)^2: rounding of the curve
            rec.discrepancy("cost_increase", max(c1 - c0, 0.0), tol_cost)
            require(
                c1 <= c0 + tol_cost,
                f"fit result is worse than its documented start: cost {c1:.6g} > {c0:.6g} ({case['loss']} loss, weighted)",
                dict(tags, kind="cost_increase"),
            )

    # ---- (i) + (ii) recovery
    if not expect_recovery:
        return
    err = float(np.max(np.abs(resid)))
    rec.label("optimum_on_bound" if at_bound else "optimum_interior")
    if err > tol_c and scale_ok:  # (outside scale_ok only with known["scipy_abs_tolerance"] off: no absolution)
        if _is_local_optimum(case, names, free, anis_fit, plan, bnd, post, x, y, sig, c1):
            # curve_fit legitimately ended in a secondary optimum of the (weighted,
            # robust) cost: no neighbouring parameter set has a lower oracle cost
            rec.label("ended_in_secondary_optimum")
            return
        ref_err = _reference_fit(case, names, free, anis_fit, plan, bnd, start_vals, start_anis, x, y, sig)
        if ref_err is None or ref_err > tol_c:
            # the same scipy call on the oracle's own curve does not get there either
            rec.label("scipy_limit_confirmed_by_reference_fit")
            return
    rec.discrepancy("curve", err, tol_c)
    require(
        err <= tol_c,
        f"fitted curve misses the noise-free data by {err:.3g} (= {err / sill_t:.3g} sill, tol {tol_c:.3g}); para={ {k: (float(v) if k != 'anis' else list(map(float, v))) for k, v in para.items()} }",
        dict(tags, kind="curve", scale_ok=scale_ok),
    )
    # r2 budget inflated like the (squared) curve budget
    # (and never tighter than what the curve budget implies for flat data)
    tol_r2 = max(R2_TOL * (tol_c / (CURVE_TOL * sill_t)) ** 2, y.size * tol_c**2 / ss_tot)
    rec.discrepancy("one_minus_r2", 1.0 - r2_or, tol_r2)
    require(1.0 - r2_or <= tol_r2, f"r2 of the fitted model is 1-{1 - r2_or:.3g} (tol {tol_r2:.3g})", dict(tags, kind="r2"))
    if r2_lib is not None:
        require(1.0 - r2_lib <= tol_r2, f"returned r2 is 1-{1 - r2_lib:.3g} (tol {tol_r2:.3g})", dict(tags, kind="r2"))
    if sens is None:
        rec.label("sensitivity_not_finite")
        return
    uniq = sens[0]
    rnorm = float(np.sqrt(ss_res)) / sill_t
    n_assert = 0
    for j, k in enumerate(keys):
        is_anis = k.startswith("anis")
        t_k = truth["anis"][int(k[4:])] if is_anis else tv[k]
        s_k = t_k if is_anis else _scale(k, tv)
        fitted_v = post["anis"][int(k[4:])] if is_anis else post[k]
        e = abs(fitted_v - t_k) / s_k
        # linearised: |dtheta_j|/scale_j <= ||r||/(sill * uniq_j); margin 10 for the non-linearity
        pinned = uniq[j] > 0 and 10.0 * max(rnorm, 1e-12) / uniq[j] <= PARAM_TOL
        if not pinned:
            rec.label(f"unidentifiable:{k.rstrip('0123456789')}")
            continue
        n_assert += 1
        rec.discrepancy("param", e, PARAM_TOL)
        require(
            e <= PARAM_TOL,
            f"{k} recovered as {fitted_v!r}, truth {t_k!r} (rel. error {e:.3g}, residual {rnorm:.3g} sill, unique sensitivity {uniq[j]:.3g})",
            dict(tags, kind="param", par=k),
        )
    rec.label("params_all_asserted" if n_assert == len(keys) else ("params_some_asserted" if n_assert else "params_none_asserted"))


def _reference_fit(case, names, free, anis_fit, plan, bnd, start_vals, start_anis, x, y, sig):
    """The documented optimisation (same start, bounds, sigma, method, loss,
    max_nfev, scipy defaults otherwise) on the oracle's own curve.

    Returns max |curve - data| at its result, or None when scipy gives up
    (RuntimeError).  Used only to tell a limitation of scipy's solver from a
    defect of fit_variogram after a recovery assertion failed."""
    from scipy.optimize import curve_fit

    if start_vals is None:
        return None
    stat = plan["status"]
    n_anis = len(start_anis)
    keys = list(free) + ([f"anis{i}" for i in range(n_anis)] if anis_fit else [])
    lo, hi, p0 = [], [], []
    for k in keys:
        if k.startswith("anis"):
            l_, h_, _ty = bnd["anis"]
            p0.append(start_anis[int(k[4:])])
        else:
            l_, h_, _ty = bnd[k]
            if k == "var" and plan["var_cap"] is not None:
                h_ = plan["var_cap"]
            p0.append(start_vals[k])
        lo.append(l_)
        hi.append(h_)

    def f(_x, *theta):
        vals, anis = dict(start_vals), list(start_anis)
        for k, v, l_, h_ in zip(keys, theta, lo, hi):
            # stay off the (possibly open) bounds of the model
            v = min(max(v, np.nextafter(l_, np.inf)), np.nextafter(h_, -np.inf))
            if k.startswith("anis"):
                anis[int(k[4:])] = v
            else:
                vals[k] = v
        if plan["sill"] is not None and stat["nugget"] == "derived" and stat["var"] == "fit":
            vals["nugget"] = max(plan["sill"] - vals["var"], 0.0)
        try:
            return _curve(case, vals, anis, x)
        except ValueError:
            return np.full(y.size, 1e300)

    kw = dict(p0=p0, bounds=(lo, hi), method=case["method"], loss=case["loss"], max_nfev=case["max_eval"])
    if case["weights"]["kind"] != "none":
        kw.update(sigma=sig, absolute_sigma=True)
    try:
        with quiet():
            popt, _pcov = curve_fit(f, np.arange(y.size, dtype=float), y, **kw)
    except RuntimeError:
        return None
    except ValueError:
        return None
    return float(np.max(np.abs(f(None, *popt) - y)))


def _is_local_optimum(case, names, free, anis_fit, plan, bnd, post, x, y, sig, c1):
    """No admissible change of a single free parameter by 0.1 % or 1 % of its
    scale lowers the oracle's cost (same weights and loss) by more than 1e-6."""
    truth = case["truth"]
    tv = _truth_values(truth)
    stat = plan["status"]
    base = {nm: post[nm] for nm in names}
    base_anis = list(post["anis"])
    keys = list(free) + ([f"anis{i}" for i in range(len(base_anis))] if anis_fit else [])
    for k in keys:
        is_anis = k.startswith("anis")
        lo, hi, _ty = bnd["anis"] if is_anis else bnd[k]
        if k == "var" and plan["var_cap"] is not None:
            hi = min(hi, plan["var_cap"])
        v0 = base_anis[int(k[4:])] if is_anis else base[k]
        sc = truth["anis"][int(k[4:])] if is_anis else _scale(k, tv)
        for d in (1e-3, -1e-3, 1e-2, -1e-2):
            v = min(max(v0 + d * sc, lo), hi)
            if v == v0 or not _inside(v, (lo, hi, "cc")):
                continue
            if not is_anis and not _inside(v, (bnd[k][0], bnd[k][1], bnd[k][2])) and not (k == "var" and v == hi):
                continue
            vals, anis = dict(base), list(base_anis)
            if is_anis:
                anis[int(k[4:])] = v
            else:
                vals[k] = v
            if k == "var" and plan["sill"] is not None and stat["nugget"] == "derived":
                vals["nugget"] = plan["sill"] - v
                if vals["nugget"] < 0:
                    continue
            c = _cost(case["loss"], (_curve(case, vals, anis, x) - y) / sig)
            if np.isfinite(c) and c < c1 * (1.0 - 1e-6):
                return False
    return True


def _sensitivity(case, keys, plan, bnd, x, y):
    """Finite-difference sensitivity of the oracle curve at the truth.

    Returns (uniq, smin): per free parameter the norm of the part of its
    relative sensitivity (d curve / sill per relative change) orthogonal to the
    other parameters' sensitivities, and the smallest singular value of the
    relative Jacobian.  One-sided differences in both directions with a step
    of PARAM_TOL: a kink of the model (Linear at its range) inside the asserted
    neighbourhood shows up as a rank drop on one side; the smaller value counts.
    """
    truth = case["truth"]
    tv = _truth_values(truth)
    sill_t = tv["var"] + tv["nugget"]
    stat = plan["status"]
    base_anis = list(truth["anis"])
    s_cap = plan["sill"]

    def curve_at(theta):
        vals = dict(tv)
        anis = list(base_anis)
        for k, v in zip(keys, theta):
            if k.startswith("anis"):
                anis[int(k[4:])] = v
            else:
                vals[k] = v
        if s_cap is not None and stat["nugget"] == "derived" and stat["var"] == "fit":
            vals["nugget"] = max(s_cap - vals["var"], 0.0)
        return _curve(case, vals, anis, x)

    def tval(k):
        return base_anis[int(k[4:])] if k.startswith("anis") else tv[k]

    def scl(k):
        return base_anis[int(k[4:])] if k.startswith("anis") else _scale(k, tv)

    def bnd_of(k):
        lo, hi, ty = bnd["anis"] if k.startswith("anis") else bnd[k]
        if k == "var" and plan["var_cap"] is not None:
            hi, ty = min(hi, plan["var_cap"]), ty[0] + "c"
        return lo, hi, ty

    theta0 = np.array([tval(k) for k in keys], dtype=float)
    uniq = np.full(len(keys), np.inf)
    smin = np.inf
    for sgn in (1.0, -1.0):
        S = np.zeros((y.size, len(keys)))
        for j, k in enumerate(keys):
            h = sgn * PARAM_TOL * scl(k)
            tp = theta0.copy()
            tp[j] += h
            if not _inside(tp[j], bnd_of(k)):
                tp[j] -= 2 * h
                h = -h
            if not _inside(tp[j], bnd_of(k)):
                continue
            S[:, j] = (curve_at(tp) - y) / h * scl(k) / sill_t
        if not np.all(np.isfinite(S)):
            return None
        _U, sv, Vt = np.linalg.svd(S, full_matrices=False)
        V = Vt.T
        small = sv <= 1e-10 * max(float(sv.max()), 1e-300)
        with np.errstate(divide="ignore", over="ignore", invalid="ignore"):
            g = np.sum(V[:, ~small] ** 2 / sv[~small][None, :] ** 2, axis=1)
            u_here = np.where(g > 0, 1.0 / np.sqrt(g), np.inf)
        for kk in np.nonzero(small)[0]:
            u_here[np.abs(V[:, kk]) > 1e-6] = 0.0
        u_here[~np.any(S != 0.0, axis=0)] = 0.0
        uniq = np.minimum(uniq, u_here)
        smin = min(smin, float(sv.min()) if sv.size == len(keys) else 0.0)
    return uniq, smin


# ---------------------------------------------------------------------------
# documented error paths

ERR_KINDS = [
    "unknown_para",
    "bad_method",
    "wrong_size",
    "latlon_dir",
    "bad_guess_key",
    "bad_default_guess",
    "neg_sill",
    "sill_custom_bounds",
    "var_gt_sill",
    "nugget_gt_sill",
    "control",
]


@st.composite
def gen_errors(draw, tier="quick"):
    kind = draw(st.sampled_from(ERR_KINDS))
    cls = draw(st.sampled_from(["Gaussian", "Exponential", "Stable", "Matern", "Spherical", "TPLGaussian"]))
    dim = draw(st.sampled_from([1, 2, 3]))
    n = draw(st.integers(4, 10))
    case = {
        "kind": kind,
        "cls": cls,
        "dim": dim,
        "n": n,
        "var": draw(logfloat(0.1, 10)),
        "len_scale": draw(logfloat(0.1, 10)),
        "nugget": draw(st.one_of(st.just(0.0), logfloat(0.01, 5))),
        "f": draw(logfloat(1.05, 5.0)),
        "pick": draw(st.integers(0, 5)),
        "fixed": draw(st.booleans()),
    }
    return case


def check_errors(case, rec):
    kind, cls, dim, n = case["kind"], case["cls"], case["dim"], case["n"]
    tags = {"model": cls, "dim": dim, "kind": "error_path", "which": kind}
    rec.label(kind)
    rec.nontrivial(kind != "control")
    var, ls, nug = case["var"], case["len_scale"], case["nugget"]
    extra = {"latlon": True, "geo_scale": 57.29577951308232} if kind == "latlon_dir" else {}
    if extra:
        dim = 3
    model = lib(build_model, {"cls": cls, "dim": dim, "var": var, "len_scale": ls, "nugget": nug, "opt": {}}, _tags=tags, **extra)
    x = ls * np.linspace(0.1, 2.5, n)
    if extra:
        x = np.linspace(1.0, 100.0, n)
    y = np.asarray(model.variogram(x), dtype=float)
    kw = {}
    sill_t = var + nug
    f, pick = case["f"], case["pick"]
    if kind == "unknown_para":
        bad = ["foo", "alpha" if cls not in ("Stable",) else "nu", "angles", "rescale", "dim", "sill_"][pick]
        if bad in model.arg_bounds:
            bad = "foo"
        kw[bad] = False if case["fixed"] else 1.0
    elif kind == "bad_method":
        kw["method"] = ["lm", "TRF", "", "dogleg", "foo", "trf "][pick]
    elif kind == "wrong_size":
        sizes = [n + 1, n - 1, 2 * n if dim != 2 else 3 * n, n * dim + 1, 2 * n + 1, n * (dim + 1)]
        m = sizes[pick]
        y = np.resize(y, m)
    elif kind == "latlon_dir":
        y = np.tile(y, 3)
    elif kind == "bad_guess_key":
        bad = ["foo", "angles", "sill", "rescale", "alpha" if cls != "Stable" else "nu", "dim"][pick]
        kw["init_guess"] = {bad: 1.0}
    elif kind == "bad_default_guess":
        kw["init_guess"] = ["foo", "Default", {"default": "foo"}, {"len_scale": ls, "default": "curr"}, "", {"default": ""}][pick]
    elif kind == "neg_sill":
        kw["sill"] = -sill_t / f
    elif kind == "sill_custom_bounds":
        lib(model.set_arg_bounds, var=[0.5 * var, 2 * var, ["oo", "cc", "co", "oc"][pick % 4]], nugget=[0.0, 0.5 * var, "cc"], _tags=tags)
        kw["sill"] = 2.5 * var * f if case["fixed"] else 0.5 * var / f
    elif kind == "var_gt_sill":
        kw["sill"] = var / f
        kw["var"] = var if case["fixed"] else False
    elif kind == "nugget_gt_sill":
        g = max(nug, 0.1)
        model.nugget = g
        kw["sill"] = g / f
        kw["nugget"] = g if case["fixed"] else False
    if kind == "control":
        # the same call without the defect must succeed (guards against a check that passes because everything raises)
        lib(model.fit_variogram, x, y, init_guess="current", _what="control fit", _tags=tags, **{k: False for k in model.opt_arg})
        return
    try:
        with quiet():
            model.fit_variogram(x, y, **kw)
    except ValueError:
        return
    except Exception as exc:  # noqa: BLE001
        raise Violation(f"{kind}: documented ValueError expected, got {type(exc).__name__}: {exc}", tags=tags) from exc
    raise Violation(f"{kind}: documented ValueError not raised (kwargs { {k: (v if not isinstance(v, np.ndarray) else '...') for k, v in kw.items()} })", tags=tags)


# ---------------------------------------------------------------------------


@st.composite
def gen_intbins(draw, tier="quick"):
    """Integer-typed bin centres (np.arange, lists of ints) with per-bin weights of any size."""
    n = draw(st.integers(6, 14))
    return {
        "cls": draw(st.sampled_from(["Exponential", "Gaussian", "Spherical", "Matern"])),
        "dim": draw(st.sampled_from([1, 2, 3])),
        "n": n, "step": draw(st.sampled_from([1, 2, 3])),
        "len_frac": draw(st.floats(0.15, 0.6)), "var": draw(logfloat(0.2, 20.0)), "nugget": draw(st.sampled_from([0.0, 0.1, 0.5])),
        "weights": draw(st.lists(logfloat(0.01, 5.0), min_size=n, max_size=n)),
        "normalise": draw(st.booleans()),
        "xform": draw(st.sampled_from(["int64", "int32", "list"])),
        "wform": draw(st.sampled_from(["array", "list"])),
        "directional": draw(st.booleans()),
        "loss": draw(st.sampled_from(["linear", "soft_l1"])),
    }


def check_intbins(case, rec):
    cls, dim, n = case["cls"], case["dim"], case["n"]
    tags = {"sub": "int_bins", "model": cls, "dim": dim}
    rec.label(cls, case["xform"], case["wform"], "dir" if case["directional"] and dim > 1 else "iso")
    xi = np.arange(1, n + 1, dtype=np.int64) * int(case["step"])
    xf = xi.astype(float)
    ls = float(case["len_frac"] * xf[-1])
    w = np.array(case["weights"], dtype=float)
    if case["normalise"]:
        w = w / w.sum()
    wa = w if case["wform"] == "array" else [float(v) for v in w]
    is_dir = case["directional"] and dim > 1
    anis_t = [0.5] * (dim - 1)
    with quiet():
        truth = getattr(gs, cls)(dim=dim, var=case["var"], len_scale=ls, nugget=case["nugget"], **({"anis": anis_t} if is_dir else {}))
        if is_dir:
            y = np.array([truth.vario_axis(xf, axis=a) for a in range(dim)])
        else:
            y = np.asarray(truth.variogram(xf), dtype=float)

    def fit(xarg):
        with quiet():
            m = getattr(gs, cls)(dim=dim, var=1.3 * case["var"], len_scale=0.8 * ls, nugget=case["nugget"] + 0.05, **({"anis": [0.7] * (dim - 1)} if is_dir else {}))
            try:
                m.fit_variogram(xarg, y.copy(), weights=wa if case["wform"] == "list" else np.array(wa, dtype=float), init_guess="current", loss=case["loss"])
            except RuntimeError:
                return None  # scipy's optimiser gave up (maximum number of evaluations): nothing to compare
            except Exception as exc:  # noqa: BLE001
                raise Violation(f"fit_variogram raised {type(exc).__name__}: {exc}", tags=dict(tags, kind="exception")) from exc
        return np.array([m.var, m.len_scale, m.nugget] + [float(a) for a in m.anis], dtype=float)

    xint = xi.astype(np.int32) if case["xform"] == "int32" else (xi.tolist() if case["xform"] == "list" else xi)
    p_int = fit(xint)
    p_flt = fit(xf.copy())
    if p_int is None or p_flt is None:
        require((p_int is None) == (p_flt is None), "the optimiser gives up for one of integer / float bin centres only", dict(tags, kind="int_bins"))
        rec.exclude("optimiser_gave_up")
        return
    sc = np.array([case["var"], ls, case["var"]] + [1.0] * (dim - 1))
    dev = float(np.max(np.abs(p_int - p_flt) / sc))
    rec.discrepancy("int_vs_float_bins", dev, 1e-9)
    require(dev <= 1e-9,
            f"{cls} d={dim}: fit on integer-typed bin centres {p_int.tolist()} differs from the fit on the same numbers as floats {p_flt.tolist()} "
            f"(weights min {float(np.min(w)):.3g}, max {float(np.max(w)):.3g})",
            dict(tags, kind="int_bins"))
    rec.nontrivial(True)


def _g(mode, kind):
    return lambda tier: gen_fit(tier, mode=mode, kind=kind)


SUBS = [
    Sub("recover_iso", _g("iso", "recover"), check_fit, quick=1200, thorough=24000, shards_quick=4, shards_thorough=6, shrink_quick=False),
    Sub("recover_dir", _g("dir", "recover"), check_fit, quick=600, thorough=12000, shards_quick=3, shards_thorough=4, shrink_quick=False),
    Sub("recover_latlon", _g("latlon", "recover"), check_fit, quick=400, thorough=6000, shards_quick=2, shards_thorough=2, shrink_quick=False),
    Sub("constrain_iso", _g("iso", "constrain"), check_fit, quick=900, thorough=10000, shards_quick=3, shards_thorough=2, shrink_quick=False),
    Sub("constrain_dir", _g("dir", "constrain"), check_fit, quick=500, thorough=4000, shards_quick=2, shards_thorough=1, shrink_quick=False),
    Sub("errors", gen_errors, check_errors, quick=300, thorough=3000, shards_quick=1, shards_thorough=1),
    Sub("int_bins", gen_intbins, check_intbins, quick=200, thorough=3000, shards_quick=1, shards_thorough=2),
]

"""C12 - Anisotropy and rotation act as a linear change of coordinates."""

import math

import numpy as np
from hypothesis import strategies as st

import common
from common import Sub, Violation, lib, require
import gens
from gens import build_model, logfloat
from oracles import geometry as geo

import gstools as gs

ID = "C12"
LEVEL = "exploration"
RULE = (
    "Hypothesis draws (dim 1-4, angle vectors incl. multiples of pi/2 and |a|>2pi, "
    "ratios log-uniform [0.05,20], lists shorter/longer than needed, point sets) "
    "and, for pipelines, (class, parameters, seed, conditioning layout). Oracle: an "
    "independent rotation/stretch (explicit 2-D/3-D matrices, matrix exponentials in "
    "n-D). Non-trivial: dim>=2 with at least one angle not a multiple of pi/2 and one "
    "ratio != 1; distinct by hash of the rounded case."
)
ASSUMPTIONS = [
    "the documented angle convention is R = Rx(roll) Ry(pitch) Rz(yaw) acting on column vectors "
    "(pinned by tests/test_srf.py rotation cases); scipy.linalg.expm is correct",
]

SPECIAL_ANGLES = [0.0, math.pi / 2, -math.pi / 2, math.pi, 2 * math.pi, 7.0, -9.5]


def _angles(n):
    return st.lists(
        st.one_of(st.floats(-2 * math.pi, 2 * math.pi), st.sampled_from(SPECIAL_ANGLES)),
        min_size=n,
        max_size=n,
    )


def _nontrivial_geo(case):
    dim = case["dim"]
    if dim < 2:
        return False
    ang = geo.pad_angles(dim, case.get("angles", [0.0]))
    ani = geo.pad_anis(dim, case.get("anis", [1.0]))
    odd = any(abs(math.sin(2 * a)) > 1e-6 for a in ang)
    return bool(odd and any(abs(r - 1) > 1e-9 for r in ani))


# ---------------------------------------------------------------------------
# algebra


@st.composite
def gen_algebra(draw, tier="quick"):
    dim = draw(st.sampled_from([1, 2, 2, 3, 3, 3, 4]))
    nang = geo.n_angles(dim)
    # list lengths: exact, too short, too long, scalar
    la = draw(st.integers(0, nang + 1)) if nang else 0
    angles = draw(_angles(max(la, 1))) if nang else [0.0]
    lr = draw(st.integers(1, dim)) if dim > 1 else 1
    anis = draw(st.lists(logfloat(0.05, 20.0), min_size=lr, max_size=lr))
    n = draw(st.integers(1, 6))
    pos = draw(
        st.lists(
            st.lists(st.floats(-100, 100), min_size=n, max_size=n),
            min_size=dim,
            max_size=dim,
        )
    )
    cls = draw(st.sampled_from(["Gaussian", "Exponential", "Matern", "Stable"]))
    return {
        "dim": dim,
        "angles": angles,
        "anis": anis,
        "pos": pos,
        "cls": cls,
        "len_scale": draw(logfloat(0.1, 10)),
        "t": draw(logfloat(0.05, 5)),
        # ratios / angles handed over as lists, or as float arrays that the caller fills with other numbers afterwards
        "arg_form": draw(st.sampled_from(["list", "list", "array_reused", "array_reused_exact_len"])),
        # metric space-time model of the same total dimension: the last axis is time and takes no part in rotations
        "temporal": dim >= 2 and draw(st.integers(0, 3)) == 0,
    }


def check_algebra(case, rec):
    dim = case["dim"]
    rec.label(f"dim{dim}")
    tags = {"dim": dim}
    form = case.get("arg_form", "list")
    a_arg, g_arg = case["anis"], case["angles"]
    if form != "list":
        if form == "array_reused_exact_len" and dim > 1:
            # exactly dim - 1 ratios and the full set of angles (nothing to pad)
            a_arg = [float(v) for v in geo.pad_anis(dim, case["anis"])]
            g_arg = [float(v) for v in geo.pad_angles(dim, case["angles"])]
        a_arg, g_arg = np.array(a_arg, dtype=np.double), np.array(g_arg, dtype=np.double)
        rec.label("ratios_and_angles_as_reused_arrays")
    temporal = bool(case.get("temporal")) and dim >= 2
    dkw = dict(temporal=True, spatial_dim=dim - 1) if temporal else dict(dim=dim)
    if temporal:
        rec.label(f"temporal_{dim - 1}d+t")
    model = lib(
        getattr(gs, case["cls"]),
        len_scale=case["len_scale"],
        anis=a_arg,
        angles=g_arg,
        _what="model construction",
        _tags=tags,
        **dkw,
    )
    if form != "list":
        a_arg[...] = 123.0
        g_arg[...] = 0.77
    pos = np.array(case["pos"], dtype=float).reshape(dim, -1)
    scale = max(1.0, float(np.max(np.abs(pos))))
    anis_o = geo.pad_anis(dim, case["anis"])
    ang_o = geo.pad_angles(dim, case["angles"])
    if temporal:
        # only the rotations among the spatial axes are kept (the first n_angles(dim - 1) entries); time is never rotated into space
        ang_o = np.array(ang_o, dtype=float)
        ang_o[geo.n_angles(dim - 1):] = 0.0
        require(model.dim == dim and model.temporal, f"space-time model: dim {model.dim}, temporal {model.temporal}", tags)
    # padding rules
    require(
        np.allclose(model.anis, anis_o, rtol=1e-14, atol=0) if dim > 1 else len(model.anis) == 0,
        f"anis padding: got {model.anis}, documented {anis_o}",
        tags,
    )
    require(
        np.allclose(model.angles, ang_o, rtol=0, atol=0),
        f"angles padding: got {model.angles}, documented {ang_o}",
        tags,
    )
    R = geo.rotation(dim, ang_o)
    # library rotation matrix
    from gstools.tools import geometric as gg

    ang_arg = case["angles"] if not temporal else [float(a) for a in ang_o]
    Rl = lib(gg.matrix_rotate, dim, ang_arg)
    Dl = lib(gg.matrix_derotate, dim, ang_arg)
    err = float(np.max(np.abs(Rl - R)))
    rec.discrepancy("rotation", err, 1e-12)
    require(err <= 1e-12, f"matrix_rotate deviates from documented convention by {err:.3g}", tags)
    require(
        np.max(np.abs(Rl @ Rl.T - np.eye(dim))) <= 1e-12,
        "matrix_rotate not orthogonal",
        tags,
    )
    require(abs(np.linalg.det(Rl) - 1.0) <= 1e-12, "det(matrix_rotate) != +1", tags)
    require(np.max(np.abs(Dl - Rl.T)) <= 1e-12, "matrix_derotate != matrix_rotate^T", tags)
    # main axes
    axes = lib(model.main_axes)
    for i in range(dim):
        require(
            np.max(np.abs(axes[i] - R[:, i])) <= 1e-12,
            f"main_axes()[{i}] != R e_{i}",
            tags,
        )
    # single-angle sanity of the convention itself
    if dim == 3:
        ex = geo.rotation(3, [0.3, 0, 0])[:, 0]
        require(ex[1] > 0, "oracle: yaw moves e_x towards +e_y", tags)
    # isometrize / anisometrize
    iso_l = lib(model.isometrize, pos)
    iso_o = geo.isometrize(dim, ang_o, anis_o, pos)
    tol = 1e-12 * scale * max(1.0, float(np.max(1.0 / anis_o)) if dim > 1 else 1.0)
    err = float(np.max(np.abs(iso_l - iso_o)))
    rec.discrepancy("isometrize", err, tol)
    require(err <= tol, f"isometrize deviates by {err:.3g} (tol {tol:.3g})", tags)
    back = lib(model.anisometrize, iso_l)
    cond = (float(np.max(anis_o)) / float(np.min(anis_o))) if dim > 1 else 1.0
    tol2 = 1e-12 * scale * max(1.0, cond)
    err = float(np.max(np.abs(back - pos)))
    rec.discrepancy("roundtrip", err, tol2)
    require(err <= tol2, f"anisometrize(isometrize(x)) != x by {err:.3g}", tags)
    forth = lib(model.isometrize, lib(model.anisometrize, pos))
    err = float(np.max(np.abs(forth - pos)))
    require(err <= tol2, f"isometrize(anisometrize(x)) != x by {err:.3g}", tags)
    # len_scale along main axes
    lsv = lib(lambda: model.len_scale_vec)
    want = case["len_scale"] * np.concatenate(([1.0], anis_o))
    require(
        np.allclose(lsv, want, rtol=1e-13, atol=0),
        f"len_scale_vec {lsv} != len_scale*[1,anis] {want}",
        tags,
    )
    t = case["t"] * case["len_scale"]
    for i in range(dim):
        v_sp = float(lib(model.vario_spatial, t * R[:, i])[0])
        fac = 1.0 if i == 0 else anis_o[i - 1]
        v_iso = float(model.variogram(t / fac))
        require(
            abs(v_sp - v_iso) <= 1e-9,
            f"vario_spatial along main axis {i}: {v_sp} vs variogram(t/anis) {v_iso}",
            tags,
        )
        v_ax = float(lib(model.vario_axis, t, axis=i))
        require(abs(v_ax - v_iso) <= 1e-12, f"vario_axis({i}) mismatch", tags)
    # cov_spatial of arbitrary lags
    r_o = np.linalg.norm(iso_o, axis=0)
    c_l = lib(model.cov_spatial, pos)
    c_o = model.covariance(r_o)
    require(
        np.max(np.abs(c_l - c_o)) <= 1e-9,
        "cov_spatial(h) != covariance(|S^-1 R^T h|)",
        tags,
    )
    rec.nontrivial(_nontrivial_geo(case))


# ---------------------------------------------------------------------------
# len_scale lists


@st.composite
def gen_lenlist(draw, tier="quick"):
    dim = draw(st.sampled_from([2, 3, 3, 4]))
    k = draw(st.integers(2, dim + 1))
    ls = draw(st.lists(logfloat(0.05, 20), min_size=k, max_size=k))
    anis = draw(st.lists(logfloat(0.1, 10), min_size=1, max_size=dim - 1))
    return {"dim": dim, "len_scale": ls, "anis": anis}


def check_lenlist(case, rec):
    dim = case["dim"]
    tags = {"dim": dim}
    model = lib(gs.Exponential, dim=dim, len_scale=case["len_scale"], anis=case["anis"], _tags=tags)
    ls = list(case["len_scale"])[:dim]
    ls = ls + [ls[-1]] * (dim - len(ls))
    require(abs(model.len_scale - ls[0]) <= 0, "main len_scale != first list entry", tags)
    want = np.array(ls[1:]) / ls[0]
    require(
        np.allclose(model.anis, want, rtol=1e-14, atol=0),
        f"len_scale list {case['len_scale']} -> anis {model.anis}, documented {want}",
        tags,
    )
    require(
        np.allclose(model.len_scale_vec, ls, rtol=1e-13, atol=0),
        f"len_scale_vec {model.len_scale_vec} != given list {ls}",
        tags,
    )
    # the same list assigned to a model that has been *used* before: every geometric method follows the new ratios at once
    ang = [0.3 * (i + 1) for i in range(geo.n_angles(dim))]
    m2 = lib(gs.Exponential, dim=dim, len_scale=1.7, anis=case["anis"], angles=ang, _tags=tags)
    x = np.array([[0.7 * (i + 1) * (-1) ** j + 0.1 * j for j in range(5)] for i in range(dim)], dtype=float)
    m2.isometrize(x)
    m2.anisometrize(x)
    m2.cov_spatial(x)
    m2.len_scale = case["len_scale"]
    require(np.allclose(m2.anis, want, rtol=1e-14, atol=0), f"len_scale list assigned to a used model -> anis {m2.anis}, documented {want}", tags)
    M = geo.iso_matrix(dim, ang, list(want))
    iso = np.asarray(lib(m2.isometrize, x, _tags=tags))
    sc = float(np.max(np.abs(M))) * float(np.max(np.abs(x)))
    require(
        float(np.max(np.abs(iso - M @ x))) <= 1e-12 * sc,
        f"isometrize after `len_scale = {case['len_scale']}` on a used model does not follow the new ratios {want.tolist()} "
        f"(deviation {float(np.max(np.abs(iso - M @ x))):.3g})",
        dict(tags, kind="stale_after_len_scale_list"),
    )
    back = np.asarray(lib(m2.anisometrize, iso, _tags=tags))
    require(float(np.max(np.abs(back - x))) <= 1e-11 * (1 + sc), "anisometrize(isometrize(x)) != x after a len_scale list assignment", dict(tags, kind="stale_after_len_scale_list"))
    cs_ = np.asarray(lib(m2.cov_spatial, x, _tags=tags))
    co_ = m2.covariance(np.linalg.norm(M @ x, axis=0))
    require(float(np.max(np.abs(cs_ - co_))) <= 1e-12 * float(m2.var), "cov_spatial(x) != covariance(|S^-1 R^T x|) after a len_scale list assignment", dict(tags, kind="stale_after_len_scale_list"))
    rec.nontrivial(len(set(ls)) > 1)


# ---------------------------------------------------------------------------
# pipelines

PIPE_CLASSES = [c for c in gens.CLASSES]


@st.composite
def gen_pipeline(draw, tier="quick", kind="srf"):
    dim = draw(st.sampled_from([2, 3]))
    classes = [c for c in PIPE_CLASSES if gens.max_valid_dim(c) >= dim]
    if kind == "fourier":
        classes = ["Gaussian", "Exponential", "Matern"]
    if kind in ("srf", "condsrf", "vector"):
        # generators whose spectral sampling is cheap and well behaved
        classes = ["Gaussian", "Exponential", "Matern", "Integral", "TPLGaussian", "JBessel"]
        if kind == "vector":
            classes = ["Gaussian", "Exponential", "Matern"]
    spec = draw(
        gens.model_specs(
            classes=classes,
            dims=(dim,),
            mode="accuracy",
            nugget=False,
            scale_range=(0.2, 5.0),
            var_range=(0.1, 10.0),
        )
    )
    # force anisotropy+rotation most of the time
    if draw(st.floats(0, 1)) < 0.85:
        spec["anis"] = draw(st.lists(logfloat(0.15, 6.0), min_size=dim - 1, max_size=dim - 1))
        spec["angles"] = draw(_angles(geo.n_angles(dim)))
    n = draw(st.integers(2, 7))
    pos = draw(gens.point_cloud(dim, n_min=n, n_max=n, kinds=("cloud",)))
    case = {"kind": kind, "spec": spec, "pos": pos, "seed": draw(st.integers(0, 2**31 - 1))}
    if kind == "fourier":
        ls_ = spec["len_scale"] / (spec.get("rescale") or 1.0)
        case["period"] = [float(draw(st.floats(4.0, 12.0)) * ls_) for _ in range(dim)]
        case["fmodes"] = [draw(st.sampled_from([4, 6, 8])) for _ in range(dim)]
        if draw(st.integers(0, 2)) == 0:
            # the target model is isotropic (ratios 1) but reached from an anisotropic one
            spec["anis"] = [1.0] * (dim - 1)
    if kind in ("krige", "condsrf", "srf", "vector", "fourier") and draw(st.integers(0, 2 if kind != "fourier" else 1)) == 0:
        # the object is built with another orientation; the model is then re-oriented in place and refreshed as documented
        case["start"] = {"anis": draw(st.lists(logfloat(0.15, 6.0), min_size=dim - 1, max_size=dim - 1)), "angles": draw(_angles(geo.n_angles(dim))),
                         "use_first": draw(st.booleans())}
    if kind in ("krige", "condsrf", "covx"):
        ncond = draw(st.integers(1 if kind == "covx" else 2, 6))
        if kind == "covx":
            ncond = 1
        case["cond_pos"] = draw(gens.separated_points(dim, n_min=ncond, n_max=ncond, box=2.0, min_sep=0.3))
        case["cond_val"] = draw(st.lists(st.floats(-3, 3), min_size=ncond, max_size=ncond))
        case["variant"] = draw(st.sampled_from(["simple", "ordinary"]))
        case["mean"] = draw(st.floats(-2, 2))
    if kind == "vector":
        case["mean_u"] = draw(st.floats(0.2, 3.0))
    case["mode_no"] = draw(st.sampled_from([16, 64, 200]))
    return case


def _iso_spec(spec):
    s = dict(spec)
    s["anis"] = [1.0] * (spec["dim"] - 1)
    s["angles"] = [0.0] * geo.n_angles(spec["dim"])
    return s


def _nontrivial_pipe(case):
    s = case["spec"]
    if case.get("kind") == "fourier":
        return bool(case.get("start")) or any(a != 1.0 for a in s["anis"])
    return _nontrivial_geo({"dim": s["dim"], "angles": s["angles"], "anis": s["anis"]})


def _mk_krige(model, case, cond_pos):
    if case["variant"] == "simple":
        return gs.krige.Simple(model, cond_pos, case["cond_val"], mean=case["mean"])
    return gs.krige.Ordinary(model, cond_pos, case["cond_val"])


def _mk_reoriented(m_a, spec, case, cp, rec):
    """The kriging object for model m_a; optionally reached by re-orienting the model of an existing object in place."""
    start = case.get("start")
    if not start:
        return _mk_krige(m_a, case, cp)
    rec.label("reoriented_in_place")
    m0 = build_model(dict(spec, anis=start["anis"], angles=start["angles"]))
    k = _mk_krige(m0, case, cp)
    if start.get("use_first"):
        # the object has been evaluated on the target points before; they are then re-used without being passed again
        k(np.array(case["pos"], dtype=float).reshape(spec["dim"], -1))
        rec.label("stored_positions_reused")
    k.model.anis = spec["anis"]
    k.model.angles = spec["angles"]
    k.set_condition()  # the documented refresh after in-place model changes
    return k


def _start_in_isclose_window(spec, start):
    """Start orientation differs from the target one, but only inside numpy.isclose's default window."""
    a0, a1 = np.array(start["anis"], dtype=float), np.array(spec["anis"], dtype=float)
    g0, g1 = np.array(start["angles"], dtype=float), np.array(spec["angles"], dtype=float)
    same = bool(np.array_equal(a0, a1) and np.array_equal(g0, g1))
    return (not same) and bool(np.all(np.isclose(a0, a1)) and np.all(np.isclose(g0, g1)))


def check_pipeline(case, rec):
    spec = case["spec"]
    dim = spec["dim"]
    kind = case["kind"]
    if case.get("start") and kind in ("srf", "vector", "fourier") and _start_in_isclose_window(spec, case["start"]):
        # generators compare their model copy with numpy.isclose: an in-place change inside that window is not seen (finding K7,
        # registered and probed under C11) - the re-orientation route is left out for such a start, the fresh route still runs
        rec.exclude("K7_isclose_window_start_orientation")
        case = {k: v for k, v in case.items() if k != "start"}
    tags = dict(gens.spec_tags(spec), kind=kind)
    rec.label(kind, spec["cls"])
    pos = np.array(case["pos"], dtype=float).reshape(dim, -1)
    M = geo.iso_matrix(dim, spec["angles"], spec["anis"])
    pos_iso = M @ pos
    m_a = lib(build_model, spec, _tags=tags)
    m_i = lib(build_model, _iso_spec(spec), _tags=tags)
    sd = math.sqrt(spec["var"])
    cond = float(np.max(np.abs(M))) * float(np.max(np.abs(pos))) + 1.0
    if kind in ("srf", "vector"):
        gen = "RandMeth" if kind == "srf" else "VectorField"
        kw = {"mode_no": case["mode_no"]}
        if kind == "vector":
            kw["mean_velocity"] = case["mean_u"]
        start = case.get("start")
        if start:
            # one SRF object: evaluated, its model re-oriented in place, evaluated again on the stored (or the given) positions
            rec.label("reoriented_in_place")
            srf_a = gs.SRF(build_model(dict(spec, anis=start["anis"], angles=start["angles"])), generator=gen, seed=case["seed"], **kw)
            srf_a(pos)
            srf_a.model.anis = spec["anis"]
            srf_a.model.angles = spec["angles"]
            if start.get("use_first"):
                rec.label("stored_positions_reused")
                f_a = lib(lambda: srf_a(), _what="SRF on stored positions", _tags=tags)
            else:
                f_a = lib(lambda: srf_a(pos), _tags=tags)
        else:
            f_a = lib(lambda: gs.SRF(m_a, generator=gen, seed=case["seed"], **kw)(pos), _tags=tags)
        f_i = lib(lambda: gs.SRF(m_i, generator=gen, seed=case["seed"], **kw)(pos_iso), _tags=tags)
        # phase rounding: |k| |x| eps per mode, sqrt(N) modes
        kmax = 60.0 / spec["len_scale"] * (spec.get("rescale") or 1.0) + 60.0
        tol = 1e-9 * sd * (1 + kmax * cond * 1e-4) * (case.get("mean_u", 1.0) if kind == "vector" else 1.0)
        err = float(np.max(np.abs(f_a - f_i)))
        rec.discrepancy(kind, err, tol)
        require(
            err <= tol,
            f"{kind}: field of anisotropic model at x differs from isotropic model at S^-1R^Tx by {err:.3g} (tol {tol:.3g})",
            tags,
        )
    elif kind == "fourier":
        # periodic generator: the mode spacing follows the ratios, so the anisotropic model with periods L at x is the isotropic
        # model with periods L / [1, anis] at the transformed positions (same seed, same mode numbers)
        L = np.array(case["period"], dtype=float)
        an = np.concatenate([[1.0], geo.pad_anis(dim, spec["anis"])])
        kwf = dict(generator="Fourier", mode_no=list(case["fmodes"]), seed=case["seed"])
        start = case.get("start")
        if start:
            rec.label("reoriented_in_place")
            srf_a = gs.SRF(build_model(dict(spec, anis=start["anis"], angles=start["angles"])), period=list(L), **kwf)
            srf_a(pos)
            srf_a.model.anis = spec["anis"]
            srf_a.model.angles = spec["angles"]
            f_a = lib(lambda: srf_a() if start.get("use_first") else srf_a(pos), _what="Fourier SRF after in-place re-orientation", _tags=tags)
        else:
            f_a = lib(lambda: gs.SRF(m_a, period=list(L), **kwf)(pos), _tags=tags)
        f_i = lib(lambda: gs.SRF(m_i, period=list(L / an), **kwf)(pos_iso), _tags=tags)
        kmax_ = float(np.max(2 * np.pi / (L / an) * np.array(case["fmodes"])))
        tol = 1e-10 * sd * (1.0 + kmax_ * cond) * float(np.prod(case["fmodes"]))
        err = float(np.max(np.abs(np.asarray(f_a) - np.asarray(f_i))))
        rec.discrepancy("fourier", err, tol)
        require(err <= tol, f"Fourier field of the anisotropic model at x differs from the isotropic model (periods L / [1, anis]) at S^-1R^Tx by {err:.3g} (tol {tol:.3g})", tags)
    elif kind == "krige":
        cp = np.array(case["cond_pos"], dtype=float).reshape(dim, -1)
        cp_iso = M @ cp
        k_a = lib(_mk_reoriented, m_a, spec, case, cp, rec, _tags=tags)
        k_i = lib(_mk_krige, m_i, case, cp_iso, _tags=tags)
        if (case.get("start") or {}).get("use_first"):
            f_a, v_a = lib(k_a, _what="Krige.__call__ on stored positions", _tags=tags)
        else:
            f_a, v_a = lib(k_a, pos, _tags=tags)
        f_i, v_i = lib(k_i, pos_iso, _tags=tags)
        zs = max(1.0, float(np.max(np.abs(case["cond_val"]))))
        kc = float(np.linalg.cond(np.linalg.pinv(k_a._krige_mat)))
        tol = max(1e-9, 1e-13 * kc) * zs
        err = float(np.max(np.abs(f_a - f_i)))
        rec.discrepancy("krige_field", err, tol)
        require(err <= tol, f"kriging estimate differs under coordinate change by {err:.3g} (tol {tol:.3g})", tags)
        tolv = max(1e-9, 1e-13 * kc) * spec["var"]
        err = float(np.max(np.abs(v_a - v_i)))
        rec.discrepancy("krige_var", err, tolv)
        require(err <= tolv, f"kriging variance differs under coordinate change by {err:.3g} (tol {tolv:.3g})", tags)
    elif kind == "condsrf":
        cp = np.array(case["cond_pos"], dtype=float).reshape(dim, -1)
        cp_iso = M @ cp
        k_a = lib(_mk_reoriented, m_a, spec, case, cp, rec, _tags=tags)
        k_i = lib(_mk_krige, m_i, case, cp_iso, _tags=tags)
        if (case.get("start") or {}).get("use_first"):
            c_a = lib(lambda: gs.CondSRF(k_a, mode_no=case["mode_no"])(seed=case["seed"]), _what="CondSRF on stored positions", _tags=tags)
        else:
            c_a = lib(lambda: gs.CondSRF(k_a, mode_no=case["mode_no"])(pos, seed=case["seed"]), _tags=tags)
        c_i = lib(lambda: gs.CondSRF(k_i, mode_no=case["mode_no"])(pos_iso, seed=case["seed"]), _tags=tags)
        zs = max(1.0, float(np.max(np.abs(case["cond_val"]))))
        kc = float(np.linalg.cond(np.linalg.pinv(k_a._krige_mat)))
        kmax = 60.0 / spec["len_scale"] * (spec.get("rescale") or 1.0) + 60.0
        tol = max(1e-8, 1e-12 * kc) * (zs + sd) * (1 + kmax * cond * 1e-5)
        err = float(np.max(np.abs(c_a - c_i)))
        rec.discrepancy("condsrf", err, tol)
        require(err <= tol, f"conditioned field differs under coordinate change by {err:.3g} (tol {tol:.3g})", tags)
    elif kind == "covx":
        # black-box covariance extraction with one datum (simple kriging)
        a = np.array(case["cond_pos"], dtype=float).reshape(dim, 1)
        z = case["cond_val"][0]
        mean = case["mean"]
        if abs(z - mean) < 0.1:
            z = mean + 1.0
        k = lib(gs.krige.Simple, m_a, a, [z], mean=mean, _tags=tags)
        est = lib(k, pos, return_var=False, _tags=tags)
        c_used = spec["var"] * (est - mean) / (z - mean)
        r = np.linalg.norm(M @ (pos - a), axis=0)
        c_or = m_i.covariance(r)
        c_sp = m_a.cov_spatial(pos - a)
        tol = 1e-9 * spec["var"] * max(1.0, 1.0 / abs(z - mean))
        err = float(np.max(np.abs(c_used - c_or)))
        rec.discrepancy("covx", err, tol)
        require(err <= tol, f"covariance used by kriging differs from cov(|S^-1R^T(A-B)|) by {err:.3g}", tags)
        require(float(np.max(np.abs(c_sp - c_or))) <= tol, "cov_spatial differs from oracle", tags)
    rec.nontrivial(_nontrivial_pipe(case))


def _g(kind):
    return lambda tier: gen_pipeline(tier, kind=kind)


SUBS = [
    Sub("algebra", gen_algebra, check_algebra, quick=1500, thorough=40000, shards_quick=4, shards_thorough=8),
    Sub("lenlist", gen_lenlist, check_lenlist, quick=300, thorough=4000, shards_quick=1, shards_thorough=2),
    Sub("pipe_srf", _g("srf"), check_pipeline, quick=160, thorough=4000, shards_quick=2, shards_thorough=4),
    Sub("pipe_krige", _g("krige"), check_pipeline, quick=300, thorough=8000, shards_quick=2, shards_thorough=4),
    Sub("pipe_condsrf", _g("condsrf"), check_pipeline, quick=120, thorough=3000, shards_quick=2, shards_thorough=4),
    Sub("pipe_vector", _g("vector"), check_pipeline, quick=100, thorough=2000, shards_quick=2, shards_thorough=2),
    Sub("pipe_fourier", _g("fourier"), check_pipeline, quick=160, thorough=4000, shards_quick=2, shards_thorough=4),
    Sub("cov_extract", _g("covx"), check_pipeline, quick=300, thorough=8000, shards_quick=2, shards_thorough=4),
]
